#!/venv/bin/python
"""Regenerates /verif/MANIFEST.json from the table below (python vp/mkmanifest.py)."""

from __future__ import annotations

import json
import subprocess
from pathlib import Path

VERIF = Path(__file__).resolve().parents[1]

# id -> (technique, level text, level note, design ref)
CHECKS: dict[str, tuple[str, str, str, str]] = {
    "C10": (
        "exhaustive enumeration of signature pairs, differential against CPython's call binder",
        "Every ordered pair of the 2290 legal signatures over {a,b,c} x 5 kinds x 3 defaults (<=3 parameters) is diffed by "
        "find_breaking_changes and judged against 80 call shapes actually bound by CPython; thorough adds a seeded sample of "
        "the 1.4e9 pairs of the 4-name/4-parameter alphabet. Both tiers also enumerate every ordered pair of 25 default texts "
        "(1, True, 1.0, 0x1, 'x', (), x.y ...) in 4 signature templates (changed value or type => reported; same value => silent) and a "
        "sample of the pairs rendered as a method inherited by a public class from a private base and as static method, method and class method of a public class, with the new side built through the Parameters API, and with the function re-exported from a private module on either side. Exhaustive inside the bound, nothing beyond it.",
        "CPython 3.12 binder is the oracle; call shapes <=4 (5) positional arguments and keyword names from the alphabet plus one foreign name.",
        "DESIGN.md 4/C10",
    ),
}

# checks reviewed by the coordinator (quiet on the unchanged tree at several seeds, mutants caught); only these are claimed
ACCEPTED = ["C01", "C02", "C03", "C04", "C05", "C06", "C07", "C08", "C09", "C10", "C11", "C12", "C13", "C14", "C15", "C16", "C17", "C18", "C19", "C20"]

LEVELS = {"C15": "fault_enumeration", "C20": "fault_enumeration"}

PENDING_REASON = "check not built yet in this session (see DESIGN.md section 4); no claim is made until it is registered"


def main() -> None:
    for f in sorted((VERIF / "vp" / "manifest.d").glob("*.json")):
        if f.stem.upper() not in ACCEPTED:
            continue
        d = json.loads(f.read_text())
        CHECKS[f.stem.upper()] = (d["technique"], d["text"], d["note"], d.get("design_ref", f"DESIGN.md 4/{f.stem.upper()}"))
    checks = []
    for pid in sorted(CHECKS):
        technique, text, note, ref = CHECKS[pid]
        checks.append(
            {
                "property_id": pid,
                "quick_cmd": f"/venv/bin/python vp/run.py {pid} --tier quick",
                "thorough_cmd": f"/venv/bin/python vp/run.py {pid} --tier thorough",
                "evidence_file": f"evidence/{pid}.json",
                "replay_cmd_template": f"/venv/bin/python vp/run.py {pid} --replay {{path}}",
                "engine": "vp-runner",
                "level_claimed": {"category": LEVELS.get(pid, "exploration"), "text": text, "design_ref": ref},
                "level_note": note,
                "technique": technique,
            }
        )
    all_ids = [json.loads(line)["id"] for line in (VERIF / "properties.jsonl").read_text().splitlines() if line.strip()]
    na = [{"property_id": pid, "reason": PENDING_REASON} for pid in all_ids if pid not in CHECKS]
    manifest = {
        "version": 1,
        "setup_cmd": "sh vp/setup.sh",
        "hooks": {
            "guard": "GRIFFE_VERIF",
            "enable": "no hooks: checks import /repo/src directly (sys.path[0]); nothing to build",
            "baseline_off_cmd": "cd /repo && /venv/bin/python -m pytest -ra -q -p no:cacheprovider --timeout=900 --continue-on-collection-errors",
            "source_commits": [],
            "add_only": True,
        },
        "engines": [
            {
                "name": "vp-runner",
                "path": "vp/run.py",
                "serves_properties": sorted(CHECKS),
                "kind_free_text": "property-based testing: Hypothesis strategies / rule-based state machines, exhaustive enumeration of "
                "finite sub-spaces sharded over 16 processes, CPython as differential oracle, shrinking to replay files",
            }
        ],
        "checks": checks,
        "not_applicable": na,
        "notes": "All checks: exit 0 = held on everything explored; exit 1 + VIOLATION line; exit 2 = harness error. "
        "known_findings.txt lists recorded findings (KNOWN-FINDING lines) and fixed defects.",
    }
    if not na:
        manifest.pop("not_applicable")
    (VERIF / "MANIFEST.json").write_text(json.dumps(manifest, indent=1) + "\n")
    try:
        import jsonschema

        jsonschema.validate(manifest, json.loads(Path("/root/.vp/MANIFEST.schema.json").read_text()))
        print("MANIFEST.json valid;", len(checks), "checks,", len(na), "not claimed")
    except ImportError:
        print("MANIFEST.json written (jsonschema unavailable)")


if __name__ == "__main__":
    main()
