#!/bin/sh
# usage: vp/seedround2.sh C07   — tests /tmp/seed/out2/C07/{patch,patch-b}.diff and stores them as seeded/C07-c and seeded/C07-d
ID=$1
for pair in ":-c" "-b:-d"; do
  sfx=${pair%%:*}; as=${pair##*:}
  [ -f /tmp/seed/out2/$ID/patch$sfx.diff ] || { echo "$ID$as: no patch"; continue; }
  /venv/bin/python vp/seedtest.py $ID /tmp/seed/out2/$ID --suffix=$sfx --as $ID$as --store 2>&1 | grep -E "_rc|bucket|stored|NOT|_err" | cut -c1-230
done
