#!/bin/sh
# usage: vp/applyfix.sh <patch file> <known_findings.d file> <witness-substring> "<commit subject>" ["body"]
# Applies one patch to /repo, runs the repository suite against the tree's own sources, commits it as "fix: …",
# and replaces commit=PENDING on the matching fixed: line(s).
set -e
PATCH=$(realpath "$1"); KF="$2"; WIT="$3"; SUBJ="$4"; BODY="${5:-}"
cd /repo
git apply --check "$PATCH" 2>/dev/null && git apply "$PATCH" || patch -p1 --no-backup-if-mismatch < "$PATCH"
OUT=$(PYTHONPATH=/repo/src /venv/bin/python -m pytest -q -p no:cacheprovider --continue-on-collection-errors 2>&1 | tail -1)
echo "tree suite: $OUT"
case "$OUT" in *failed*|*error*) echo "SUITE NOT GREEN, reverting"; git checkout -- .; exit 1;; esac
git add -A
if [ -n "$BODY" ]; then git commit -q -m "fix: $SUBJ" -m "$BODY"; else git commit -q -m "fix: $SUBJ"; fi
SHA=$(git rev-parse --short HEAD)
echo "committed $SHA"
if [ -n "$KF" ] && [ -f "/verif/$KF" ]; then
  sed -i "/$WIT/s/commit=PENDING/commit=$SHA/" "/verif/$KF"
fi
