#!/bin/sh
# usage: vp/seedround.sh <outdir> <ID> <suffixA> <suffixB>   e.g. vp/seedround.sh /tmp/seed/out3 C07 -e -f
OUT=$1; ID=$2; A=$3; B=$4
for pair in ":$A" "-b:$B"; do
  sfx=${pair%%:*}; as=${pair##*:}
  [ -f $OUT/$ID/patch$sfx.diff ] || { echo "$ID$as: no patch"; continue; }
  /venv/bin/python vp/seedtest.py $ID $OUT/$ID --suffix=$sfx --as $ID$as --store 2>&1 | grep -E "_rc|stored|NOT|_err" | tr '\n' ' ' | cut -c1-400; echo " <= $ID$as"
done
