"""C02 — Hypothesis strategies and renderers for sampled signatures, overload groups and property groups.

All cases are JSON dicts with a "kind" field ("sig" | "ovl" | "prop"); rendering is deterministic.
"""

from __future__ import annotations

from hypothesis import strategies as st

from vp.gen import c02_sig as S

# ----------------------------------------------------------------------------- sampled signature models
@st.composite
def sig_models(draw, max_each: int = 2, annotations: bool = True, min_total: int = 0):
    po = draw(st.integers(0, max_each))
    pk = draw(st.integers(0, max_each))
    va = draw(st.integers(0, 1))
    ko = draw(st.integers(0, max_each))
    vk = draw(st.integers(0, 1))
    if po + pk + va + ko + vk < min_total:
        pk += min_total - (po + pk + va + ko + vk)
    n = po + pk + va + ko + vk
    npd = draw(st.integers(0, po + pk))
    kom = draw(st.integers(0, (1 << ko) - 1))
    ann = draw(st.integers(0, (1 << (n + 1)) - 1)) if annotations else 0
    return {"po": po, "pk": pk, "va": va, "ko": ko, "vk": vk, "npd": npd, "kom": kom, "ann": ann}


def big_sig_cases(lo: int, max_each: int):
    """Signatures above the exhaustively enumerated bound (>= lo parameters)."""
    return sig_models(max_each=max_each, min_total=lo).filter(lambda m: S.n_params(m) >= lo).map(lambda m: {"kind": "sig", **m})


# ----------------------------------------------------------------------------- overload groups
OVERLOAD_IMPORTS = (
    ("import typing", "typing.overload"),
    ("from typing import overload", "overload"),
    ("import typing as t", "t.overload"),
    ("from typing import overload as ov", "ov"),
    ("import typing_extensions", "typing_extensions.overload"),
    ("from typing_extensions import overload", "overload"),
    ("import typing_extensions as te", "te.overload"),
)
GROUP_NAMES = ("f", "g", "k")


def _interleave(draw, groups: list[list[dict]]) -> list[dict]:
    """Merge the groups into one sequence, keeping the order inside each group (drawn interleaving)."""
    slots = [gi for gi, g in enumerate(groups) for _ in g]
    if not slots:
        return []
    order = draw(st.permutations(slots))
    cursors = [0] * len(groups)
    out = []
    for gi in order:
        out.append(groups[gi][cursors[gi]])
        cursors[gi] += 1
    return out


@st.composite
def _ovl_scope(draw, depth: int, in_class: bool):
    names = draw(st.lists(st.sampled_from(GROUP_NAMES), unique=True, min_size=1, max_size=3))
    groups: list[list[dict]] = []
    for name in names:
        n_ov = draw(st.integers(0, 3))
        impl = draw(st.booleans()) if n_ov else True
        wrap = draw(st.sampled_from(["", "", "static", "class"])) if in_class else ""
        is_async = draw(st.integers(0, 3)) == 0
        items = []
        for _ in range(n_ov):
            items.append({"t": "fn", "name": name, "role": "ov", "sig": draw(sig_models(2)), "wrap": wrap, "async": int(is_async)})
        if impl:
            items.append({"t": "fn", "name": name, "role": "impl", "sig": draw(sig_models(2)), "wrap": wrap, "async": int(is_async)})
        groups.append(items)
    for i in range(draw(st.integers(0, 2))):
        groups.append([{"t": "other", "v": i, "def": int(draw(st.booleans()))}])
    if depth < 2:
        cls_names = ("A", "B") if depth == 0 else ("N",)
        for cname in cls_names[: draw(st.integers(0, len(cls_names)))]:
            groups.append([{"t": "cls", "name": cname, "body": draw(_ovl_scope(depth + 1, True))}])
    return _interleave(draw, groups)


def overload_cases():
    return st.builds(
        lambda imp, body: {"kind": "ovl", "imp": imp, "body": body},
        st.integers(0, len(OVERLOAD_IMPORTS) - 1),
        _ovl_scope(0, False),
    )


def render_fn(name: str, sig: dict, tag: int, decorators: list[str], is_async: bool, indent: str) -> list[str]:
    lines = [f"{indent}@{d}" for d in decorators]
    lines.append(f"{indent}{'async ' if is_async else ''}def {name}({S.render_params(sig, tag=tag)}) -> R{tag}: ...")
    return lines


def render_overload_module(case: dict) -> str:
    imp, deco = OVERLOAD_IMPORTS[case["imp"]]
    body = case["body"]
    lines = ["from __future__ import annotations", imp]
    counter = [0]

    def tag() -> int:
        # unique per function item, in declaration order: individualises annotations, defaults and the return annotation
        counter[0] += 1
        return counter[0] - 1

    def emit(items: list[dict], indent: str) -> None:
        if not items:
            lines.append(f"{indent}pass")
        for it in items:
            if it["t"] == "fn":
                decs = [deco] if it["role"] == "ov" else []
                if it["wrap"] == "static":
                    decs.append("staticmethod")
                elif it["wrap"] == "class":
                    decs.append("classmethod")
                lines.extend(render_fn(it["name"], it["sig"], tag(), decs, bool(it["async"]), indent))
            elif it["t"] == "other":
                if it["def"]:
                    lines.append(f"{indent}def o{it['v']}(x={it['v']}): ...")
                else:
                    lines.append(f"{indent}v{it['v']} = {it['v']}")
            else:
                lines.append(f"{indent}class {it['name']}:")
                emit(it["body"], indent + "    ")

    emit(body, "")
    return "\n".join(lines) + "\n"


# ----------------------------------------------------------------------------- property groups
PROP_NAMES = ("p", "q")
# extra of a getter / setter / deleter: (decorators *below* the property / accessor decorator, async def?).
# Only this order exists in CPython: abstractmethod() cannot flag a property object, and cache(property) is no property.
ACCESSOR_EXTRAS = (
    ([], False),
    (["abc.abstractmethod"], False),
    (["functools.cache"], False),
    (["functools.lru_cache"], False),
    ([], True),
)


@st.composite
def _prop_class(draw, depth: int):
    props = draw(st.lists(st.sampled_from(PROP_NAMES), unique=True, min_size=1, max_size=2))
    groups: list[list[dict]] = []
    for p in props:
        items = [{"t": "get", "p": p, "ret": int(draw(st.booleans())), "x": draw(st.sampled_from([0, 0, 0, 1, 4]))}]
        for acc in draw(st.lists(st.sampled_from(["set", "del"]), max_size=3)):
            # realistic accessor signatures (self, value) most of the time, arbitrary small shapes otherwise
            if draw(st.integers(0, 2)):
                n = 2 if acc == "set" else 1
                po = draw(st.integers(0, n))
                sig = {"po": po, "pk": n - po, "va": 0, "ko": 0, "vk": 0, "npd": 0, "kom": 0, "ann": draw(st.integers(0, (1 << (n + 1)) - 1))}
            else:
                sig = draw(sig_models(2))
            # accessor stacked with a label-producing decorator / written as `async def` (ACCESSOR_EXTRAS)
            items.append({"t": acc, "p": p, "sig": sig, "x": draw(st.sampled_from([0, 0, 0, 1, 2, 3, 4]))})
        groups.append(items)
    for i in range(draw(st.integers(0, 2))):
        if draw(st.booleans()):
            groups.append([{"t": "meth", "name": f"m{i}", "sig": draw(sig_models(1))}])
        else:
            groups.append([{"t": "attr", "name": f"v{i}"}])
    if depth == 0 and draw(st.integers(0, 3)) == 0:
        groups.append([{"t": "cls", "name": "N", "body": draw(_prop_class(1))}])
    return _interleave(draw, groups)


def property_cases():
    return st.builds(
        lambda classes: {"kind": "prop", "classes": [{"t": "cls", "name": n, "body": b} for n, b in zip("AB", classes)]},
        st.lists(_prop_class(0), min_size=1, max_size=2),
    )


def render_property_module(case: dict) -> str:
    lines = ["from __future__ import annotations", "import abc", "import functools"]
    counter = [0]

    def tag() -> int:
        counter[0] += 1
        return counter[0] - 1

    def emit(items: list[dict], indent: str) -> None:
        if not items:
            lines.append(f"{indent}pass")
        for it in items:
            t = it["t"]
            if t == "get":
                ret = f" -> G{tag()}" if it["ret"] else ""
                decos, is_async = ACCESSOR_EXTRAS[it.get("x", 0)]
                lines.append(f"{indent}@property")
                lines.extend(f"{indent}@{d}" for d in decos)
                lines.append(f"{indent}{'async ' if is_async else ''}def {it['p']}(self){ret}: ...")
            elif t in ("set", "del"):
                deco = f"{it['p']}.{'setter' if t == 'set' else 'deleter'}"
                decos, is_async = ACCESSOR_EXTRAS[it.get("x", 0)]
                lines.extend(render_fn(it["p"], it["sig"], tag(), [deco, *decos], is_async, indent))
            elif t == "meth":
                lines.extend(render_fn(it["name"], it["sig"], tag(), [], False, indent))
            elif t == "attr":
                lines.append(f"{indent}{it['name']} = 0")
            else:
                lines.append(f"{indent}class {it['name']}:")
                emit(it["body"], indent + "    ")

    emit(case["classes"], "")
    # an empty subclass per top-level class: the inherited view of the same properties (CPython: the very same property object)
    for cls in case["classes"]:
        lines.append(f"class S{cls['name']}({cls['name']}): pass")
    return "\n".join(lines) + "\n"


# ----------------------------------------------------------------------------- decorated definitions (sync / async mixed)
# (decorator lines, what CPython binds: "prop" = a property-like descriptor, "wrap" = static/class method, "fn" = a callable
#  whose inspect.signature is the definition's)
DECORATORS = (
    ([], "fn"),
    (["property"], "prop"),
    (["functools.cached_property"], "prop"),
    (["staticmethod"], "wrap"),
    (["classmethod"], "wrap"),
    (["functools.cache"], "fn"),
    (["functools.lru_cache"], "fn"),
    (["abc.abstractmethod"], "fn"),
    (["property", "abc.abstractmethod"], "prop"),
    (["staticmethod", "abc.abstractmethod"], "wrap"),
)
# (header lines, extra indentation of the definition, footer lines): every branch that holds a definition is executed by
# CPython and no other branch holds one, so "the last definition executed" is also the last one in source order
CONTEXTS = (
    ([], 0, []),
    (["if True:"], 4, []),
    (["if False:", "    pass", "else:"], 4, []),
    (["if False:", "    pass", "elif True:"], 4, []),
    (["try:"], 4, ["except ImportError:", "    pass"]),
    (["try:", "    raise ImportError", "except ImportError:"], 4, []),
    (["try:", "    pass", "except ImportError:", "    pass", "else:"], 4, []),
    (["try:", "    pass", "finally:"], 4, []),
    (["match 1:", "    case 1:"], 8, []),
    (["with contextlib.nullcontext():"], 4, []),
    (["for _loop in (0,):"], 4, []),
)
_ctx = st.sampled_from([0, 0, 0, 0, *range(1, len(CONTEXTS))])
_MODULE_LEVEL_DECOS = (0, 0, 5, 6)
_CLASS_LEVEL_DECOS = (0, 0, 0, 1, 1, 2, 3, 4, 5, 6, 7, 8, 9)


@st.composite
def _deco_items(draw, in_class: bool, lo: int, hi: int):
    items = []
    for _ in range(draw(st.integers(lo, hi))):
        items.append(
            {
                "t": "fn",
                "async": draw(st.integers(0, 1)),
                "deco": draw(st.sampled_from(_CLASS_LEVEL_DECOS if in_class else _MODULE_LEVEL_DECOS)),
                "sig": draw(sig_models(2)),
                # ctx: the compound statement the definition sits in (CONTEXTS); redef: re-use the name of the previous
                # definition of the same scope (a re-definition: CPython keeps the last one executed)
                "ctx": draw(_ctx),
                "redef": int(draw(st.integers(0, 3)) == 0),
            }
        )
    return items


@st.composite
def decorated_cases(draw):
    """One module: module-level definitions, a class with decorated sync/async methods, more module-level definitions and
    optionally a second class — every definition after a decorated one doubles as a probe for state leaking between visits."""
    body = draw(_deco_items(False, 0, 2))
    body.append({"t": "cls", "name": "A", "body": draw(_deco_items(True, 1, 5))})
    body += draw(_deco_items(False, 0, 2))
    if draw(st.booleans()):
        body.append({"t": "cls", "name": "B", "body": draw(_deco_items(True, 1, 3))})
    return {"kind": "deco", "body": body}


def decorated_names(case: dict):
    """Yield (scope path, name, item) in declaration order; names are d0, d1, ... over the whole module; an item with "redef"
    re-uses the name of the previous definition of its scope."""
    k = 0
    prev_module = None
    for it in case["body"]:
        if it["t"] == "cls":
            prev = None
            for sub in it["body"]:
                name = prev if (sub.get("redef") and prev) else f"d{k}"
                yield it["name"], name, sub
                prev = name
                k += 1
        else:
            name = prev_module if (it.get("redef") and prev_module) else f"d{k}"
            yield "", name, it
            prev_module = name
            k += 1


def final_definitions(case: dict):
    """(scope, name, item) of the LAST definition of every name: what the name is bound to once the module has run."""
    last: dict = {}
    for scope, name, it in decorated_names(case):
        last[(scope, name)] = it
    return [(scope, name, it) for (scope, name), it in last.items()]


def _in_context(lines: list[str], ctx: int, indent: str) -> list[str]:
    header, extra, footer = CONTEXTS[ctx]
    return [indent + h for h in header] + [" " * extra + ln for ln in lines] + [indent + f for f in footer]


def render_decorated_module(case: dict) -> str:
    lines = ["from __future__ import annotations", "import abc", "import contextlib", "import functools"]
    names = iter(decorated_names(case))
    tag = 0
    for it in case["body"]:
        if it["t"] == "cls":
            lines.append(f"class {it['name']}:")
            for sub in it["body"]:
                _, name, _ = next(names)
                lines.extend(_in_context(render_fn(name, sub["sig"], tag, DECORATORS[sub["deco"]][0], bool(sub["async"]), "    "), sub.get("ctx", 0), "    "))
                tag += 1
        else:
            _, name, _ = next(names)
            lines.extend(_in_context(render_fn(name, it["sig"], tag, DECORATORS[it["deco"]][0], bool(it["async"]), ""), it.get("ctx", 0), ""))
            tag += 1
    return "\n".join(lines) + "\n"
