"""C06 — arbitrary import graphs: structural model, Hypothesis strategy, renderer to a file tree, model analysis.

Model (JSON):

    {"pkgs": [{"name": "p", "single": false, "mods": [[relname, body], ...]}, ...]}

    relname   ""  = the package's __init__ (or the single-file module p.py when "single")
              "a" = p/a.py;  "s." = p/s/__init__.py;  "s.a" = p/s/a.py   (a trailing dot marks a sub-package)
    body      list of statements:
        ["def", name] | ["assign", name] | ["class", name, [stmts]]            real objects
        ["from", level, modpath, name, asname|None]                            from {"."*level}{modpath} import name [as asname]
        ["star", level, modpath]                                               from {"."*level}{modpath} import *
        ["import", modpath, asname|None]                                       import a.b [as x]
        ["all", [names], [[how, ref], ...]]                                    __all__ = [names...] spliced with other modules' __all__
              how = "attr": ref is a dotted module path, rendered `import ref` + `ref.__all__`
              how = "name": ref is a dotted module path, rendered `from ref import __all__ as _all_N` + `*_all_N`
        ["allplus", [names]]                                                   __all__ += [names...]

Targets are drawn from the generated module paths, their prefixes, missing modules ("nope", "p.zz"), the importing
module itself, and names from a small pool that also contains sub-module names (member/sub-module shadowing).
"""

from __future__ import annotations

from hypothesis import strategies as st

NAMES = ("x", "y", "z", "C", "a", "b")
PKG_NAMES = ("p", "q", "_p")
REL_MODS = ("a", "b", "s.", "s.a")
MISSING = ("nope", "nope.m", "p.zz", "q.zz.y")


def module_paths(model) -> list[str]:
    out = []
    for pkg in model["pkgs"]:
        for rel, _body in pkg["mods"]:
            rel = rel.rstrip(".")
            out.append(pkg["name"] + ("." + rel if rel else ""))
    return out


# Statement strategies are built once (building them per draw dominates the run time).  Import targets are drawn as
# placeholders and made concrete once the module skeleton of the case is known:
#   ["g", i]      the i-th generated module (modulo)          ["gm", i, name]  a member path below it
#   ["miss", j]   a module that does not exist                  ["self"]         the importing module itself
_names = st.sampled_from(NAMES)
_tgt = st.one_of(
    st.tuples(st.just("g"), st.integers(0, 11)),
    st.tuples(st.just("g"), st.integers(0, 11)),
    st.tuples(st.just("g"), st.integers(0, 11)),
    st.tuples(st.just("gm"), st.integers(0, 11), st.sampled_from(NAMES[:3])),
    st.tuples(st.just("miss"), st.integers(0, len(MISSING) - 1)),
    st.tuples(st.just("self")),
)
_asname = st.one_of(st.none(), st.none(), _names)
_rel_mod = st.sampled_from(("", "", "a", "b", "s", "s.a", "zz"))
_simple = [
    st.tuples(st.just("def"), _names),
    st.tuples(st.just("assign"), _names),
    st.tuples(st.just("from"), st.just(0), _tgt, _names, _asname),
    st.tuples(st.just("from"), st.just(0), _tgt, _names, _asname),
    st.tuples(st.just("from"), st.integers(1, 3), _rel_mod, _names, _asname),
    st.tuples(st.just("import"), _tgt, _asname),
]
_inner_stmt = st.one_of(*_simple)
_top_stmt = st.one_of(
    *_simple,
    st.tuples(st.just("star"), st.just(0), _tgt),
    st.tuples(st.just("star"), st.just(0), _tgt),
    st.tuples(st.just("star"), st.integers(1, 2), _rel_mod),
    st.tuples(st.just("class"), _names, st.lists(_inner_stmt, max_size=2)),
    st.tuples(
        st.just("all"),
        st.lists(_names, max_size=3, unique=True),
        st.lists(st.tuples(st.sampled_from(("attr", "name")), _tgt), max_size=2),
    ),
    st.tuples(st.just("allplus"), st.lists(_names, max_size=2, unique=True)),
    # a module re-exported under another name, then wildcard-imported through that name:
    # `from pkg import impl as api` + `from <own>.api import *`  (two statements after concretisation)
    st.tuples(st.just("modalias-star"), st.integers(0, 11), st.sampled_from(NAMES[:4])),
)
_body = st.lists(_top_stmt, max_size=5)
_pkg_shape = st.tuples(st.integers(0, 5), st.lists(st.sampled_from(REL_MODS), max_size=3, unique=True))
_skeleton = st.tuples(st.integers(1, 3), st.permutations(PKG_NAMES), st.tuples(_pkg_shape, _pkg_shape, _pkg_shape))


def _concrete_target(t, own: str, all_paths: list[str]) -> str:
    if t[0] == "g":
        return all_paths[t[1] % len(all_paths)]
    if t[0] == "gm":
        return all_paths[t[1] % len(all_paths)] + "." + t[2]
    if t[0] == "miss":
        return MISSING[t[1]]
    return own


def _concrete_body(body, own: str, all_paths: list[str]):
    out = []
    for s in body:
        kind = s[0]
        if kind == "from" and s[1] == 0:
            out.append(["from", 0, _concrete_target(s[2], own, all_paths), s[3], s[4]])
        elif kind == "star" and s[1] == 0:
            out.append(["star", 0, _concrete_target(s[2], own, all_paths)])
        elif kind == "import":
            out.append(["import", _concrete_target(s[1], own, all_paths), s[2]])
        elif kind == "class":
            out.append(["class", s[1], _concrete_body(s[2], own, all_paths)])
        elif kind == "all":
            out.append(["all", list(s[1]), [[how, _concrete_target(t, own, all_paths)] for how, t in s[2]]])
        elif kind == "modalias-star":
            module = all_paths[s[1] % len(all_paths)]
            if "." in module:
                parent, sub = module.rsplit(".", 1)
                out.append(["from", 0, parent, sub, s[2]])
            else:
                out.append(["import", module, s[2]])
            out.append(["star", 0, own + "." + s[2]])
        else:
            out.append(_listify(s))
    return out


@st.composite
def graphs(draw, steered: bool = False, no_initless: bool = False):
    n_pkgs, order, shapes = draw(_skeleton)
    no_initless = no_initless or steered
    skeleton = []
    for name, (single_roll, subs) in zip(order[:n_pkgs], shapes):
        if single_roll == 0:
            rels = [""]
        else:
            subs = list(subs)
            if "s.a" in subs and "s." not in subs and (no_initless or single_roll != 1):
                subs.append("s.")
            rels = ["", *sorted(subs)]
        skeleton.append((name, single_roll == 0, rels))
    all_paths = [name + ("." + rel.rstrip(".") if rel else "") for name, _single, rels in skeleton for rel in rels if not (rel == "s.a" and "s." not in rels)]
    pkgs = []
    for name, single, rels in skeleton:
        mods = []
        for rel in rels:
            own = name + ("." + rel.rstrip(".") if rel else "")
            body = _concrete_body(draw(_body), own, all_paths)
            if rel == "" and "s.a" in rels and "s." not in rels:
                # p/s/a.py exists but p/s/__init__.py does not (Griffe skips such a directory), and the package
                # binds the name `s` itself, by an import that may be dangling
                body.insert(0, ["from", 0, _concrete_target(draw(_tgt), own, all_paths), "s", None])
            mods.append([rel, body])
        pkgs.append({"name": name, "single": single, "mods": mods})
    model = {"pkgs": pkgs}
    return steer_wildcards(model) if steered else model


# Chains of packages that are only reachable by side-loading: package i imports from package i+1; only the head
# is loaded explicitly, the rest is pulled in while resolving (external=True, or the private-sibling rule of
# external=None: an alias in package `x` whose target lies in `_x` loads `_x`).
CHAIN_POOLS = (("p", "q", "r"), ("p", "_p", "__p"), ("q", "_q", "r"), ("p", "q", "_q"), ("r", "q", "p", "_p"))
_link = st.tuples(st.integers(0, 5), st.integers(0, 5), st.sampled_from(NAMES[:4]), _asname, st.booleans())
_chain_skeleton = st.tuples(
    st.sampled_from(CHAIN_POOLS), st.tuples(_pkg_shape, _pkg_shape, _pkg_shape, _pkg_shape), st.lists(_link, min_size=4, max_size=6)
)


@st.composite
def chain_graphs(draw, steered: bool = False):
    """-> model with an extra key "chain": package names in side-loading order (head first)."""
    pool, shapes, links = draw(_chain_skeleton)
    skeleton = []
    for name, (single_roll, subs) in zip(pool, shapes):
        if single_roll == 0:
            rels = [""]
        else:
            subs = list(subs)
            if "s.a" in subs and "s." not in subs:
                subs.append("s.")
            rels = ["", *sorted(subs)]
        skeleton.append((name, single_roll == 0, rels))
    all_paths = [name + ("." + rel.rstrip(".") if rel else "") for name, _single, rels in skeleton for rel in rels]
    bodies: dict[str, list] = {}
    for name, _single, rels in skeleton:
        for rel in rels:
            own = name + ("." + rel.rstrip(".") if rel else "")
            bodies[own] = _concrete_body(draw(_body), own, all_paths)
    # the links of the chain (more links than gaps: some packages import from the next one twice / from two places)
    for i, (src_i, dst_i, name, asname, define) in enumerate(links):
        gap = i % (len(skeleton) - 1)
        src_pkg, dst_pkg = skeleton[gap], skeleton[gap + 1]
        src_rel = src_pkg[2][src_i % len(src_pkg[2])]
        dst_rel = dst_pkg[2][dst_i % len(dst_pkg[2])]
        src = src_pkg[0] + ("." + src_rel.rstrip(".") if src_rel else "")
        dst = dst_pkg[0] + ("." + dst_rel.rstrip(".") if dst_rel else "")
        bodies[src].insert(0, ["from", 0, dst, name, asname])
        if define:
            bodies[dst].append(["def", name])
    pkgs = []
    for name, single, rels in skeleton:
        mods = [[rel, bodies[name + ("." + rel.rstrip(".") if rel else "")]] for rel in rels]
        pkgs.append({"name": name, "single": single, "mods": mods})
    model = {"pkgs": pkgs}
    if steered:
        model = steer_wildcards(model)
    model["chain"] = list(pool)
    return model


def initless_dir_behind_import(model) -> bool:
    """A package holds p/s/a.py without p/s/__init__.py and binds the name `s` in its __init__ by an import."""
    for pkg in model["pkgs"]:
        rels = {rel for rel, _ in pkg["mods"]}
        if "s.a" in rels and "s." not in rels:
            for rel, body in pkg["mods"]:
                if rel == "" and any((x[0] == "from" and (x[4] or x[3]) == "s") or (x[0] == "import" and (x[2] or x[1].split(".")[0]) == "s") for x in body):
                    return True
    return False


def _absolute(own: str, own_is_pkg: bool, level: int, mod: str) -> str:
    if level == 0:
        return mod
    base = own.split(".")
    drop = level - 1 if own_is_pkg else level
    if drop:
        base = base[: max(1, len(base) - drop)]
    return ".".join(base + ([mod] if mod else []))


def steer_wildcards(model):
    """Known finding `wildcard-alias-born-resolved`: keep a wildcard import only if nothing it can expand is an alias:
    its target is a module of the same package without any import statement, or lies in a package that is not generated at all."""
    mods = {}
    is_pkg = {}
    for pkg in model["pkgs"]:
        for rel, body in pkg["mods"]:
            path = pkg["name"] + ("." + rel.rstrip(".") if rel else "")
            mods[path] = body
            is_pkg[path] = (rel == "" and not pkg["single"]) or rel.endswith(".")
    tops = {p["name"] for p in model["pkgs"]}

    def clean(own: str, path: str) -> bool:
        if path in mods:
            # same package: expanding it never loads anything (a package loaded *during* expansion is itself only
            # expanded with the caller's `external` setting by the next resolve_aliases call)
            return path.split(".")[0] == own.split(".")[0] and not any(
                s[0] in ("from", "import", "star") or (s[0] == "all" and s[2]) for s in mods[path]
            )
        return path.split(".")[0] not in tops

    out = []
    for pkg in model["pkgs"]:
        new_mods = []
        for rel, body in pkg["mods"]:
            own = pkg["name"] + ("." + rel.rstrip(".") if rel else "")
            new_mods.append([rel, [s for s in body if s[0] != "star" or clean(own, _absolute(own, is_pkg[own], s[1], s[2]))]])
        out.append({**pkg, "mods": new_mods})
    return {"pkgs": out}


def _listify(x):
    if isinstance(x, (tuple, list)):
        return [_listify(i) for i in x]
    return x


# ----------------------------------------------------------------------------- renderer
def _render_body(body, indent: str = "") -> list[str]:
    lines: list[str] = []
    counter = 0
    for stmt in body:
        kind = stmt[0]
        if kind == "def":
            lines.append(f"{indent}def {stmt[1]}(): ...")
        elif kind == "assign":
            lines.append(f"{indent}{stmt[1]} = 1")
        elif kind == "class":
            lines.append(f"{indent}class {stmt[1]}:")
            inner = _render_body(stmt[2], indent + "    ")
            lines.extend(inner or [f"{indent}    pass"])
        elif kind == "from":
            _, level, mod, name, asname = stmt
            lines.append(f"{indent}from {'.' * level}{mod} import {name}" + (f" as {asname}" if asname else ""))
        elif kind == "star":
            _, level, mod = stmt
            if level == 0 and not mod:
                continue
            lines.append(f"{indent}from {'.' * level}{mod} import *")
        elif kind == "import":
            _, mod, asname = stmt
            lines.append(f"{indent}import {mod}" + (f" as {asname}" if asname else ""))
        elif kind == "all":
            _, names, splices = stmt
            parts = [repr(list(names))]
            for how, ref in splices:
                if how == "attr":
                    lines.append(f"{indent}import {ref}")
                    parts.append(f"{ref}.__all__")
                else:
                    counter += 1
                    lines.append(f"{indent}from {ref} import __all__ as _all_{counter}")
                    parts.append(f"[*_all_{counter}]")
            lines.append(f"{indent}__all__ = " + " + ".join(parts))
        elif kind == "allplus":
            lines.append(f"{indent}__all__ += {list(stmt[1])!r}")
        else:
            raise ValueError(f"unknown statement {stmt!r}")
    return lines


def render(model) -> dict[str, str]:
    """relative file path -> source text."""
    files: dict[str, str] = {}
    for pkg in model["pkgs"]:
        name = pkg["name"]
        for rel, body in pkg["mods"]:
            text = "\n".join(_render_body(body)) + "\n"
            if pkg["single"]:
                files[f"{name}.py"] = text
            elif rel == "":
                files[f"{name}/__init__.py"] = text
            elif rel.endswith("."):
                files[f"{name}/{rel[:-1].replace('.', '/')}/__init__.py"] = text
            else:
                files[f"{name}/{rel.replace('.', '/')}.py"] = text
    return files


# ----------------------------------------------------------------------------- model analysis (classes, non-triviality)
def analyse(model) -> tuple[bool, set[str]]:
    """-> (non_trivial, class labels), from the model only.

    non-trivial = the graph has a dangling import target (module missing, or name not bound in the target module)
    or the module-level import graph has a cycle (including a module importing from itself)."""
    classes: set[str] = set()
    mods = {}  # abs path -> body
    is_pkg = {}
    for pkg in model["pkgs"]:
        for rel, body in pkg["mods"]:
            path = pkg["name"] + ("." + rel.rstrip(".") if rel else "")
            mods[path] = body
            is_pkg[path] = (rel == "" and not pkg["single"]) or rel.endswith(".")
    if len(model["pkgs"]) > 1:
        classes.add("multi-package")
    if model.get("chain"):
        classes.add("side-loading-chain")
    if initless_dir_behind_import(model):
        classes.add("init-less-directory-behind-imported-name")
    if any(p["name"] == "_p" for p in model["pkgs"]) and any(p["name"] == "p" for p in model["pkgs"]):
        classes.add("private-sibling-package")

    def absolute(own: str, level: int, mod: str) -> str:
        if level == 0:
            return mod
        base = own.split(".")
        drop = level - 1 if is_pkg.get(own) else level
        base = base[: max(1, len(base) - drop)] if drop else base
        return ".".join(base + ([mod] if mod else []))

    def bound_names(path: str) -> set[str]:
        out = set()
        for s in mods.get(path, ()):
            if s[0] in ("def", "assign", "class"):
                out.add(s[1])
            elif s[0] == "from":
                out.add(s[4] or s[3])
            elif s[0] == "import":
                out.add(s[2] or s[1].split(".")[0])
        out |= {m[len(path) + 1 :] for m in mods if m.startswith(path + ".") and "." not in m[len(path) + 1 :]}
        return out

    edges: dict[str, set[str]] = {m: set() for m in mods}
    dangling = False
    for own, body in mods.items():
        stack = list(body)
        while stack:
            s = stack.pop()
            kind = s[0]
            if kind == "class":
                if any(x[0] in ("from", "import") for x in s[2]):
                    classes.add("import-in-class-body")
                stack.extend(s[2])
            elif kind in ("from", "star"):
                target = absolute(own, s[1], s[2])
                if s[1]:
                    classes.add("relative-import")
                if kind == "star":
                    classes.add("wildcard")
                    if target not in mods and "." in target and target.rsplit(".", 1)[0] in mods:
                        holder, last = target.rsplit(".", 1)
                        for x in mods[holder]:
                            if (x[0] == "from" and x[1] == 0 and (x[4] or x[3]) == last and x[2] + "." + x[3] in mods) or (
                                x[0] == "import" and x[2] == last and x[1] in mods
                            ):
                                classes.add("wildcard-through-module-alias")
                if target == own:
                    classes.add("self-import")
                tmod = target if target in mods else None
                if kind == "from" and tmod is None and target + "." + s[3] in mods:
                    tmod = target  # from pkg import submodule where pkg itself is generated
                if target in mods:
                    edges[own].add(target)
                    if kind == "star" and any(x[0] == "star" for x in mods[target]):
                        classes.add("wildcard-chain")
                    if kind == "from" and s[3] not in bound_names(target) and not any(x[0] == "star" for x in mods[target]):
                        dangling = True
                        classes.add("dangling-name")
                else:
                    dangling = True
                    classes.add("dangling-module")
            elif kind == "import":
                if s[1] not in mods:
                    dangling = True
                    classes.add("dangling-module")
            elif kind == "all":
                if s[2]:
                    classes.add("all-splice")
                if any(n not in bound_names(own) for n in s[1]):
                    classes.add("all-names-undefined")
    # cycles in the module-level import graph
    cyclic = False
    state: dict[str, int] = {}

    def visit(node: str) -> bool:
        state[node] = 1
        for nxt in edges[node]:
            if state.get(nxt) == 1 or (state.get(nxt) is None and visit(nxt)):
                return True
        state[node] = 2
        return False

    for node in edges:
        if state.get(node) is None and visit(node):
            cyclic = True
            break
    if cyclic:
        classes.add("module-cycle")
        star_edges = {
            own: {absolute(own, s[1], s[2]) for s in body if s[0] == "star"} & set(mods) for own, body in mods.items()
        }
        st_state: dict[str, int] = {}

        def svisit(node: str) -> bool:
            st_state[node] = 1
            for nxt in star_edges[node]:
                if st_state.get(nxt) == 1 or (st_state.get(nxt) is None and svisit(nxt)):
                    return True
            st_state[node] = 2
            return False

        if any(st_state.get(n) is None and svisit(n) for n in star_edges):
            classes.add("cyclic-wildcards")
    if dangling:
        classes.add("dangling")
    return (dangling or cyclic), classes
