"""(runtime module, stubs) pair models for C19: strategy, renderer, reference merge table (O-REF), observation.

Model (JSON-serialisable)
    member := {"k": "func",  "n": name, "params": [[pname, ann|None, has_default]], "ret": ann|None, "doc": bool,
                            "ov": 0|2|3 (stubs side only), "impl": bool (stubs side: a plain definition follows the overloads)}
            | {"k": "attr",  "n": name, "ann": ann|None, "val": bool, "doc": bool, "prop": bool (optional: spelled as @property)}
            | {"k": "class", "n": name, "doc": bool, "members": [member, ...], "base": name of a sibling class | None (optional)}
            | {"k": "alias", "n": name, "t": "ext" | "int" | "typing"}
    module := {"doc": bool, "members": [member, ...]}            member names are unique inside a container
    pair   := {"R": module, "S": module, "W": [member, ...]}     R = runtime (.py), S = stubs (.pyi), W = members the runtime
                                                                 module gets through `from <top>._impl import *` (optional)

Runtime annotations come from {int, str}, stub annotations from {bytes, float}, docstrings are "R:<qualname>" /
"S:<qualname>", runtime defaults/values are `1`, stub defaults `...`: the origin of every field of the merged
object is visible in its text.

The reference (`expected`) is written from the property statement only:
    names(result) = names(R) | names(S); R-only members unchanged; S-only members as in S with runtime False;
    same-kind pairs: parameter annotations by name, return and attribute annotations and the overload list from S
    (whatever S declares for a field it covers, "no annotation" included: the stubs are authoritative for the members they
    declare), docstring R's unless missing,
    parameters/defaults/values R's; different kinds or an alias on either side: R's member untouched; no alias resolved.
"""

from __future__ import annotations

POOL = ("f", "g", "h", "K", "L", "x", "y", "z")
PNAMES = ("u", "v", "w")
R_ANN = ("int", "str")
S_ANN = ("bytes", "float", "bool")
EXT = "extlib_c19"
OTHER = "other"


# ----------------------------------------------------------------------------------------------- strategy
def pairs(top: str = "p", internal_aliases: bool = True):
    from hypothesis import strategies as st

    alias_targets = ["ext", "ext", "int"] if internal_aliases else ["ext"]

    @st.composite
    def func(draw, name, side):
        anns = R_ANN if side == "R" else S_ANN
        pn = draw(st.lists(st.sampled_from(PNAMES), unique=True, max_size=3))
        params = [[p, draw(st.sampled_from([None, *anns])), draw(st.booleans())] for p in pn]
        params.sort(key=lambda p: p[2])  # parameters with a default come last (stable)
        m = {"k": "func", "n": name, "params": params, "ret": draw(st.sampled_from([None, *anns])), "doc": draw(st.booleans())}
        if side == "S":
            m["ov"] = draw(st.sampled_from([0, 0, 0, 2, 3]))
            m["impl"] = draw(st.booleans()) if m["ov"] else True
        else:
            # a runtime function may declare its own @overload signatures (always followed by the implementation)
            m["ov"] = draw(st.sampled_from([0, 0, 0, 0, 2]))
            m["impl"] = True
        return m

    @st.composite
    def attr(draw, name, side):
        anns = R_ANN if side == "R" else S_ANN
        ann = draw(st.sampled_from([None, *anns, anns[0]]))
        val = draw(st.booleans()) if side == "R" else draw(st.sampled_from([False, False, True]))
        if ann is None and not val:
            if side == "R":
                val = True
            else:
                ann = anns[0]
        return {"k": "attr", "n": name, "ann": ann, "val": val, "doc": draw(st.booleans())}

    def alias(name):
        return st.sampled_from(alias_targets).map(lambda t: {"k": "alias", "n": name, "t": t})

    @st.composite
    def single(draw, name, side, depth, kinds=("func", "func", "attr", "attr", "class", "alias")):
        k = draw(st.sampled_from(kinds))
        if k == "func":
            return draw(func(name, side))
        if k == "attr":
            a = draw(attr(name, side))
            if depth >= 1 and draw(st.integers(0, 2)) == 0:
                # inside a class an attribute may be spelled as a property (`@property def x(self) -> T`): still an
                # attribute for Griffe, annotated by the getter's return annotation, without value
                a["prop"], a["val"] = True, False
            return a
        if k == "alias":
            return draw(alias(name))
        if depth >= 2:
            return draw(attr(name, side))
        members = draw(container_one_side(side, depth + 1))
        return {"k": "class", "n": name, "doc": draw(st.booleans()), "members": members}

    @st.composite
    def container_one_side(draw, side, depth):
        names = draw(st.lists(st.sampled_from(POOL), unique=True, max_size=3))
        return [draw(single(n, side, depth)) for n in names]

    @st.composite
    def container_pair(draw, depth):
        names = draw(st.lists(st.sampled_from(POOL), unique=True, min_size=2 if depth == 0 else 0, max_size=5 if depth == 0 else 3))
        rs, ss = [], []
        for n in names:
            where = draw(st.sampled_from(["both"] * 7 + ["R"] * 2 + ["S"] * 2))
            if where == "R":
                rs.append(draw(single(n, "R", depth)))
            elif where == "S":
                ss.append(draw(single(n, "S", depth)))
            else:
                rel = draw(st.sampled_from(["same"] * 5 + ["diff"] * 3 + ["alias-S", "alias-R"]))
                if rel == "alias-S":
                    rs.append(draw(single(n, "R", depth, kinds=("func", "attr", "class"))))
                    ss.append(draw(alias(n)))
                elif rel == "alias-R":
                    rs.append(draw(alias(n)))
                    ss.append(draw(single(n, "S", depth, kinds=("func", "func", "attr", "class"))))
                else:
                    k = draw(st.sampled_from(["func", "func", "attr", "class"]))
                    if rel == "same":
                        if k == "class" and depth < 2:
                            r_in, s_in = draw(container_pair(depth + 1))
                            rs.append({"k": "class", "n": n, "doc": draw(st.booleans()), "members": r_in})
                            ss.append({"k": "class", "n": n, "doc": draw(st.booleans()), "members": s_in})
                        else:
                            k = "attr" if k == "class" else k
                            rs.append(draw(single(n, "R", depth, kinds=(k,))))
                            ss.append(draw(single(n, "S", depth, kinds=(k,))))
                    else:
                        other = [x for x in ("func", "attr", "class") if x != k]
                        rs.append(draw(single(n, "R", depth, kinds=(k,))))
                        ss.append(draw(single(n, "S", depth, kinds=tuple(other))))
        free = [n for n in POOL if n not in names]
        if depth <= 1 and len(free) >= 4 and draw(st.integers(0, 2)) == 0:
            # an inheritance family: Child(Base) where the child does not override one of the base's methods while
            # the stubs of the child declare overloads / annotations for exactly that inherited-only method
            bn, cn, m1, m2 = draw(st.permutations(free))[:4]
            r_base = {"k": "class", "n": bn, "doc": draw(st.booleans()), "members": [draw(func(m1, "R")), draw(func(m2, "R"))]}
            r_child = {"k": "class", "n": cn, "base": bn, "doc": draw(st.booleans()), "members": [draw(func(m2, "R"))] if draw(st.booleans()) else []}
            s_inherited = draw(func(m1, "S"))
            s_inherited["ov"] = draw(st.sampled_from([2, 2, 3]))
            s_inherited["impl"] = draw(st.sampled_from([False, False, True]))
            s_child = {"k": "class", "n": cn, "base": bn if draw(st.booleans()) else None, "doc": draw(st.booleans()), "members": [s_inherited]}
            if draw(st.booleans()):
                s_child["members"].append(draw(func(m2, "S")))
            rs += [r_base, r_child]
            ss.append(s_child)
            if draw(st.booleans()):
                ss.append({"k": "class", "n": bn, "doc": draw(st.booleans()), "members": [draw(func(m1, "S"))] if draw(st.booleans()) else []})
        if draw(st.booleans()):
            ss.reverse()  # the order of definitions inside the stub file is unrelated to the runtime file's
        return rs, ss

    @st.composite
    def pair(draw):
        rs, ss = draw(container_pair(0))
        # members the runtime module only gets through `from <top>._impl import *` (defined in the private sibling
        # module), with stubs declaring them at the public location
        ws = []
        free = [n for n in POOL if n not in {m["n"] for m in rs} | {m["n"] for m in ss}]
        if free and draw(st.booleans()):
            for n in draw(st.lists(st.sampled_from(free), unique=True, min_size=1, max_size=2)):
                w = draw(single(n, "R", 2, kinds=("func", "func", "attr")))
                if draw(st.integers(0, 2)) == 0:
                    inner = draw(st.lists(st.sampled_from(POOL), unique=True, max_size=3))
                    w = {"k": "class", "n": n, "doc": draw(st.booleans()), "members": [draw(single(i, "R", 2, kinds=("func", "func", "attr", "alias"))) for i in inner]}
                # how the runtime module gets the name: 0 = wildcard import from _impl; 2 / 3 = explicit re-export over
                # two / three alias hops (module -> _api [-> _api2] -> _core, which defines it)
                _strip_overloads(w)
                w["hop"] = draw(st.sampled_from([0, 0, 2, 3]))
                ws.append(w)
                rel = draw(st.sampled_from(["same"] * 6 + ["diff", "alias", "none", "none"]))
                if rel == "same" and w["k"] == "class" and w["hop"]:
                    # stubs at the public location, with stub-only members inside the re-exported class
                    sc = draw(single(n, "S", 1, kinds=("class",)))
                    extra = [x for x in POOL if x not in {m["n"] for m in w["members"]} | {m["n"] for m in sc["members"]}]
                    if extra:
                        sc["members"].append(draw(single(extra[0], "S", 2, kinds=("attr", "func"))))
                    ss.append(sc)
                elif rel == "same":
                    ss.append(draw(single(n, "S", 1, kinds=(w["k"],))))
                elif rel == "diff":
                    ss.append(draw(single(n, "S", 1, kinds=tuple(x for x in ("func", "attr", "class") if x != w["k"]))))
                elif rel == "alias":
                    ss.append(draw(alias(n)))
        p = {"R": {"doc": draw(st.booleans()), "members": rs}, "S": {"doc": draw(st.booleans()), "members": ss}, "W": ws}
        return normalise(p)

    return pair()


def _strip_overloads(m: dict) -> None:
    if m["k"] == "func":
        m["ov"] = 0
    for sub in m.get("members", []):
        _strip_overloads(sub)


def normalise(pair: dict) -> dict:
    """Domain restriction (see ASSUMPTIONS of the check): an overload group of the stubs without a plain definition
    is only kept where the runtime container has a member of that name, or inherits one from a base class of the same
    container (then nothing is expected for the child and the base's method must stay untouched); elsewhere the stub function gets its plain
    definition (Griffe's stub module has no member for a bare overload group, so it is not a 'stub-only member')."""

    def rec(r_members, s_members, inherited=frozenset()):
        r_by = {m["n"]: m for m in r_members or []}
        for m in s_members:
            if m["k"] == "func" and m.get("ov") and not m.get("impl", True) and m["n"] not in r_by and m["n"] not in inherited:
                m["impl"] = True
            if m["k"] == "class":
                rm = r_by.get(m["n"])
                is_class = rm is not None and rm["k"] == "class"
                base = r_by.get(rm.get("base")) if is_class and rm.get("base") else None
                names = frozenset(x["n"] for x in base["members"]) if base is not None and base["k"] == "class" else frozenset()
                rec(rm["members"] if is_class else None, m["members"], names)

    rec(pair["R"]["members"] + pair.get("W", []), pair["S"]["members"])
    return pair


def internal_alias_collisions(pair: dict) -> list[list[str]]:
    """Paths (list of names) of runtime members that are aliases to the internal module while the stubs define a
    non-alias member of the same name in the corresponding container."""
    out: list[list[str]] = []

    def rec(rm, sm, path):
        s_by = {m["n"]: m for m in sm}
        for r in rm:
            s = s_by.get(r["n"])
            if s is None:
                continue
            if r["k"] == "alias" and r["t"] == "int" and s["k"] != "alias":
                out.append([*path, r["n"]])
            if r["k"] == "class" and s["k"] == "class":
                rec(r["members"], s["members"], [*path, r["n"]])

    rec(pair["R"]["members"] + pair.get("W", []), pair["S"]["members"], [])
    return out


def steer_internal_aliases(pair: dict) -> tuple[dict, int]:
    """Turn every colliding internal runtime alias into an external one (returns the pair and how many)."""
    hits = internal_alias_collisions(pair)
    for path in hits:
        members = pair["R"]["members"] + pair.get("W", [])
        for name in path[:-1]:
            members = next(m for m in members if m["n"] == name)["members"]
        next(m for m in members if m["n"] == path[-1])["t"] = "ext"
    return pair, len(hits)


def stub_only_in_wildcard_classes(pair: dict) -> list[tuple[str, str]]:
    """(class name, member name) of every member the stubs add to a class that the runtime module only has through
    its wildcard import (pair["W"])."""
    s_by = {m["n"]: m for m in pair["S"]["members"]}
    out = []
    for w in pair.get("W", []):
        sm = s_by.get(w["n"])
        if w["k"] == "class" and sm is not None and sm["k"] == "class":
            own = {m["n"] for m in w["members"]}
            out += [(w["n"], m["n"]) for m in sm["members"] if m["n"] not in own and not (m["k"] == "func" and not m.get("impl", True))]
    return out


def steer_stub_only_in_wildcard_classes(pair: dict) -> tuple[dict, int]:
    hits = stub_only_in_wildcard_classes(pair)
    for cls, name in hits:
        sm = next(m for m in pair["S"]["members"] if m["n"] == cls)
        sm["members"] = [m for m in sm["members"] if m["n"] != name]
    return pair, len(hits)


def has_overloads(members) -> bool:
    return any((m["k"] == "func" and m.get("ov")) or (m["k"] == "class" and has_overloads(m["members"])) for m in members)


# ----------------------------------------------------------------------------------------------- render
def overload_signatures(m: dict, side: str = "S") -> list:
    """[[ [pname, ann], ...], ret] for each overload of a function model (derived deterministically; runtime overloads
    use the runtime annotation vocabulary, so they never equal the stubs')."""
    anns = S_ANN if side == "S" else R_ANN
    return [[[[p[0], anns[i % len(anns)]] for p in m["params"]], anns[i % len(anns)]] for i in range(m.get("ov", 0))]


IMPL = "_impl"


API, API2, CORE = "_api", "_api2", "_core"


def render_impl(pair: dict, top: str) -> str:
    """The private sibling module defining the wildcard-provided members."""
    lines: list[str] = []
    _render_members([w for w in pair.get("W", []) if not w.get("hop")], "R", top, "", "", lines)
    return "\n".join(lines) + "\n"


def render_reexports(pair: dict, top: str) -> dict[str, str]:
    """{file name: source} of the modules behind the explicit re-exports: _core defines, _api (and _api2) re-export."""
    hops = [w for w in pair.get("W", []) if w.get("hop")]
    if not hops:
        return {}
    lines: list[str] = []
    _render_members(hops, "R", top, "", "", lines)
    api = [f"from {top}.{API2 if w['hop'] == 3 else CORE} import {w['n']}" for w in hops]
    api2 = [f"from {top}.{CORE} import {w['n']}" for w in hops if w["hop"] == 3]
    return {f"{CORE}.py": "\n".join(lines) + "\n", f"{API}.py": "\n".join(api) + "\n", f"{API2}.py": "\n".join(api2) + "\n"}


def runtime_import_lines(pair: dict, top: str) -> list[str]:
    ws = pair.get("W", [])
    lines = [f"from {top}.{IMPL} import *"] if any(not w.get("hop") for w in ws) else []
    return lines + [f"from {top}.{API} import {w['n']}" for w in ws if w.get("hop")]


def render_module(mod: dict, side: str, top: str, wildcard: bool | list = False) -> str:
    lines: list[str] = []
    if mod["doc"]:
        lines.append(f'"""{side}:module"""')
    if wildcard:
        lines += wildcard if isinstance(wildcard, list) else [f"from {top}.{IMPL} import *"]
    if has_overloads(mod["members"]):
        lines.append("from typing import overload")
    _render_members(mod["members"], side, top, "", "", lines)
    return "\n".join(lines) + "\n"


def _render_members(members, side, top, qual, ind, lines) -> None:
    for m in members:
        q = f"{qual}{m['n']}"
        if m["k"] == "alias":
            src = {"ext": EXT, "int": f"{top}.{OTHER}", "typing": "typing"}[m["t"]]
            lines.append(f"{ind}from {src} import {m['n']}")
        elif m["k"] == "attr" and m.get("prop"):
            lines.append(f"{ind}@property")
            ret = f" -> {m['ann']}" if m["ann"] else ""
            if m["doc"]:
                lines.append(f"{ind}def {m['n']}(self){ret}:")
                lines.append(f'{ind}    """{side}:{q}"""')
            else:
                lines.append(f"{ind}def {m['n']}(self){ret}: ...")
        elif m["k"] == "attr":
            rhs = "1" if side == "R" else "..."
            if m["ann"] and m["val"]:
                lines.append(f"{ind}{m['n']}: {m['ann']} = {rhs}")
            elif m["ann"]:
                lines.append(f"{ind}{m['n']}: {m['ann']}")
            else:
                lines.append(f"{ind}{m['n']} = {rhs}")
            if m["doc"]:
                lines.append(f'{ind}"""{side}:{q}"""')
        elif m["k"] == "func":
            dflt = "1" if side == "R" else "..."
            for sig, ret in overload_signatures(m, side):
                lines.append(f"{ind}@overload")
                lines.append(f"{ind}def {m['n']}({', '.join(f'{p}: {a}' for p, a in sig)}) -> {ret}: ...")
            if side == "R" or m.get("impl", True):
                ps = ", ".join(p + (f": {a}" if a else "") + ((" = " if a else "=") + dflt if d else "") for p, a, d in m["params"])
                ret = f" -> {m['ret']}" if m["ret"] else ""
                if m["doc"]:
                    lines.append(f"{ind}def {m['n']}({ps}){ret}:")
                    lines.append(f'{ind}    """{side}:{q}"""')
                else:
                    lines.append(f"{ind}def {m['n']}({ps}){ret}: ...")
        else:
            lines.append(f"{ind}class {m['n']}({m['base']}):" if m.get("base") else f"{ind}class {m['n']}:")
            if m["doc"]:
                lines.append(f'{ind}    """{side}:{q}"""')
            if m["members"]:
                _render_members(m["members"], side, top, q + ".", ind + "    ", lines)
            elif not m["doc"]:
                lines.append(f"{ind}    ...")


def render_other() -> str:
    """Targets of internal aliases: every pool name is a function of `<top>.other`."""
    return "".join(f"def {n}(): ...\n" for n in POOL)


# ----------------------------------------------------------------------------------------------- reference merge
class Any:  # acceptable alternatives
    def __init__(self, *values):
        self.values = list(values)

    def __repr__(self):
        return " | ".join(repr(v) for v in self.values)


def _own(m: dict, side: str, qual: str, runtime: bool | None) -> dict:
    """Expected record of a member that comes from one side only (no merging inside)."""
    q = f"{qual}{m['n']}"
    if m["k"] == "alias":
        return {"kind": "alias", "target": {"ext": f"{EXT}.{m['n']}", "int": None, "typing": f"typing.{m['n']}"}[m["t"]], "resolved": False, "runtime": runtime}
    if m["k"] == "attr":
        return {"kind": "attribute", "ann": m["ann"], "value": ("1" if side == "R" else "...") if m["val"] else None, "doc": f"{side}:{q}" if m["doc"] else None, "runtime": runtime, "ov": None}
    if m["k"] == "func":
        dflt = "1" if side == "R" else "..."
        ovs = overload_signatures(m, side)
        return {
            "kind": "function",
            "params": [[p, a, dflt if d else None] for p, a, d in m["params"]],
            "ret": m["ret"],
            "doc": f"{side}:{q}" if m["doc"] else None,
            "ov": ovs or Any(None, []),
            "runtime": runtime,
        }
    rec = {"kind": "class", "doc": f"{side}:{q}" if m["doc"] else None, "runtime": runtime, "ov": "dict", "bases": [m["base"]] if m.get("base") else [], "members": {}}
    for sub in m["members"]:
        if sub["k"] == "func" and side == "S" and not sub.get("impl", True):
            continue  # bare overload group: no member in the stubs (cannot occur after normalise() in S-only classes)
        rec["members"][sub["n"]] = _own(sub, side, q + ".", True if side == "R" else None)
    return rec


def _merge_container(r_members: list, s_members: list, qual: str) -> dict:
    out: dict = {}
    s_by = {m["n"]: m for m in s_members}
    r_by = {m["n"]: m for m in r_members}
    for r in r_members:
        s = s_by.get(r["n"])
        q = f"{qual}{r['n']}"
        if s is None or r["k"] == "alias" or s["k"] == "alias" or r["k"] != s["k"]:
            out[r["n"]] = _own(r, "R", qual, True)  # kept untouched
            continue
        if r["k"] == "attr":
            rec = _own(r, "R", qual, True)
            rec["ann"] = s["ann"]  # the stubs' annotation, also when they give none (see ASSUMPTIONS)
            if not r["doc"] and s["doc"]:
                rec["doc"] = f"S:{q}"
            out[r["n"]] = rec
        elif r["k"] == "func":
            rec = _own(r, "R", qual, True)
            if s.get("impl", True):
                s_params = {p: a for p, a, _ in s["params"]}
                for prm in rec["params"]:
                    if prm[0] in s_params:
                        prm[1] = s_params[prm[0]]
                rec["ret"] = s["ret"]
                if not r["doc"] and s["doc"]:
                    rec["doc"] = f"S:{q}"
            if s.get("ov"):
                rec["ov"] = overload_signatures(s, "S")
            out[r["n"]] = rec
        else:
            rec = {"kind": "class", "doc": f"R:{q}" if r["doc"] else (f"S:{q}" if s["doc"] else None), "runtime": True, "ov": "dict", "bases": [r["base"]] if r.get("base") else []}
            rec["members"] = _merge_container(r["members"], s["members"], q + ".")
            out[r["n"]] = rec
    for s in s_members:
        if s["n"] in r_by:
            continue
        if s["k"] == "func" and not s.get("impl", True):
            continue
        out[s["n"]] = _own(s, "S", qual, False)  # stub-only: unavailable at runtime
    return out


def expected(pair: dict, wildcard: bool = False, top: str = "p") -> dict:
    """The merged module the statement describes. With `wildcard` the runtime module also has the members of
    pair["W"] (through `from <top>._impl import *`): each is an alias to `<top>._impl.<name>`, resolved by the
    expansion (not by merging), whose target ("via") is merged with the stubs like any runtime member."""
    r, s = pair["R"], pair["S"]
    ws = pair.get("W", []) if wildcard else []
    members = _merge_container(r["members"] + ws, s["members"], "")
    s_plain = {m["n"] for m in s["members"] if m["k"] != "alias"}
    for w in ws:
        if not w.get("hop"):
            members[w["n"]] = {"kind": "alias", "target": f"{top}.{IMPL}.{w['n']}", "resolved": True, "runtime": True, "via": members[w["n"]]}
            continue
        # explicit re-export over 2-3 alias hops: the merger dereferences the alias chain when the stubs define the name
        # (listed finding merge-resolves-internal-alias: `resolved` is not judged here); the object at the end of the
        # chain is then merged like any runtime member - including members the stubs add inside a class
        rec = {"kind": "alias", "target": f"{top}.{API}.{w['n']}", "resolved": None, "runtime": True}
        if w["n"] in s_plain:
            rec["via"] = members[w["n"]]
        members[w["n"]] = rec
    if has_overloads(r["members"]) and "overload" not in members:
        members["overload"] = {"kind": "alias", "target": "typing.overload", "resolved": False, "runtime": True}
    if has_overloads(s["members"]) and "overload" not in members:
        members["overload"] = {"kind": "alias", "target": "typing.overload", "resolved": False, "runtime": False}
    return {"doc": "R:module" if r["doc"] else ("S:module" if s["doc"] else None), "members": members}


# ----------------------------------------------------------------------------------------------- observation
def observe(module, skip: tuple = ()) -> dict:
    """The same record structure, read off a loaded Griffe module without resolving anything."""

    def text(x):
        return None if x is None else str(x)

    def doc(o):
        return o.docstring.value if o.docstring else None

    def sigs(ov):
        if not isinstance(ov, list):
            return ov
        return [[[[p.name, text(p.annotation)] for p in f.parameters], text(f.returns)] for f in ov]

    def member(o) -> dict:
        if o.is_alias:
            rec = {"kind": "alias", "target": o.target_path, "resolved": o.resolved, "runtime": o.runtime}
            t = o
            while t.is_alias and t.resolved:
                t = t.target  # already resolved: reading the target resolves nothing
            if not t.is_alias:
                rec["via"] = member(t)
            return rec
        k = o.kind.value
        if k == "attribute":
            return {"kind": k, "ann": text(o.annotation), "value": text(o.value), "doc": doc(o), "runtime": o.runtime, "ov": sigs(getattr(o, "overloads", None))}
        if k == "function":
            ov = sigs(o.overloads)
            return {
                "kind": k,
                "params": [[p.name, text(p.annotation), text(p.default)] for p in o.parameters],
                "ret": text(o.returns),
                "doc": doc(o),
                "ov": ov,
                "runtime": o.runtime,
            }
        if k == "class":
            return {
                "kind": k,
                "doc": doc(o),
                "runtime": o.runtime,
                "ov": "dict" if isinstance(o.overloads, dict) else repr(type(o.overloads).__name__),
                "bases": [text(b) for b in o.bases],
                "members": {n: member(x) for n, x in o.members.items()},
            }
        return {"kind": k}

    return {"doc": doc(module), "members": {n: member(x) for n, x in module.members.items() if n not in skip}}


# ----------------------------------------------------------------------------------------------- comparison
def compare(exp: dict, got: dict) -> list[tuple[str, str, str]]:
    """[(kind, path, message)] for every field of `got` that `exp` does not allow."""
    out: list[tuple[str, str, str]] = []

    def ok(e, g) -> bool:
        if isinstance(e, Any):
            return any(ok(v, g) for v in e.values)
        if isinstance(e, list) and isinstance(g, list):
            return len(e) == len(g) and all(ok(a, b) for a, b in zip(e, g))
        return e == g

    def members(e: dict, g: dict, path: str, e_parent_side: str) -> None:
        for name in e:
            if name not in g:
                src = "stub-only" if e[name].get("runtime") is False else "runtime"
                out.append((f"member-lost:{src}:{e[name]['kind']}", f"{path}{name}", f"expected a {e[name]['kind']} member {path}{name}, it is missing"))
        for name in g:
            if name not in e:
                out.append((f"member-unexpected:{g[name]['kind']}", f"{path}{name}", f"unexpected member {path}{name}: {g[name]}"))
        for name in e:
            if name in g:
                one(e[name], g[name], f"{path}{name}")

    def one(e: dict, g: dict, path: str) -> None:
        if e["kind"] != g["kind"]:
            out.append((f"kind:{e['kind']}->{g['kind']}", path, f"{path}: expected kind {e['kind']}, got {g['kind']}"))
            return
        for field in e:
            if field in ("kind", "members"):
                continue
            if field == "runtime" and e[field] is None:
                continue
            if field in ("target", "resolved") and e[field] is None:
                continue
            if field == "via":
                if "via" not in g:
                    out.append(("member-lost:runtime:wildcard-target", path, f"{path}: the alias is not resolved to its wildcard-imported target"))
                else:
                    one(e["via"], g["via"], path + "->")
                continue
            if field == "params":
                en, gn = [p[0] for p in e[field]], [p[0] for p in g[field]]
                if en != gn:
                    out.append(("parameters:names", path, f"{path}: parameters {gn}, expected {en}"))
                    continue
                for pe, pg in zip(e[field], g[field]):
                    if not ok(pe[1], pg[1]):
                        out.append(("parameter-annotation", path, f"{path}({pe[0]}): annotation {pg[1]!r}, expected {pe[1]!r}"))
                    if not ok(pe[2], pg[2]):
                        out.append(("parameter-default", path, f"{path}({pe[0]}): default {pg[2]!r}, expected {pe[2]!r}"))
                continue
            if not ok(e[field], g.get(field)):
                label = {"ret": "return-annotation", "ann": "attribute-annotation", "doc": "docstring", "ov": f"overloads:{e['kind']}", "runtime": f"runtime-flag:{e['runtime']}", "resolved": "alias-resolved", "value": "value", "target": "alias-target", "bases": "bases"}[field]
                out.append((label, path, f"{path}: {field} is {g.get(field)!r}, expected {e[field]!r}"))
        if "members" in e:
            members(e["members"], g.get("members", {}), path + ".", "")

    if not ok(exp["doc"], got["doc"]):
        out.append(("docstring:module", "<module>", f"module docstring is {got['doc']!r}, expected {exp['doc']!r}"))
    members(exp["members"], got["members"], "", "")
    return out


def labels(pair: dict) -> set[str]:
    """Structural classes of a pair (evidence histogram / non-trivial rule)."""
    out: set[str] = set()

    def rec(rm, sm, depth):
        s_by = {m["n"]: m for m in sm}
        r_by = {m["n"]: m for m in rm}
        n_overlap = 0
        for r in rm:
            s = s_by.get(r["n"])
            if s is None:
                out.add("runtime-only")
                continue
            n_overlap += 1
            if r["k"] == "class" and r.get("base") and s["k"] == "class":
                base = r_by.get(r["base"])
                own = {m["n"] for m in r["members"]}
                for sm_ in s["members"]:
                    if base is not None and sm_["k"] == "func" and sm_["n"] not in own and any(b["n"] == sm_["n"] for b in base["members"]):
                        out.add("stubs-for-inherited-only-method:" + ("overloads-with-definition" if sm_.get("impl", True) else "bare-overloads") + (f":depth{depth}" if depth else ""))
            if r["k"] == "alias":
                out.add(f"alias-in-runtime:{r['t']}")
            if s["k"] == "alias":
                out.add("alias-in-stubs")
            if r["k"] != s["k"] and "alias" not in (r["k"], s["k"]):
                out.add(f"kind-mismatch:{r['k']}-vs-{s['k']}")
            if r["k"] == s["k"]:
                out.add(f"same-kind:{r['k']}" + (f":depth{depth}" if depth else ""))
                if r["k"] == "class":
                    rec(r["members"], s["members"], depth + 1)
                if r["k"] == "attr" and (r.get("prop") or s.get("prop")):
                    out.add("property:" + ("both" if r.get("prop") and s.get("prop") else "runtime-only" if r.get("prop") else "stubs-only"))
                if r["k"] == "func" and r.get("ov"):
                    out.add("runtime-overloads:" + ("stubs-overloads-too" if s.get("ov") else "stubs-without"))
                if r["k"] == "func":
                    if s.get("ov"):
                        out.add("overloads-for-runtime-function" + ("" if s.get("impl", True) else ":bare"))
                    if r["doc"] and s["doc"]:
                        out.add("docstring-both")
                    if not r["doc"] and s["doc"]:
                        out.add("docstring-stub-only")
                    if {p[0] for p in r["params"]} - {p[0] for p in s["params"]}:
                        out.add("param-runtime-only")
                    if {p[0] for p in s["params"]} - {p[0] for p in r["params"]}:
                        out.add("param-stub-only")
            elif s.get("ov"):
                out.add(f"overloads-for-runtime-{r['k']}")
        for s in sm:
            if s["n"] not in r_by:
                out.add(f"stub-only:{s['k']}")
        return n_overlap

    s_top = {m["n"]: m for m in pair["S"]["members"]}
    for w in pair.get("W", []):
        sm_ = s_top.get(w["n"])
        out.add(("reexport-%d-hops:" % w["hop"] if w.get("hop") else "wildcard-member:") + ("no-stub" if sm_ is None else "stub-alias" if sm_["k"] == "alias" else "same-kind:" + w["k"] if sm_["k"] == w["k"] else "kind-mismatch"))
    n = rec(pair["R"]["members"], pair["S"]["members"], 0)
    out.add(f"overlap:{min(n, 3)}{'+' if n >= 3 else ''}")
    return out
