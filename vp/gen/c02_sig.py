"""C02 — parameter-list models (G-SIG), their enumeration, rendering and comparison with inspect.signature.

A signature model is a JSON dict

    {"po": n, "pk": n, "va": 0|1, "ko": n, "vk": 0|1,   counts of positional-only / positional-or-keyword /
                                                        *var / keyword-only / **var parameters
     "npd": k,      number of *trailing* positional parameters (po+pk) that carry a default (0..po+pk): the only
                    legal default layouts; k > pk means the defaults span the `/` boundary
     "kom": mask,   bit i set = i-th keyword-only parameter has a default (any subset is legal)
     "ann": mask}   bit i set = i-th parameter (declaration order) is annotated; bit n (n = number of
                    parameters) = the function has a return annotation

Names, annotation texts and default texts are a function of the position only, and unique per position, so any
mis-alignment between names, annotations and defaults is visible.
"""

from __future__ import annotations

import inspect
from typing import Any

from vp.common.harness import Fail

NAMES = "abcdefghijklmnopqrstuvwxyz"
KINDS = ("po", "pk", "va", "ko", "vk")


def n_params(m: dict) -> int:
    return m["po"] + m["pk"] + m["va"] + m["ko"] + m["vk"]


def kinds_of(m: dict) -> list[str]:
    return ["po"] * m["po"] + ["pk"] * m["pk"] + ["va"] * m["va"] + ["ko"] * m["ko"] + ["vk"] * m["vk"]


# ----------------------------------------------------------------------------- pools (position-indexed, unique)
# Default texts are literals. The default *expression* Griffe reports is judged by evaluation: eval(str(default)) must succeed
# and denote CPython's default value (same type, same repr — which is nan/inf/-0.0 safe). The pool therefore also holds
# composite expressions (a tuple inside a call / conditional / list inside a subscript, keyword arguments holding calls with
# keyword arguments) and literals whose source text differs from repr(value): overflowing floats (inf has no literal), hex / underscore / exponent
# notations, implicit string and bytes concatenation — and strings that would parse as Python expressions ('utf-8', 'None', 'a.b',
# 'int', 's1'): a string default must stay a string, also inside lambdas and in modules without PEP 563.
def default_text(i: int) -> str:
    d = i % 10
    forms = (
        f"{10 + i}",
        f"'s{i}'",
        f"tbl[key(({i}, 2))]",
        "1e999",
        f"opt(default=fld(default={i}, unit='s'))",
        "'utf-8'",
        f"0x1{d}",
        "-1e999",
        f"'a{i}' \"b\"",
        "1e999j",
        f"-{i + 1}",
        f"{i}.5",
        f"[{i}]",
        f"{{'k': {i}}}",
        f"b'x{i}'",
        f"1_00{d}",
        f"{d + 1}e3",
        f"b'x' b'{d}'",
        "-1e999j",
        f"({i}, 2)",
        "'None'",
        f"'a.b{d}'",
        "'int'",
        f"'x{d} + 1'",
        f"tbl[({i}, 2) if 1 else (3, 4)]",
        f"opt(cb=[fld(flag=True)], n={i})",
        f"tbl[[({i}, 2)]]",
        f"opt(**{{'k': fld(n={i})}})",
    )
    return forms[i % len(forms)]


# Composite default expressions are built from these helpers; they exist in the namespace the generated modules are executed in
# and in the namespace Griffe's reported text is evaluated in, and return plain data (so values compare by type and repr).
class _Tbl:
    def __getitem__(self, item):
        return ("item", item)


def _record(tag: str):
    return lambda *args, **kwargs: (tag, args, sorted(kwargs.items()))


HELPERS = {"tbl": _Tbl(), "key": _record("key"), "opt": _record("opt"), "fld": _record("fld")}


def denote(value) -> str:
    """Identity of a literal's value: type and repr."""
    return f"{type(value).__name__}:{value!r}"


def denote_text(text: str) -> tuple[bool, str]:
    """(evaluable?, denotation or error) of an expression text made of literals."""
    try:
        return True, denote(eval(text, dict(HELPERS)))  # noqa: S307
    except Exception as exc:  # noqa: BLE001
        return False, repr(exc)


# Annotation texts are in the form ast.unparse produces (CPython's own stringification under PEP 563).
def annotation_text(i: int) -> str:
    forms = (
        f"T{i}",
        f"list[T{i}]",
        f"T{i}[dims(({i}, 3))]",
        f"T{i} | None",
        f"Annotated[int, Field(gt={i}, extra=Extra(allow=True))]",
        f"m.T{i}",
        f"dict[str, T{i}]",
        f"tuple[T{i}, ...]",
        f"T{i}[(1, 2) if c else (3, 4)]",
        f"Annotated[T{i}, opt(cb=[fld(flag=True)])]",
    )
    return forms[i % len(forms)]


RETURN_TEXT = "R | None"


def selfcheck_pools(n: int = 26) -> None:
    import ast

    for i in range(n):
        t = default_text(i)
        assert denote_text(t)[0], t
        a = annotation_text(i)
        assert ast.unparse(ast.parse(a, mode="eval").body) == a, a
    assert ast.unparse(ast.parse(RETURN_TEXT, mode="eval").body) == RETURN_TEXT
    # within any window of 14 consecutive positions the default values are pairwise different (mis-alignment stays visible)
    for lo in range(n):
        vals = [denote_text(default_text(i))[1] for i in range(lo, lo + 14)]
        assert len(set(vals)) == len(vals), vals


# ----------------------------------------------------------------------------- enumeration
def all_shapes(max_params: int, min_params: int = 0):
    """Every legal split of <= max_params parameters into kinds, every legal default layout (annotations unset)."""
    out = []
    for total in range(min_params, max_params + 1):
        for po in range(total + 1):
            for pk in range(total - po + 1):
                for va in (0, 1):
                    for vk in (0, 1):
                        ko = total - po - pk - va - vk
                        if ko < 0:
                            continue
                        for npd in range(po + pk + 1):
                            for kom in range(1 << ko):
                                out.append({"po": po, "pk": pk, "va": va, "ko": ko, "vk": vk, "npd": npd, "kom": kom})
    return out


def legal(m: dict) -> bool:
    return (
        all(isinstance(m.get(k), int) and m[k] >= 0 for k in ("po", "pk", "va", "ko", "vk", "npd", "kom", "ann"))
        and m["va"] <= 1
        and m["vk"] <= 1
        and m["npd"] <= m["po"] + m["pk"]
        and m["kom"] < (1 << m["ko"])
        and m["ann"] < (1 << (n_params(m) + 1))
        and n_params(m) <= len(NAMES)
    )


# ----------------------------------------------------------------------------- rendering
def spec(m: dict, names: str | list[str] = NAMES, tag: int = 0) -> list[tuple[str, str, str | None, str | None]]:
    """[(name, kind, annotation text | None, default text | None)] in declaration order.
    `tag` shifts the position-indexed pools (used to make the signatures of one overload group pairwise different)."""
    kinds = kinds_of(m)
    npos = m["po"] + m["pk"]
    out = []
    ko_i = 0
    for i, k in enumerate(kinds):
        ann = annotation_text(i + tag) if (m["ann"] >> i) & 1 else None
        dflt = None
        if k in ("po", "pk"):
            if i >= npos - m["npd"]:
                dflt = default_text(i + tag)
        elif k == "ko":
            if (m["kom"] >> ko_i) & 1:
                dflt = default_text(i + tag)
            ko_i += 1
        out.append((names[i], k, ann, dflt))
    return out


def has_return(m: dict) -> bool:
    return bool((m["ann"] >> n_params(m)) & 1)


def render_params(m: dict, names: str | list[str] = NAMES, tag: int = 0, annotations: bool = True) -> str:
    parts = []
    sp = spec(m, names, tag)
    seen_star = False
    for i, (name, kind, ann, dflt) in enumerate(sp):
        a = f": {ann}" if (ann and annotations) else ""
        d = ""
        if dflt is not None:
            d = f" = {dflt}" if a else f"={dflt}"
        if kind == "va":
            parts.append(f"*{name}{a}")
            seen_star = True
        elif kind == "vk":
            parts.append(f"**{name}{a}")
        elif kind == "ko":
            if not seen_star:
                parts.append("*")
                seen_star = True
            parts.append(f"{name}{a}{d}")
        else:
            parts.append(f"{name}{a}{d}")
            if kind == "po" and i == m["po"] - 1:
                parts.append("/")
    return ", ".join(parts)


def render_returns(m: dict) -> str:
    return f" -> {RETURN_TEXT}" if has_return(m) else ""


def features(m: dict) -> list[str]:
    """Class labels of a signature model (evidence histogram)."""
    out = []
    kinds = set(kinds_of(m))
    out.append(f"kinds={len(kinds)}")
    n = n_params(m)
    out.append(f"params={n}")
    if m["po"] and m["pk"] and m["npd"] > m["pk"]:
        out.append("defaults-span-slash")
    if m["po"] and m["npd"] and m["npd"] <= m["pk"]:
        out.append("defaults-stop-before-slash")
    if m["npd"] and m["npd"] < m["po"] + m["pk"]:
        out.append("positional-defaults-partial")
    if m["ko"] >= 2 and 0 < m["kom"] < (1 << m["ko"]) - 1:
        out.append("kwonly-defaults-partial")
    if m["ko"] >= 2 and m["kom"] and not (m["kom"] >> (m["ko"] - 1)) & 1:
        out.append("kwonly-last-required")
    pa = m["ann"] & ((1 << n) - 1)
    if pa and pa != (1 << n) - 1:
        out.append("annotations-partial")
    elif pa:
        out.append("annotations-all")
    if has_return(m):
        out.append("returns")
    return out


def nontrivial(m: dict) -> bool:
    """>= 2 parameter kinds, or a default next to a `/` or `*` marker."""
    kinds = set(kinds_of(m))
    if len(kinds) >= 2:
        return True
    return bool((m["po"] and m["npd"]) or (m["ko"] and m["kom"]))


# ----------------------------------------------------------------------------- comparison with inspect.signature
PY_KIND = {
    inspect.Parameter.POSITIONAL_ONLY: "positional_only",
    inspect.Parameter.POSITIONAL_OR_KEYWORD: "positional_or_keyword",
    inspect.Parameter.VAR_POSITIONAL: "var_positional",
    inspect.Parameter.KEYWORD_ONLY: "keyword_only",
    inspect.Parameter.VAR_KEYWORD: "var_keyword",
}
VARIADIC = ("var_positional", "var_keyword")
_EMPTY = inspect.Parameter.empty


def py_view(sig: inspect.Signature, annotations: bool = True) -> dict:
    """CPython's view as plain data. Annotations are strings (PEP 563); defaults are identified by type and repr()."""
    params = []
    for p in sig.parameters.values():
        params.append(
            {
                "name": p.name,
                "kind": PY_KIND[p.kind],
                "has_default": p.default is not _EMPTY,
                "default": None if p.default is _EMPTY else denote(p.default),
                "annotation": None if (p.annotation is _EMPTY or not annotations) else p.annotation,
            }
        )
    ret = None if (sig.return_annotation is inspect.Signature.empty or not annotations) else sig.return_annotation
    return {"params": params, "returns": ret}


def griffe_view(parameters: Any, returns: Any = None, lambda_: bool = False) -> dict:
    """Griffe's view as plain data (from Function.parameters / ExprLambda.parameters)."""
    params = []
    for p in parameters:
        kind = p.kind.name if p.kind is not None else None
        params.append(
            {
                "name": p.name,
                "kind": kind,
                "has_default": p.default is not None,
                "required": None if lambda_ else p.required,
                "default": None if p.default is None else str(p.default),
                "annotation": None if p.annotation is None else str(p.annotation),
            }
        )
    return {"params": params, "returns": None if returns is None else str(returns)}


def compare(where: str, what: str, g: dict, py: dict, annotations: bool = True) -> list[Fail]:
    """All signature clauses. `where` = rendering / role (bucket component), `what` = text for the message."""
    fails: list[Fail] = []
    gn = [p["name"] for p in g["params"]]
    pn = [p["name"] for p in py["params"]]
    if gn != pn:
        fails.append(Fail("names-order", where, f"{what}: CPython parameters {pn}, Griffe {gn}"))
        return fails
    for gp, pp in zip(g["params"], py["params"]):
        n = gp["name"]
        if gp["kind"] != pp["kind"]:
            fails.append(Fail("kind", f"{where}:{pp['kind']}", f"{what}: parameter {n}: CPython kind {pp['kind']}, Griffe {gp['kind']}"))
        if pp["kind"] not in VARIADIC:
            # Griffe gives *args / **kwargs the pseudo defaults "()" / "{}" (they can always be omitted); has-default and
            # required-ness are therefore compared for non-variadic parameters only.
            if gp["has_default"] != pp["has_default"]:
                fails.append(
                    Fail(
                        "has-default",
                        f"{where}:{pp['kind']}",
                        f"{what}: parameter {n}: CPython default {pp['default']}, Griffe default {gp['default']}",
                    )
                )
            elif gp["has_default"]:
                # the reported default expression must evaluate, and to the value CPython holds
                ok, den = denote_text(gp["default"])
                if not ok:
                    fails.append(
                        Fail(
                            "default-expr",
                            f"{where}:{pp['kind']}:not-evaluable",
                            f"{what}: parameter {n}: CPython default {pp['default']}, Griffe reports the expression {gp['default']!r} which does not evaluate: {den}",
                        )
                    )
                elif den != pp["default"]:
                    fails.append(
                        Fail(
                            "default-expr",
                            f"{where}:{pp['kind']}",
                            f"{what}: parameter {n}: CPython default {pp['default']}, Griffe reports the expression {gp['default']!r} = {den}",
                        )
                    )
            if gp.get("required") is not None and gp["required"] != (not pp["has_default"]):
                fails.append(Fail("required", f"{where}:{pp['kind']}", f"{what}: parameter {n}: has default {pp['has_default']} in CPython, Parameter.required={gp['required']}"))
        if annotations and gp["annotation"] != pp["annotation"]:
            fails.append(
                Fail("annotation", f"{where}:{pp['kind']}", f"{what}: parameter {n}: CPython annotation {pp['annotation']!r}, Griffe {gp['annotation']!r}")
            )
    if annotations and g["returns"] != py["returns"]:
        fails.append(Fail("returns", where, f"{what}: CPython return annotation {py['returns']!r}, Griffe {g['returns']!r}"))
    return fails


def container_fails(where: str, what: str, parameters: Any) -> list[Fail]:
    """Parameters container: lookup by index and by name observe the same objects, in order."""
    fails = []
    plist = list(parameters)
    if len(parameters) != len(plist):
        fails.append(Fail("container", where, f"{what}: len(parameters)={len(parameters)} but iteration yields {len(plist)}"))
    for i, p in enumerate(plist):
        try:
            by_i = parameters[i]
            by_n = parameters[p.name]
        except (KeyError, IndexError) as exc:
            fails.append(Fail("container", where, f"{what}: lookup of parameter {i}/{p.name!r} raised {exc!r}"))
            continue
        if by_i is not p or by_n is not p or p.name not in parameters:
            fails.append(Fail("container", where, f"{what}: parameters[{i}] / parameters[{p.name!r}] are not the {i}-th iterated parameter"))
    return fails
