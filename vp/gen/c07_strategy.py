"""C07 — Hypothesis strategy for multi-module hierarchies (case kind "pkg"), built by construction."""

from __future__ import annotations

from hypothesis import strategies as st

from vp.gen import c07_hier as H


@st.composite
def pkg_cases(draw, max_classes: int = 7):
    n = draw(st.integers(2, max_classes))
    nmods = draw(st.sampled_from((1, 2, 2, 3, 3, 3)))
    mods = sorted(draw(st.lists(st.integers(0, nmods - 1), min_size=n, max_size=n)))
    # renumber so that module numbers are dense (m0..mk)
    dense = {m: k for k, m in enumerate(sorted(set(mods)))}
    mods = [dense[m] for m in mods]
    resolve = draw(st.sampled_from((True, True, True, False)))
    # externals available to this case (most cases: none or one, so that few classes fall outside the domain)
    ext_pool = draw(st.sampled_from(((), (), (), ("object",), ("Exception",), ("abc.ABC",), ("Unk0",), ("Ext0",), ("Unk0", "Unk1"), ("Exception", "Ext0"), ("object", "Unk0"))))
    cyclic = draw(st.integers(0, 6)) == 0
    # wildcard forms: only when the loader expands them, and never in a package whose imports are cyclic
    # (back-and-forth wildcard imports are a loader topic - C05/C06 -, not a class-hierarchy one)
    cross_forms = [f for f in H.FORMS_CROSS if f != "w" or (resolve and not cyclic)]
    bases: list[list] = []
    via: list[list[str]] = []
    for i in range(n):
        pool: list = list(range(i))
        # dense hierarchies: prefer 2-3 bases once they are available
        size = draw(st.sampled_from((0, 1, 1, 1, 2, 2, 2, 3))) if pool else 0
        size = min(size, len(pool))
        bs: list = draw(st.permutations(pool))[:size] if size else []
        if ext_pool and len(bs) < 3 and draw(st.integers(0, 3)) == 0:
            bs.insert(draw(st.integers(0, len(bs))), draw(st.sampled_from(ext_pool)))
        if cyclic and len(bs) < 3 and draw(st.integers(0, 2)) == 0:
            back = draw(st.integers(i, n - 1))
            if back not in bs:
                bs.insert(draw(st.integers(0, len(bs))), back)
        forms = []
        for b in bs:
            if isinstance(b, str):
                forms.append("")
            elif mods[b] == mods[i]:
                forms.append("d")
            else:
                forms.append(draw(st.sampled_from(cross_forms)))
        bases.append(bs)
        via.append(forms)
    # one fixed-size draw (uniform bits; st.integers would be heavily skewed towards 0 = no members at all)
    nbytes = (3 * len(H.NAMES) * n + 7) // 8
    members = H.members_from_bits(int.from_bytes(draw(st.binary(min_size=nbytes, max_size=nbytes)), "little"), n)
    return {"kind": "pkg", "bases": bases, "members": members, "mods": mods, "via": via, "resolve": resolve}
