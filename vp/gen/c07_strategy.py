"""C07 — Hypothesis strategy for multi-module hierarchies (case kind "pkg"), built by construction."""

from __future__ import annotations

from hypothesis import strategies as st

from vp.gen import c07_hier as H

_EXT_POOLS = ((), (), (), ("object",), ("Exception",), ("abc.ABC",), ("Unk0",), ("Ext0",), ("Unk0", "Unk1"), ("Exception", "Ext0"), ("object", "Unk0"))


@st.composite
def pkg_cases(draw, max_classes: int = 7, leaf_only_instance_attrs: bool = False):
    n = draw(st.integers(2, max_classes))
    nmods = draw(st.sampled_from((1, 2, 2, 3, 3, 3)))
    mods = sorted(draw(st.lists(st.integers(0, nmods - 1), min_size=n, max_size=n)))
    resolve = draw(st.sampled_from((True, True, True, False)))
    # externals available to this case (most cases: none or one, so that few classes fall outside the domain)
    ext_pool = draw(st.sampled_from(_EXT_POOLS))
    cyclic = draw(st.integers(0, 6)) == 0
    # a history on one loader (see c07_hier): none / base package loaded late / a class replaced through set_member
    hist_kind = draw(st.sampled_from(("", "", "late", "replace")))
    # how classes become subscriptable: not at all / own __class_getitem__ / typing.Generic[T] as a base
    gen_mode = draw(st.sampled_from(("", "", "cgi", "typing"))) if hist_kind != "replace" else ""
    # classes defined inside the next class
    # nesting depth per class in post-order numbering (classes of a body precede their host): up to 2 levels
    depth = [0] * n
    if hist_kind != "replace" and draw(st.integers(0, 1)):
        prev = None
        for i in range(n):
            lo = 0 if prev is None else max(0, prev - 1)
            hi = min(2, n - 1 - i)
            depth[i] = prev = draw(st.sampled_from([d for d in (0, 0, 1, 1, 2) if lo <= d <= hi] or [lo]))
    shell = {"bases": [[] for _ in range(n)], "depth": depth}
    host = H.hosts(shell)
    for j, h in enumerate(host):
        if h is not None:
            mods[j] = mods[H.chain(host, j)[0]]  # a nested class lives in its module-level host's module (trees are contiguous: still non-decreasing)
    dense = {m: k for k, m in enumerate(sorted(set(mods)))}
    mods = [dense[m] for m in mods]
    # wildcard forms: only when the loader expands them, and never in a package whose imports are cyclic
    # (back-and-forth wildcard imports are a loader topic - C05/C06 -, not a class-hierarchy one)
    # ... nor across two packages that are loaded one after the other (wildcard expansion is the loader's business)
    if hist_kind == "late" and max(mods) == 0:
        hist_kind = ""
    # two distributions: the first `split` modules are a library of their own - a package ("lib"), a package / top-level
    # modules whose names repeat names used inside PKG ("twin-pkg": `pkg.m2` next to `c07pkg.m2`; "twin-top": `m2` next to
    # `c07pkg.m2`), classes of PKG then take the names of library classes (`c07pkg.m2.C0(m2.C0)`)
    layout = draw(st.sampled_from(("", "", "lib", "twin-pkg", "twin-top"))) if max(mods) else ""
    if hist_kind == "late" and not layout:
        layout = "lib"
    # module names where one is a string prefix of another (zoo.animal / zoo.animal_mixins, m1 / m10): the importing
    # (later) module has the shorter name. Not combined with the twin layouts, which need the default names.
    names_all = None
    scheme = draw(st.sampled_from(("", "", "under", "digits"))) if max(mods) and not layout.startswith("twin") else ""
    if scheme:
        last = max(mods)
        names_all = [("mz" + "_x" * (last - m)) if scheme == "under" else ("m1" + "0" * (last - m)) for m in range(last + 1)]
    lib = None
    if layout:
        split = draw(st.integers(1, max(mods)))
        napp = max(mods) + 1 - split
        if layout == "lib":
            modnames = [(names_all or [f"m{a}" for a in range(split)])[a] for a in range(split)]
        else:
            modnames = [f"m{split + a}" if a < napp else f"m{a}" for a in range(split)]
        lib = {"split": split, "style": "top" if layout == "twin-top" else "pkg", "name": "pkg" if layout == "twin-pkg" else H.LIB, "modnames": modnames}
    # no wildcard form across distributions: with repeated names `from m2 import *` + `class C0(C0)` is the documented
    # same-name limitation, and in a "late" history wildcard expansion is the loader's business
    cross_forms = [f for f in H.FORMS_CROSS if f != "w" or (resolve and not cyclic and not layout)]
    dups = draw(st.integers(0, 3)) == 0  # a quarter of the cases may repeat a base
    cgi = [gen_mode == "cgi" and draw(st.integers(0, 2)) == 0 for _ in range(n)]
    bases: list[list] = []
    via: list[list[str]] = []
    for i in range(n):
        # a host cannot derive from the classes of its own body (they do not exist yet when its bases are evaluated)
        # ... and from inside a class body only the classes of that body and finished module-level trees can be named
        pool: list = [j for j in range(i) if H.referable(host, j, i)]
        # dense hierarchies: prefer 2-3 bases once they are available
        size = draw(st.sampled_from((0, 1, 1, 1, 2, 2, 2, 3))) if pool else 0
        size = min(size, len(pool))
        bs: list = draw(st.permutations(pool))[:size] if size else []
        if gen_mode == "typing" and len(bs) < 3 and draw(st.integers(0, 2)) == 0:
            # realistic placement is last; elsewhere CPython mostly rejects the order (then the class is not judged)
            bs.insert(len(bs) if draw(st.integers(0, 3)) else draw(st.integers(0, len(bs))), "Generic[T]")
        if ext_pool and len(bs) < 3 and draw(st.integers(0, 3)) == 0:
            bs.insert(draw(st.integers(0, len(bs))), draw(st.sampled_from(ext_pool)))
        if cyclic and len(bs) < 3 and draw(st.integers(0, 2)) == 0:
            back = draw(st.integers(i, n - 1))
            # never the class in whose body this one is defined: no statement order makes that valid Python
            if back not in bs and (back == i or host[back] == host[i] or H.chain(host, back)[0] != H.chain(host, i)[0]):
                bs.insert(draw(st.integers(0, len(bs))), back)
        # now and then the same class twice (CPython: "duplicate base class"), the repetition reached its own way
        ints = [b for b in bs if isinstance(b, int)]
        if dups and ints and len(bs) < 3 and draw(st.integers(0, 3)) == 0:
            dup = draw(st.sampled_from(ints))
            bs.insert(draw(st.integers(bs.index(dup) + 1, len(bs))), dup)
        forms = []
        for b in bs:
            if isinstance(b, str):
                forms.append("")
            elif mods[b] == mods[i]:
                forms.append("d")
            else:
                forms.append(draw(st.sampled_from(cross_forms)))
        bases.append(bs)
        via.append(forms)
    # subscripted bases, where the target supports it
    anc = H.ancestors(bases)
    sub: list[list[bool]] = []
    for i in range(n):
        row = []
        for b in bases[i]:
            ok = False
            if isinstance(b, int):
                if gen_mode == "cgi":
                    ok = cgi[b] or any(cgi[a] for a in anc[b])
                elif gen_mode == "typing":
                    ok = "Generic[T]" in bases[b]
            if gen_mode == "typing" and bases[i].count(b) > 1:
                ok = False  # `class C(A[int], A)` is one base for typing's __mro_entries__: keep repetitions plain
            row.append(bool(ok and draw(st.integers(0, 2))))
        sub.append(row)
    # one fixed-size draw (uniform bits; st.integers would be heavily skewed towards 0 = no members at all)
    members = H.members_from_bits(int.from_bytes(draw(st.binary(min_size=2 * n, max_size=2 * n)), "little"), n)
    ibits = int.from_bytes(draw(st.binary(min_size=n, max_size=n)), "little")  # 5 of 8 bits per class used
    spread = sum(((ibits >> (8 * i)) & 31) << (5 * i) for i in range(n))
    init = H.init_from_bits(spread, members, bases, leaf_only=leaf_only_instance_attrs)
    case = {"kind": "pkg", "bases": bases, "members": members, "mods": mods, "via": via, "resolve": resolve, "init": init}
    if names_all:
        case["modnames"] = names_all
    if any(depth):
        case["depth"] = depth
    if any(cgi):
        case["cgi"] = cgi
    if any(any(r) for r in sub):
        case["sub"] = sub
    if leaf_only_instance_attrs and init != H.init_from_bits(spread, members, bases, leaf_only=False):
        case["ia_steered"] = True
    if lib:
        case["lib"] = lib
        if layout.startswith("twin"):
            names = [f"C{i}" for i in range(n)]
            for i in range(n):
                if mods[i] < lib["split"] or host[i] is not None:
                    continue
                cands = [b for b in range(n) if mods[b] < lib["split"] and host[b] is None and lib["modnames"][mods[b]] == f"m{mods[i]}"]
                cands = [b for b in cands if names[b] not in {names[k] for k in range(n) if k != i and mods[k] == mods[i]}]
                preferred = [b for b in cands if b in anc[i]] or cands
                if preferred and draw(st.integers(0, 3)):
                    names[i] = names[draw(st.sampled_from(preferred))]
            if names != [f"C{i}" for i in range(n)]:
                case["clsnames"] = names
    if any(depth):
        # a nested class may repeat the name of a class that encloses it (`class Node: class Meta: class Node: ...`);
        # siblings then reach it by that bare name, everybody else through the dotted path from module level
        names = list(case.get("clsnames") or [f"C{i}" for i in range(n)])
        changed = False
        for i in range(n):
            if host[i] is None or draw(st.integers(0, 2)):
                continue
            new = names[draw(st.sampled_from(H.chain(host, i)[:-1]))]
            if all(names[k] != new for k in range(n) if k != i and host[k] == host[i]):
                names[i], changed = new, True
        if changed:
            case["clsnames"] = names
    if hist_kind == "late":
        case["history"] = {"type": "late"}
    elif hist_kind == "replace":
        j = draw(st.integers(0, n - 1))
        # new bases: earlier classes without instance attribute (the replacement must not create the known-finding shape)
        pool = [b for b in range(j) if init[b] < 1]
        size = min(len(pool), draw(st.sampled_from((0, 1, 1, 2, 2, 3))))
        new_bases = draw(st.permutations(pool))[:size] if size else []
        new_members = [draw(st.sampled_from((0, 0, 1, 2, 3))) for _ in H.NAMES]
        case["history"] = {"type": "replace", "target": j, "bases": new_bases, "members": new_members}
        srcs = [k for k, v in enumerate(new_members) if v]
        dsts = [k for k, v in enumerate(new_members) if not v]
        if srcs and dsts and draw(st.integers(0, 1)):
            case["history"]["also"] = [draw(st.sampled_from(srcs)), draw(st.sampled_from(dsts))]
    return case
