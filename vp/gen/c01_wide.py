"""Domain (ii) of C01: an own wide statement grammar (totality only), plus the pysource_codegen driver (thorough tier).

Model: {"kind": "wide", "entry": "visit"|"load", "tape": [int, ...]}; `decode(tape)` turns the tape into a statement tree of
  w = {"t": template index, "n": [name indices], "e": [expression indices], "b": [[w, ...], ...]}
(nested Hypothesis strategies for this tree cost ~50 ms per example; a tape costs ~1 ms and still shrinks structurally:
shorter tapes and smaller integers mean fewer and simpler statements).
The renderer is context aware (function / async function / loop / class / module level), so that `return`, `await`,
`break`, `import *` ... only appear where CPython accepts them; every rendered text is nevertheless validated with a
full `compile()` and rejected (class "wide:rejected") if CPython refuses it.
"""

from __future__ import annotations

import os
import shutil
import tempfile
from pathlib import Path

from hypothesis import strategies as st

from vp.common.harness import Fail, call, digest

NAMES = ["a", "b", "_c", "__d", "__e__", "A", "__init__", "self", "__all__", "TYPE_CHECKING", "typing", "x", "cls", "property"]
EXPRS = [
    "1", "'s'", "None", "x", "x.y", "f(x, *a, k=1, **kw)", "[1, 2]", "(1, 2)", "{1: 2}", "{1, 2}", "x[1:2, ...]", "lambda: 0",
    "lambda a, /, b=1, *c, d, **e: a", "x if y else z", "not x", "-x", "x + y * z", "x < y <= z", "x and y or z", "[i for i in x if i]",
    "{k: v for k, v in x}", "(i for i in x)", "f'{x!r:>10}'", "b'x'", "...", "1j", "x @ y", "(y := 1)", "x[*y]", "1_000.5e3", "'a' 'b'",
    "x.y.z(1)(2)[3]", "lambda: (yield)", "TYPE_CHECKING", "typing.TYPE_CHECKING", "not TYPE_CHECKING", "[*x, *y]", "{**x, 'k': 1}",
    "['a', 'b']", "('a',)", "x.__all__", "['a'] + x.__all__", "()", "[]", "\"\"\"multi\nline\"\"\"", "(\n    1,\n    2,\n)",
]
# simple statements: (text, requirement) ; requirement in "", "func", "async", "loop", "modlevel"
SIMPLE = [
    ("{a} = {e}", ""), ("{a}: {e} = {f}", ""), ("{a}: {e}", ""), ("{a}, {b} = {e}, {f}", ""), ("*{a}, {b} = {e}", ""), ("[{a}, {b}] = {e}", ""),
    ("({a}, ({b}, c)) = {e}", ""), ("{a}[0] = {e}", ""), ("{a}[{b}:] = {e}", ""), ("{a}.{b} = {e}", ""), ("{a}.{b}.c: int = {e}", ""),
    ("{a} += {e}", ""), ("{a}.{b} += 1", ""), ("{a} @= {e}", ""), ("({a} := {e})", ""), ("del {a}", ""), ("del {a}.{b}, {b}[0]", ""),
    ("assert {e}, {f}", ""), ("raise {e}", ""), ("raise {e} from {f}", ""), ("pass", ""), ("...", ""), ("{e}", ""),
    ("import {a}", ""), ("import {a}.{b} as c", ""), ("import {a}.{b}.c", ""), ("import {a}, {b} as c", ""), ("from {a} import {b}", ""),
    ("from {a}.{b} import c as d, e", ""), ("from . import {a}", ""), ("from .. import {a} as {b}", ""), ("from .{a} import {b}", ""),
    ("from ...{a}.{b} import *", "modlevel"), ("from {a} import *", "modlevel"), ("from . import *", "modlevel"),
    ("from {a} import (\n    {b},\n    c as d,\n)", ""),
    ("type {a} = int | list[{b}]", ""), ("type {a}[T] = list[T]", ""),
    ("__all__ = {e}", ""), ("__all__ += {e}", ""), ("__all__ = ['{a}', *{b}.__all__]", ""), ("__all__ = {a}.__all__ + ['x']", ""),
    ("__all__: list[str]", ""), ("__all__ = None", ""), ("__all__ = [n for n in dir()]", ""), ("__all__.extend({e})", ""),
    ("__all__ = ['a'] * 2", ""), ("__all__ = ['a', 1, None]", ""), ("__all__ += {a}.__all__", ""), ("__all__ = __all__ + ['x']", ""),
    ("__all__ = 'a', 'b'", ""), ("__all__ = {{'a': 1}}", ""), ("__all__ = ['%s' % x]", ""), ("__all__ = [f'{{x}}']", ""),
    ("(__all__) = ['x']", ""), ("__all__ = [*['a'], *('b',)]", ""), ("__all__ = ['a'][:]", ""), ("__all__: list[str] = ['a']", ""),
    ("__all__ -= ['a']", ""), ("__all__ = x.y.__all__ + z.__all__", ""), ("__all__ = f().__all__", ""),
    ("self.{a} = {e}", ""), ("self.{a}: int", ""), ("self.{a}: int = {e}", ""), ("self.{a}.{b} = 1", ""), ("self.{a} = self.{b} = {e}", ""),
    ("self.{a}, self.{b} = {e}", ""), ("cls.{a} = 1", ""), ("self[{a}] = 1", ""), ("self.{a} += 1", ""),
    ("return {e}", "func"), ("return", "func"), ("yield {e}", "func"), ("{a} = yield", "func"), ("yield from {e}", "syncfunc"), ("await {e}", "async"),
    ("{a} = await {e}", "async"), ("{a} = [i async for i in x]", "async"), ("break", "loop"), ("continue", "loop"),
    ("print({a}, file={b})", ""), ('"""string statement"""', ""), ("'''another\n   one\n'''", ""), ("b'bytes'", ""), ("f'{{{a}!r:>{{{b}}}}}'", ""),
    ("{a} = {b} = {e}", ""), ("{a} = {b}.c = {e}", ""), ("{a} = {b}[0] = {e}", ""), ("{a}: 'int' = {e}", ""), ("({a}): int = 1", ""),
    ("{a}.{b}: int", ""), ("{a}[0]: int = 1", ""), ("{a} = 1; {b} = 2", ""), ("{a} = 1; '''doc?'''", ""),
]
DECORATORS = [
    "property", "{a}.setter", "{a}.deleter", "{a}.getter", "staticmethod", "classmethod", "overload", "typing.overload", "functools.cache",
    "functools.lru_cache(maxsize=1)", "{a}", "{a}.{b}(1)", "{a}[0]", "(lambda f: f)", "{a} if {b} else c", "dataclass", "dataclasses.dataclass(frozen=True)",
    "x.y.z", "f(x)(y)", "abc.abstractmethod", "'s'", "1", "({a} := {b})", "functools.cached_property", "cached_property", "typing_extensions.overload",
    "f(\n    1,\n)", "[d][0]", "not x", "x @ y",
]
DECORATORS_ASYNC = ["(await {a})", "{a}(await {b})", "(await {a}).{b}"]
PARAMS = [
    "", "self", "self, a, b=1", "*, a", "a, /", "a, /, b, *c, d=1, **e", "*args: int, **kw: str", "self, x: 'T' = None", "a=lambda: 0", "a: int = (1, 2)",
    "cls", "self=None", "self,\n        a,\n        b=(\n            1),",
]
BASES = ["", "()", "(B)", "(B, metaclass=M, **kw)", "(*bases)", "[T]", "[T: int, *Ts, **P](Generic[T])", "(B[int], x.y.C)", "(\n    B,\n)"]
RETS = ["", " -> int", " -> 'T'", " -> (\n    int)"]
# compound statements: (kind, number of blocks)
COMPOUND = [
    ("if", 3), ("iftc", 2), ("ifttc", 2), ("ifnottc", 2), ("iftcand", 1), ("eliftc", 2), ("try", 4), ("tryfinally", 2), ("trystar", 2), ("trybare", 2),
    ("for", 2), ("forunpack", 1), ("forattr", 1), ("while", 2), ("with", 1), ("withas", 1), ("withmulti", 1), ("withparen", 1), ("match", 4),
    ("def", 1), ("asyncdef", 1), ("class", 1), ("defgeneric", 1), ("asyncfor", 1), ("asyncwith", 1), ("nonlocal", 0), ("defglobal", 1), ("oneline", 0),
    ("initnest", 2),
]
N_SIMPLE = len(SIMPLE)
N_T = N_SIMPLE + len(COMPOUND)


def decode(tape: list) -> list:
    """Statement tree described by a tape of integers (the tape is what Hypothesis generates and shrinks)."""
    it = iter(tape)

    def nxt() -> int:
        return next(it, 0)

    def block(depth: int, maxn: int) -> list:
        return [stmt(depth) for _ in range(nxt() % (maxn + 1))]

    def stmt(depth: int) -> dict:
        if depth <= 0 or nxt() % 3 != 0:
            return {"t": nxt() % N_SIMPLE, "n": [nxt(), nxt()], "e": [nxt(), nxt()], "b": []}
        t = N_SIMPLE + nxt() % len(COMPOUND)
        nb = COMPOUND[t - N_SIMPLE][1]
        return {"t": t, "n": [nxt(), nxt(), nxt()], "e": [nxt(), nxt(), nxt()], "b": [block(depth - 1, 3) for _ in range(nb)]}

    return block(3, 6) or [stmt(0)]


def programs():
    return st.fixed_dictionaries(
        {
            "kind": st.just("wide"),
            "entry": st.sampled_from(["visit"] * 7 + ["load"]),
            "tape": st.lists(st.integers(0, 999), min_size=60, max_size=400),
        }
    )


class _Ctx:
    __slots__ = ("func", "is_async", "loop", "modlevel", "noflow", "cls")

    def __init__(self, func=False, is_async=False, loop=False, modlevel=True, noflow=False, cls=False):
        self.func, self.is_async, self.loop, self.modlevel, self.noflow, self.cls = func, is_async, loop, modlevel, noflow, cls

    def but(self, **kw):
        c = _Ctx(self.func, self.is_async, self.loop, self.modlevel, self.noflow, self.cls)
        for k, v in kw.items():
            setattr(c, k, v)
        return c


def _fmt(tpl: str, w: dict) -> str:
    n = w["n"]
    e = w["e"]
    return tpl.format(
        a=NAMES[n[0] % len(NAMES)],
        b=NAMES[n[1] % len(NAMES)],
        e=EXPRS[e[0] % len(EXPRS)],
        f=EXPRS[e[1] % len(EXPRS)],
    )


def _indent(text: str, ind: str) -> list[str]:
    """Indent a (possibly multi-line) statement text: continuation lines are inside brackets or string literals (or carry
    their indent already), so only the first line needs the indent."""
    lines = text.split("\n")
    return [ind + lines[0]] + lines[1:]


def _block(ws: list, ind: str, ctx: _Ctx) -> list[str]:
    out: list[str] = []
    for w in ws:
        out.extend(_stmt(w, ind, ctx))
    return out or [ind + "pass"]


def _decorators(w: dict, ind: str, ctx: "_Ctx") -> list[str]:
    k = w["e"][2] if len(w["e"]) > 2 else 0
    count = k % 3
    out = []
    if ctx.func and ctx.is_async and k % 2 == 0:
        # decorators are evaluated in the enclosing scope: inside an async function they may await
        out.extend(_indent("@" + _fmt(DECORATORS_ASYNC[k % len(DECORATORS_ASYNC)], w), ind))
    for i in range(count):
        d = DECORATORS[(k // 3 + i * 7) % len(DECORATORS)]
        out.extend(_indent("@" + _fmt(d, w), ind))
    return out


def _stmt(w: dict, ind: str, ctx: _Ctx) -> list[str]:
    t = w["t"] % N_T
    ind2 = ind + "    "
    if t < N_SIMPLE:
        tpl, req = SIMPLE[t]
        ok = (
            req == ""
            or (req == "func" and ctx.func and not ctx.noflow)
            or (req == "syncfunc" and ctx.func and not ctx.is_async and not ctx.noflow)
            or (req == "async" and ctx.func and ctx.is_async)
            or (req == "loop" and ctx.loop and not ctx.noflow)
            or (req == "modlevel" and ctx.modlevel)
            or (req == "modglobal" and not ctx.func)
        )
        if req in ("func",) and tpl.startswith("return") and ctx.noflow:
            ok = False
        if not ok:
            tpl = "{a} = {e}"
        text = _fmt(tpl, w)
        if not ctx.is_async:
            text = text  # expressions never contain await
        return _indent(text, ind)
    kind, _ = COMPOUND[t - N_SIMPLE]
    b = w["b"] + [[]] * 4
    a = NAMES[w["n"][0] % len(NAMES)]
    bname = NAMES[w["n"][1] % len(NAMES)]
    e = EXPRS[w["e"][0] % len(EXPRS)]
    f = EXPRS[w["e"][1] % len(EXPRS)]
    blk = lambda ws, c=ctx: _block(ws, ind2, c)  # noqa: E731
    if kind == "if":
        out = _indent(f"if {e}:", ind) + blk(b[0])
        if b[1]:
            out += _indent(f"elif {f}:", ind) + blk(b[1])
        if b[2]:
            out += [ind + "else:"] + blk(b[2])
        return out
    if kind in ("iftc", "ifttc", "ifnottc", "iftcand"):
        test = {"iftc": "TYPE_CHECKING", "ifttc": "typing.TYPE_CHECKING", "ifnottc": "not TYPE_CHECKING", "iftcand": "TYPE_CHECKING and x"}[kind]
        out = [ind + f"if {test}:"] + blk(b[0])
        if b[1]:
            out += [ind + "else:"] + blk(b[1])
        return out
    if kind == "eliftc":
        return _indent(f"if {e}:", ind) + blk(b[0]) + [ind + "elif TYPE_CHECKING:"] + blk(b[1])
    if kind == "try":
        out = [ind + "try:"] + blk(b[0]) + _indent(f"except ({a}, {bname}) as err:", ind) + blk(b[1])
        if b[2]:
            out += [ind + "else:"] + blk(b[2])
        if b[3]:
            out += [ind + "finally:"] + blk(b[3])
        return out
    if kind == "tryfinally":
        return [ind + "try:"] + blk(b[0]) + [ind + "finally:"] + blk(b[1])
    if kind == "trystar":
        nf = ctx.but(noflow=True)
        return [ind + "try:"] + blk(b[0]) + [ind + "except* ValueError as eg:"] + blk(b[1], nf)
    if kind == "trybare":
        return [ind + "try:"] + blk(b[0]) + [ind + "except ImportError:"] + blk(b[1]) + [ind + "except:", ind2 + "raise"]
    if kind in ("for", "forunpack", "forattr", "while"):
        head = {"for": f"for {a} in {e}:", "forunpack": f"for {a}, ({bname}, *rest) in {e}:", "forattr": f"for self.{a} in {e}:", "while": f"while {e}:"}[kind]
        lc = ctx.but(loop=True)
        out = _indent(head, ind) + blk(b[0], lc)
        if kind in ("for", "while") and b[1]:
            out += [ind + "else:"] + blk(b[1])
        return out
    if kind in ("with", "withas", "withmulti", "withparen"):
        head = {
            "with": f"with {e}:",
            "withas": f"with {e} as {a}:",
            "withmulti": f"with {e} as ({a}, {bname}), {f} as self.d:",
            "withparen": f"with (\n    {e} as {a},\n    {f},\n):",
        }[kind]
        return _indent(head, ind) + blk(b[0])
    if kind == "match":
        out = _indent(f"match {e}:", ind)
        cases = ["case 1 | 2:", "case [p, *q]:", "case {'k': v, **rest}:", "case C(x=1) | D():", "case str() as s if s:", "case _ if x:"]
        k = w["e"][2]
        for i in range(1 + k % 3):
            out += [ind2 + cases[(k + i * 5) % len(cases)]] + _block(b[i], ind2 + "    ", ctx)
        if k % 2:
            out += [ind2 + "case _:"] + _block(b[3], ind2 + "    ", ctx)
        return out
    if kind in ("def", "asyncdef", "defgeneric", "defglobal"):
        is_async = kind == "asyncdef"
        params = PARAMS[w["n"][2] % len(PARAMS)]
        ret = RETS[w["e"][1] % len(RETS)]
        gen = "[T, *Ts]" if kind == "defgeneric" else ""
        fc = _Ctx(func=True, is_async=is_async, loop=False, modlevel=False)
        if ctx.cls and w["n"][1] % 3 == 0:
            a = "__init__"  # Griffe descends into the body of a class-level __init__
        head = _indent(f"{'async ' if is_async else ''}def {a}{gen}({params}){ret}:", ind)
        body = _block(b[0], ind2, fc)
        if kind == "defglobal":
            body = [ind2 + "global g_only", ind2 + "g_only = 1"] + body
        if w["e"][0] % 5 == 0:
            body = [ind2 + '"""Docstring.', "", ind2 + "More.", ind2 + '"""'] + body
        return _decorators(w, ind, ctx) + head + body
    if kind == "class":
        bases = BASES[w["n"][2] % len(BASES)]
        cc = _Ctx(func=False, is_async=False, loop=False, modlevel=False, cls=True)
        body = _block(b[0], ind2, cc)
        if w["e"][0] % 4 == 0:
            body = [ind2 + "'''Class doc.'''"] + body
        return _decorators(w, ind, ctx) + _indent(f"class {a}{bases}:", ind) + body
    if kind in ("asyncfor", "asyncwith"):
        if not (ctx.func and ctx.is_async):
            fc = _Ctx(func=True, is_async=True, loop=False, modlevel=False)
            inner = _stmt(w, ind2, fc)
            return [ind + f"async def {a}():"] + inner
        if kind == "asyncfor":
            return _indent(f"async for {a} in {e}:", ind) + _block(b[0], ind2, ctx.but(loop=True))
        return _indent(f"async with {e} as {a}:", ind) + blk(b[0])
    if kind == "initnest":
        # a class whose (possibly async) __init__ contains a decorated nested class and arbitrary statements:
        # Griffe descends into class-level __init__ bodies
        is_async = w["e"][1] % 2 == 0
        fc = _Ctx(func=True, is_async=is_async, loop=False, modlevel=False)
        ind3 = ind2 + "    "
        out = [ind + f"class {a}:", ind2 + f"{'async ' if is_async else ''}def __init__(self, u=1):"]
        out += _decorators(w, ind3, fc) + [ind3 + f"class {bname}:"] + _block(b[1], ind3 + "    ", _Ctx(modlevel=False, cls=True))
        out += _block(b[0], ind3, fc)
        return out
    if kind == "nonlocal":
        return [ind + f"def {a}():", ind2 + "nl = 1", ind2 + "def inner():", ind2 + "    nonlocal nl", ind2 + "    nl = 2", ind2 + "return inner"]
    if kind == "oneline":
        forms = [f"if {e}: {a} = 1", f"class {a}: {bname} = 1", f"def {a}(): return 1", f"for {a} in x: pass", f"while 0: {a} = 1", f"with x: {a} = 1",
                 f"try: {a} = 1\n{ind}finally: {bname} = 2", f"if x: {a} = 1; '''s'''\n{ind}else: '''t'''", f"class {a}: '''d'''; {bname}: int; '''e'''"]
        return _indent(forms[w["e"][2] % len(forms)], ind)
    raise ValueError(kind)


def render(case: dict) -> str:
    return "\n".join(_block(decode(case["tape"]), "", _Ctx())) + "\n"


# ------------------------------------------------------------------------------------------------ checks
def _sanity(mod, fails: list, text: str) -> None:
    seen = 0
    stack = [(mod, 0)]
    while stack:
        obj, depth = stack.pop()
        if depth > 60:
            fails.append(Fail("sanity", "depth", "member nesting deeper than 60"))
            return
        for key, member in obj.members.items():
            seen += 1
            if member.name != key:
                fails.append(Fail("sanity", "name", f"member stored under {key!r} is named {member.name!r}\n--- source ---\n{text}"))
            if member.parent is not obj:
                fails.append(Fail("sanity", "parent", f"{obj.path}.{key}: parent is not the container\n--- source ---\n{text}"))
            if not member.is_alias:
                stack.append((member, depth + 1))


def check_text(case: dict, text: str, last: dict | None = None) -> list[Fail]:
    import griffe

    try:
        compile(text, "<wide>", "exec", dont_inherit=True)
        valid = True
    except (SyntaxError, ValueError, RecursionError, MemoryError):
        valid = False
    if last is not None:
        last["case"] = case
        tag = case.get("kind", "wide")
        last["info"] = (None, (f"{tag}:valid" if valid else f"{tag}:rejected", f"{tag}:entry:{case.get('entry', 'visit')}"), None)
    if not valid:
        return []
    fails: list[Fail] = []
    if case.get("entry") == "load":
        base = os.environ.get("VERIF_TMP") or ("/dev/shm" if os.access("/dev/shm", os.W_OK) else None)
        tmp = Path(tempfile.mkdtemp(prefix="verif-C01-wide-", dir=base))
        try:
            (tmp / "wp").mkdir()
            (tmp / "wp" / "__init__.py").write_text(text, encoding="utf8")
            (tmp / "wp" / "wm.py").write_text(text, encoding="utf8")
            top = call("total", griffe.load, "wp", search_paths=[str(tmp)], allow_inspection=False, what="griffe.load(allow_inspection=False)")
        finally:
            shutil.rmtree(tmp, ignore_errors=True)
        call("total", _sanity, top, fails, text, what="walking the loaded tree")
        return fails
    for name, fp in (("wm", Path("/nonexistent/verif-c01/wm.py")), ("wp", Path("/nonexistent/verif-c01/wp/__init__.py"))):
        mod = call("total", griffe.visit, name, filepath=fp, code=text, what="griffe.visit")
        call("total", _sanity, mod, fails, text, what="walking the visited tree")
    return fails


def check(case: dict, last: dict | None = None) -> list[Fail]:
    return check_text(case, render(case), last)


def run_pysource(ctx, check_case, describe) -> None:
    """Thorough tier: modules from pysource_codegen (the repository's own fuzzing dependency), seeds derived from VERIF_SEED."""
    try:
        from pysource_codegen import generate
    except Exception:  # noqa: BLE001
        ctx.res.extra["pysource_codegen"] = "unavailable"
        return
    from vp.common.harness import derive_seed, run_check

    n = 40
    done = 0
    import time

    for i in range(n):
        # at most a quarter of the shard's budget goes to pysource_codegen (2-4 s per module); the clock only ends the search early
        if ctx.out_of_budget() or time.monotonic() - ctx.t0 > 0.25 * ctx.budget_s:
            break
        seed = derive_seed(ctx.base_seed, ctx.shard, f"pysource{i}") % (2**31)
        try:
            text = generate(seed)
        except Exception:  # noqa: BLE001
            continue
        case = {"kind": "text", "entry": "load" if i % 4 == 3 else "visit", "origin": "pysource_codegen", "seed": seed, "text": text}
        fails = run_check(check_case, case)
        ctx.case(None, ("pysource:valid",), None)
        done += 1
        for f in fails:
            ctx.fail(f, case)
    ctx.res.extra["pysource_modules"] = done
