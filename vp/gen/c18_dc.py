"""C18 — structural models of dataclass hierarchies, Hypothesis strategy, validity steering and renderer.

case = {"kind": "dc", "future": 0|1, "imp": 0..3, "cv": 0|1, "classes": [cls, ...]}
cls  = {"bases": [indices of earlier classes, descending], "deco": None | {"call": 0|1, "init": None|0|1, "kw_only": None|0|1,
        "extra": None|str}, "body": [item, ...]}          (class i is named C<i>)
item = {"t": "f",  "n": name, "ty": k, "v": VAL}          regular field            name: T [= value]
       {"t": "iv", "n": name, "v": VAL}                   init-only variable       name: InitVar[int] [= value]
       {"t": "cv", "n": name, "bare": 0|1, "v": 0|1}      class variable           name: ClassVar[int] / ClassVar [= 0]
       {"t": "kw"}                                        _: KW_ONLY
       {"t": "u", "n": name}                              un-annotated attribute   name = 0
       {"t": "prop", "n": name} / {"t": "meth", "n": name}
       {"t": "init", "sig": k}                            hand-written __init__
VAL  = None | {"p": k}                                    plain literal default
            | {"d": None|"v"|"f", "init": None|0|1, "kw": None|0|1, "x": 0|1}     field(...) call

The simulation below mirrors just enough of dataclasses' field collection to keep generated hierarchies acceptable to
CPython (default ordering); it is generator steering only — the oracle is CPython itself, and whatever it still rejects is
discarded and counted.
"""

from __future__ import annotations

import copy

from hypothesis import strategies as st

NAME_POOL = ("a", "b", "c", "d", "e")
TYPES = ("int", "str", "float", "list[int]")
PLAIN_DEFAULTS = ("0", "'s'", "1.5", "None")
INIT_SIGS = ("self", "self, q", "self, q, r=0", "self, *args, **kw", "self, q, /, *, r", "self, a, b=1")
EXTRA_FLAGS = (None, None, "repr=False", "eq=False", "order=True", "match_args=False", "unsafe_hash=True", "slots=True")
# (import line, dataclass decorator, field, KW_ONLY, InitVar)
IMPORTS = (
    ("from dataclasses import dataclass, field, KW_ONLY, InitVar", "dataclass", "field", "KW_ONLY", "InitVar"),
    ("import dataclasses", "dataclasses.dataclass", "dataclasses.field", "dataclasses.KW_ONLY", "dataclasses.InitVar"),
    ("import dataclasses as dc", "dc.dataclass", "dc.field", "dc.KW_ONLY", "dc.InitVar"),
    ("from dataclasses import dataclass as dcls, field as fld, KW_ONLY as KWO, InitVar as IV", "dcls", "fld", "KWO", "IV"),
)
CLASSVAR = (("from typing import ClassVar", "ClassVar"), ("import typing", "typing.ClassVar"))
MAX_DEPTH = 3


# ----------------------------------------------------------------------------- strategy
# (strategies are built once: constructing them inside the composites dominates generation time otherwise)
_tri = st.sampled_from([None, None, 0, 1])
_i01 = st.integers(0, 1)
_i03 = st.integers(0, 3)
_i04 = st.integers(0, 4)
_i05 = st.integers(0, 5)
_i09 = st.integers(0, 9)
_names = st.lists(st.sampled_from(NAME_POOL), unique=True, min_size=0, max_size=4)
_item_t = st.sampled_from(["f", "f", "f", "f", "f", "iv", "cv", "u", "prop", "meth"])
_types = st.integers(0, len(TYPES) - 1)
_plain = st.integers(0, len(PLAIN_DEFAULTS) - 1)
_dkind = st.sampled_from([None, "v", "f"])
_dkind_nofactory = st.sampled_from([None, "v"])
_sigs = st.integers(0, len(INIT_SIGS) - 1)
_deco_init = st.sampled_from([None, None, None, 1, 0])
_extra = st.sampled_from(EXTRA_FLAGS)
_kw_names = st.sampled_from(["_", "_", "_kw", "marker"])
_nbases = st.sampled_from([0, 1, 1, 1, 2, 2])


@st.composite
def _value(draw, allow_factory: bool = True):
    k = draw(_i05)
    if k <= 1:
        return None
    if k == 2:
        return {"p": draw(_plain)}
    return {"d": draw(_dkind if allow_factory else _dkind_nofactory), "init": draw(_tri), "kw": draw(_tri), "x": draw(_i01)}


_value_any = _value()
_value_nofactory = _value(allow_factory=False)


@st.composite
def _body(draw, decorated: bool):
    names = draw(_names)
    items: list[dict] = []
    for n in names:
        # annotated fields dominate; the other member forms share the same small name pool so that overrides happen
        t = draw(_item_t)
        if t == "f":
            items.append({"t": "f", "n": n, "ty": draw(_types), "v": draw(_value_any)})
        elif t == "iv":
            items.append({"t": "iv", "n": n, "v": draw(_value_nofactory)})
        elif t == "cv":
            items.append({"t": "cv", "n": n, "bare": draw(_i01), "v": draw(_i01)})
        elif t == "prop":
            # ann: return annotation (Griffe's attribute then carries an annotation, like a field); cached: functools.cached_property
            items.append({"t": t, "n": n, "ann": draw(_i01), "cached": int(draw(_i03) == 0)})
        else:
            items.append({"t": t, "n": n})
    if items and draw(_i03) == 0:
        # CPython recognises the marker by its type, whatever the attribute is called
        items.insert(draw(st.integers(0, len(items))), {"t": "kw", "n": draw(_kw_names)})
    if draw(_i09 if decorated else _i04) == 0:
        # assign: `__init__ = _init_C<i>` (a function defined at module level, bound by assignment) instead of `def __init__`
        items.insert(draw(st.integers(0, len(items))), {"t": "init", "sig": draw(_sigs), "assign": int(draw(_i03) == 0)})
    return items


_body_decorated = _body(True)
_body_plain = _body(False)


@st.composite
def _deco(draw):
    if draw(_i03) == 0:
        return None
    if not draw(_i01):
        return {"call": 0, "init": None, "kw_only": None, "extra": None}
    return {"call": 1, "init": draw(_deco_init), "kw_only": draw(_tri), "extra": draw(_extra)}


_deco_any = _deco()


@st.composite
def cases(draw, max_classes: int = 4, avoid_inherited_value: bool = False):
    n = draw(st.integers(1, max_classes))
    classes: list[dict] = []
    depth: list[int] = []
    for i in range(n):
        cands = [j for j in range(i) if depth[j] < MAX_DEPTH]
        bases: list[int] = []
        if cands:
            k = draw(_nbases)
            bases = sorted(draw(st.lists(st.sampled_from(cands), unique=True, min_size=min(k, len(cands)), max_size=min(k, len(cands)))), reverse=True)
        depth.append(1 + max((depth[b] for b in bases), default=0))
        deco = draw(_deco_any)
        classes.append({"bases": bases, "deco": deco, "body": draw(_body_decorated if deco is not None else _body_plain)})
    case = {
        "kind": "dc",
        "future": draw(_i01),
        "imp": draw(_i03),
        "cv": draw(_i01),
        "classes": classes,
    }
    return normalize(case, avoid_inherited_value)


_deco_decorated = _deco_any.filter(lambda d: d is not None)


@st.composite
def diamond_cases(draw, avoid_inherited_value: bool = False):
    """C0 <- C1, C0 <- C2, C3(C2, C1), all dataclasses: dataclasses merges, in reversed MRO, the *complete* field table of
    every base, so C2 re-introduces C0's definition of a field that C1 re-declared. The bodies share the small name pool."""
    classes = []
    # C2 (first base of C3, merged last) is left undecorated one time in three: it then re-introduces C0's definitions through
    # the `__dataclass_fields__` it inherits
    plain_c2 = draw(st.integers(0, 2)) == 0
    for i, bases in enumerate(([], [0], [0], [2, 1])):
        if i == 2 and plain_c2:
            classes.append({"bases": bases, "deco": None, "body": draw(_body_plain)})
            continue
        deco = draw(_deco_decorated)
        if i == 3 and deco["init"] == 0:
            deco = {**deco, "init": None}
        classes.append({"bases": bases, "deco": deco, "body": draw(_body_decorated)})
    case = {"kind": "dc", "future": draw(_i01), "imp": draw(_i03), "cv": draw(_i01), "classes": classes}
    return normalize(case, avoid_inherited_value)


# ----------------------------------------------------------------------------- simulation (steering + statistics only)
def c3(classes: list[dict], i: int, memo: dict) -> list[int] | None:
    if i in memo:
        return memo[i]
    seqs = []
    for b in classes[i]["bases"]:
        m = c3(classes, b, memo)
        if m is None:
            memo[i] = None
            return None
        seqs.append(list(m))
    seqs.append(list(classes[i]["bases"]))
    out = [i]
    while any(seqs):
        for s in seqs:
            if not s:
                continue
            h = s[0]
            if not any(h in t[1:] for t in seqs):
                break
        else:
            memo[i] = None
            return None
        out.append(h)
        for s in seqs:
            if s and s[0] == h:
                del s[0]
    memo[i] = out
    return out


def _has_default(v) -> bool:
    if v is None:
        return False
    if "p" in v:
        return True
    return v.get("d") is not None


def _set_default(item: dict, want: bool) -> None:
    v = item["v"]
    if want:
        if v is None:
            item["v"] = {"p": 0}
        else:
            v["d"] = "v"
    elif v is not None:
        if "p" in v:
            item["v"] = None
        else:
            v["d"] = None


def _std_init_names(fields: dict) -> list[str]:
    return [n for n, f in fields.items() if f["type"] in ("f", "iv") and f["init"] and not f["kw"]]


def simulate(case: dict, repair: bool = False) -> list[dict | None]:
    """Per class: the simulated dataclass field table {name: {type, kw, init, default, owner}} or None (not a dataclass).
    With repair=True the defaults of the *model* are flipped where CPython's default-ordering rule would reject the class."""
    classes = case["classes"]
    memo: dict = {}
    tables: list[dict | None] = []
    for i, cls in enumerate(classes):
        mro = c3(classes, i, memo) or [i]
        if cls["deco"] is None:
            # attribute lookup of __dataclass_fields__ through the MRO
            tables.append(next((tables[b] for b in mro[1:] if b < len(tables) and tables[b] is not None), None))
            continue
        fields: dict = {}
        for b in reversed(mro[1:]):
            if tables[b] is not None:
                for n, f in tables[b].items():
                    fields[n] = f
        kw_default = bool(cls["deco"]["kw_only"])
        for item in cls["body"]:
            t = item["t"]
            if t == "kw":
                kw_default = True
                continue
            if t == "cv":
                fields[item["n"]] = {"type": "cv", "kw": False, "init": False, "default": bool(item["v"]), "owner": i}
                continue
            if t not in ("f", "iv"):
                continue
            v = item["v"]
            is_call = v is not None and "p" not in v
            kw = bool(v["kw"]) if (is_call and v["kw"] is not None) else kw_default
            init = bool(v["init"]) if (is_call and v["init"] is not None) else True
            name = item["n"]
            if repair and init and not kw:
                fields_try = dict(fields)
                fields_try[name] = {"type": t, "kw": kw, "init": init, "default": False, "owner": i}
                seq = _std_init_names(fields_try)
                pos = seq.index(name)
                must_default = any(fields_try[m]["default"] for m in seq[:pos])
                must_not = any(not fields_try[m]["default"] for m in seq[pos + 1 :])
                if must_default and not _has_default(v):
                    _set_default(item, True)
                elif must_not and not must_default and _has_default(v):
                    _set_default(item, False)
                v = item["v"]
            fields[name] = {"type": t, "kw": kw, "init": init, "default": _has_default(v), "owner": i}
        tables.append(fields)
    return tables


def binds_value(classes: list[dict], j: int, name: str) -> bool | None:
    """Does class j leave `name` bound to a value in its namespace once it is created (and decorated)?
    True / False when the class mentions the name, None when it does not."""
    cls = classes[j]
    for it in cls["body"]:
        if it.get("n") != name:
            continue
        t = it["t"]
        if t in ("u", "prop", "meth"):
            return True
        if t == "cv":
            return bool(it["v"])
        v = it["v"]
        if v is None:
            return False
        if "p" in v:
            return True
        # field(...) in a decorated class: replaced by the default value, or removed when there is none
        return v["d"] == "v"
    return None


def inherited_value_fields(case: dict) -> list[tuple[int, int]]:
    """(class index, body index) of every field without own default, in a decorated class, whose name an ancestor leaves
    bound to a value: dataclasses takes `getattr(cls, name)` — the *inherited* class attribute — as the field's default."""
    classes = case["classes"]
    memo: dict = {}
    out = []
    for i, cls in enumerate(classes):
        if cls["deco"] is None:
            continue
        mro = c3(classes, i, memo) or [i]
        for k, it in enumerate(cls["body"]):
            if it["t"] not in ("f", "iv") or _has_default(it["v"]):
                continue
            # attribute lookup walks the MRO: the first ancestor that still binds the name decides
            if any(binds_value(classes, b, it["n"]) for b in mro[1:]):
                out.append((i, k))
    return out


def normalize(case: dict, avoid_inherited_value: bool = False) -> dict:
    case = copy.deepcopy(case)
    for cls in case["classes"]:
        seen_kw = seen_init = False
        seen_names: set = set()
        body = []
        for item in cls["body"]:
            if item["t"] == "kw":
                if seen_kw:
                    continue
                seen_kw = True
                seen_names.add(item.get("n", "_"))
            elif item["t"] == "init":
                if seen_init:
                    continue
                seen_init = True
            else:
                if item["n"] in seen_names:
                    continue
                seen_names.add(item["n"])
            if cls["deco"] is None and item["t"] in ("f", "iv") and item["v"] is not None and "p" not in item["v"]:
                # field(...) objects are meaningless in a class that no decorator processes: plain value or nothing
                item["v"] = {"p": 0} if item["v"]["d"] else None
            body.append(item)
        cls["body"] = body
    simulate(case, repair=True)
    if avoid_inherited_value:
        # known finding "inherited-class-attribute-default": rename such fields out of the shared name pool
        # (the repair pass may flip defaults, hence the loop; renamed names never collide with the pool)
        steered = 0
        for _ in range(4):
            hits = inherited_value_fields(case)
            if not hits:
                break
            for i, k in hits:
                case["classes"][i]["body"][k]["n"] += "_"
            steered += len(hits)
            simulate(case, repair=True)
        if steered:
            case["steered"] = steered
    return case


# ----------------------------------------------------------------------------- renderer
def render_value(v, field_name: str) -> str:
    if v is None:
        return ""
    if "p" in v:
        return f" = {PLAIN_DEFAULTS[v['p']]}"
    args = []
    if v["d"] == "v":
        args.append("default=0")
    elif v["d"] == "f":
        args.append("default_factory=list")
    if v["init"] is not None:
        args.append(f"init={bool(v['init'])}")
    if v["kw"] is not None:
        args.append(f"kw_only={bool(v['kw'])}")
    if v["x"]:
        args.append("repr=False")
    return f" = {field_name}({', '.join(args)})"


def render_header(case: dict) -> list[str]:
    imp = IMPORTS[case["imp"]][0]
    cv_imp = CLASSVAR[case["cv"]][0]
    lines = []
    if case["future"]:
        lines.append("from __future__ import annotations")
    lines += [imp, cv_imp, "import functools"]
    return lines


def render_class(case: dict, i: int) -> list[str]:
    _, deco_name, field_name, kw_name, iv_name = IMPORTS[case["imp"]]
    cv_name = CLASSVAR[case["cv"]][1]
    cls = case["classes"][i]
    lines = []
    for item in cls["body"]:
        if item["t"] == "init" and item.get("assign"):
            lines.append(f"def _init_C{i}({INIT_SIGS[item['sig']]}): ...")
    d = cls["deco"]
    if d is not None:
        if not d["call"]:
            lines.append(f"@{deco_name}")
        else:
            args = []
            if d["init"] is not None:
                args.append(f"init={bool(d['init'])}")
            if d["kw_only"] is not None:
                args.append(f"kw_only={bool(d['kw_only'])}")
            if d["extra"]:
                args.append(d["extra"])
            lines.append(f"@{deco_name}({', '.join(args)})")
    bases = ", ".join(f"C{b}" for b in cls["bases"])
    lines.append(f"class C{i}({bases}):" if bases else f"class C{i}:")
    if not cls["body"]:
        lines.append("    pass")
    for item in cls["body"]:
        t = item["t"]
        if t == "f":
            lines.append(f"    {item['n']}: {TYPES[item['ty']]}{render_value(item['v'], field_name)}")
        elif t == "iv":
            lines.append(f"    {item['n']}: {iv_name}[int]{render_value(item['v'], field_name)}")
        elif t == "cv":
            ann = cv_name if item["bare"] else f"{cv_name}[int]"
            lines.append(f"    {item['n']}: {ann}{' = 0' if item['v'] else ''}")
        elif t == "kw":
            lines.append(f"    {item.get('n', '_')}: {kw_name}")
        elif t == "u":
            lines.append(f"    {item['n']} = 0")
        elif t == "prop":
            deco = "@functools.cached_property" if item.get("cached") else "@property"
            lines += [f"    {deco}", f"    def {item['n']}(self){' -> int' if item.get('ann') else ''}: ..."]
        elif t == "meth":
            lines.append(f"    def {item['n']}(self): ...")
        elif t == "init":
            if item.get("assign"):
                lines.append(f"    __init__ = _init_C{i}")
            else:
                lines.append(f"    def __init__({INIT_SIGS[item['sig']]}): ...")
    lines.append("")
    return lines


def render(case: dict) -> str:
    lines = [*render_header(case), ""]
    for i in range(len(case["classes"])):
        lines += render_class(case, i)
    return "\n".join(lines)


# ----------------------------------------------------------------------------- packages: the classes of a case spread over modules
PKG_MODULES = ("__init__", "m1", "m2")


@st.composite
def package_cases(draw, avoid_inherited_value: bool = False):
    """A "dc" case of 2-4 classes whose classes live in up to three modules of one package (`__init__`, `m1`, `m2`).
    Each class gets a rank >= the ranks of its bases and the ranks are mapped to the modules by a drawn permutation, so a
    module only imports from modules of lower rank: every direction CPython can import (package -> submodule, submodule ->
    package, submodule -> sibling), never a cycle. "rel" chooses relative or absolute import statements per module."""
    dc = draw(cases(avoid_inherited_value=avoid_inherited_value).filter(lambda c: len(c["classes"]) >= 2))
    if draw(_i01):
        # more undecorated descendants (the dataclass label must reach them through any number of undecorated parents,
        # whatever the order in which the modules are traversed)
        changed = False
        for cls in dc["classes"]:
            if cls["bases"] and cls["deco"] is not None and draw(_i01):
                cls["deco"] = None
                changed = True
        if changed:
            dc = normalize(dc, avoid_inherited_value)
    ranks: list[int] = []
    for cls in dc["classes"]:
        lo = max((ranks[b] for b in cls["bases"]), default=0)
        ranks.append(draw(st.integers(lo, 2)))
    perm = list(draw(st.permutations([0, 1, 2])))
    # wild: bit per module = it imports its bases with `from .src import *` (only from submodules); all: bit per module = the
    # module defines __all__ (its own classes), so that a wildcard import of it does not re-export `dataclass`, `field`, ...
    return {"kind": "dcpkg", "dc": dc, "ranks": ranks, "perm": perm, "rel": draw(st.integers(0, 7)), "wild": draw(st.integers(0, 7)), "all": draw(st.integers(0, 7))}


@st.composite
def two_package_cases(draw, avoid_inherited_value: bool = False):
    """A "dc" case of 2-4 classes split over TWO top-level modules A and B (B imports its bases from A; a class of A never
    has a base in B), to be loaded one after the other into one GriffeLoader, the base package first. Fields of the classes
    that stay in A are turned into InitVar pseudo-fields half of the time (Griffe removes those members after processing A)."""
    dc = draw(cases(avoid_inherited_value=avoid_inherited_value).filter(lambda c: len(c["classes"]) >= 2))
    side: list[int] = []
    for i, cls in enumerate(dc["classes"]):
        lo = max((side[b] for b in cls["bases"]), default=0)
        side.append(max(lo, draw(_i01)) if i else 0)
    if 1 not in side:
        side[-1] = 1
    changed = False
    for i, cls in enumerate(dc["classes"]):
        if side[i] == 0 and cls["deco"] is not None:
            for it in cls["body"]:
                if it["t"] == "f" and draw(_i01):
                    v = it["v"]
                    if v is not None and "p" not in v and v["d"] == "f":
                        v["d"] = "v"
                    it["t"] = "iv"
                    it.pop("ty", None)
                    changed = True
    if changed:
        dc = normalize(dc, avoid_inherited_value)
    return {"kind": "dc2pkg", "dc": dc, "side": side}


def render_two_packages(case: dict, name_a: str, name_b: str) -> dict[str, str]:
    dc = case["dc"]
    out = {}
    for side, name in ((0, name_a), (1, name_b)):
        idxs = [i for i, s_ in enumerate(case["side"]) if s_ == side]
        lines = render_header(dc)
        if side == 1:
            needed = sorted({f"C{b}" for i in idxs for b in dc["classes"][i]["bases"] if case["side"][b] == 0})
            if needed:
                lines.append(f"from {name_a} import {', '.join(needed)}")
        lines.append("")
        for i in idxs:
            lines += render_class(dc, i)
        out[name] = "\n".join(lines)
    return out


def package_module_of(case: dict, i: int) -> str:
    return PKG_MODULES[case["perm"][case["ranks"][i]]]


def render_package(case: dict, pkg: str) -> dict[str, str]:
    """{module name: source}; `__init__` always exists."""
    dc = case["dc"]
    by_mod: dict[str, list[int]] = {"__init__": []}
    for i in range(len(dc["classes"])):
        by_mod.setdefault(package_module_of(case, i), []).append(i)
    out = {}
    for mod, idxs in by_mod.items():
        lines = render_header(dc)
        relative = bool((case["rel"] >> PKG_MODULES.index(mod)) & 1)
        needed: dict[str, list[str]] = {}
        for i in idxs:
            for b in dc["classes"][i]["bases"]:
                src = package_module_of(case, b)
                if src != mod and f"C{b}" not in needed.setdefault(src, []):
                    needed[src].append(f"C{b}")
        for src, names in needed.items():
            if relative:
                target = "." if src == "__init__" else f".{src}"
            else:
                target = pkg if src == "__init__" else f"{pkg}.{src}"
            wildcard = bool((case.get("wild", 0) >> PKG_MODULES.index(mod)) & 1) and src != "__init__"
            lines.append(f"from {target} import {'*' if wildcard else ', '.join(names)}")
        if (case.get("all", 0) >> PKG_MODULES.index(mod)) & 1 and mod != "__init__":
            lines.append("__all__ = [" + ", ".join(f'"C{i}"' for i in idxs) + "]")
        lines.append("")
        for i in idxs:
            lines += render_class(dc, i)
        out[mod] = "\n".join(lines)
    return out


# ----------------------------------------------------------------------------- statistics
def stats(case: dict) -> tuple[bool, list[str]]:
    """(non-trivial?, class labels). Non-trivial = inheritance depth >= 2 with a field override, or any keyword-only
    interplay (decorator flag / KW_ONLY marker / field(kw_only=...)) in a dataclass that has >= 2 constructor fields."""
    classes = case["classes"]
    tables = simulate(case)
    labels: set = set()
    nontrivial = False
    depth: list[int] = []
    for i, cls in enumerate(classes):
        depth.append(1 + max((depth[b] for b in cls["bases"]), default=0))
        d = cls["deco"]
        is_dc = tables[i] is not None
        own_init = any(it["t"] == "init" for it in cls["body"])
        if len(cls["bases"]) > 1:
            labels.add("multiple-bases")
            memo: dict = {}
            anc = [set(c3(classes, b, memo) or [b]) for b in cls["bases"]]
            shared = [j for j in anc[0] & anc[1] if tables[j] is not None and classes[j]["deco"] is not None]
            if shared and d is not None:
                labels.add("diamond-over-dataclass")
                if any(classes[b]["deco"] is None for b in cls["bases"]):
                    labels.add("diamond-with-undecorated-branch")
                # a field of the shared ancestor re-declared in one branch only: CPython's per-base table merge decides
                for j in shared:
                    names = {it.get("n") for it in classes[j]["body"] if it["t"] in ("f", "iv")}
                    branch = [{it.get("n") for k in a - {j} for it in classes[k]["body"] if it["t"] in ("f", "iv", "cv")} for a in anc]
                    if (names & branch[0]) ^ (names & branch[1]):
                        labels.add("diamond-with-one-sided-override")
                        nontrivial = True
        if d is None:
            labels.add("plain-subclass-of-dataclass" if is_dc else "plain-class")
            if own_init:
                labels.add("own-init-in-plain-subclass-of-dataclass" if is_dc else "own-init-in-plain-class")
            continue
        labels.add(f"dataclass-depth={depth[i]}")
        if own_init:
            labels.add("own-init-in-dataclass")
            if any(it["t"] == "init" and it.get("assign") for it in cls["body"]):
                labels.add("own-init-bound-by-assignment-in-dataclass")
        if d["init"] == 0:
            labels.add("deco-init=False")
        if d["kw_only"] is not None:
            labels.add(f"deco-kw_only={bool(d['kw_only'])}")
        kw_interplay = bool(d["kw_only"])
        inherited = set()
        for b in cls["bases"]:
            if tables[b]:
                inherited |= set(tables[b])
        for it in cls["body"]:
            t = it["t"]
            if t == "kw":
                labels.add("KW_ONLY-marker" + ("" if it.get("n", "_") == "_" else "-not-named-underscore"))
                kw_interplay = True
            elif t == "cv":
                labels.add("classvar-bare" if it["bare"] else "classvar")
            elif t == "iv":
                labels.add("initvar")
            elif t in ("u", "prop", "meth"):
                labels.add({"u": "unannotated-attribute", "prop": "property", "meth": "method"}[t])
                if t == "prop" and it.get("ann"):
                    labels.add("property-annotated" + ("-named-like-inherited-field" if it["n"] in inherited else ""))
                if t == "prop" and it.get("cached"):
                    labels.add("cached_property")
            if t in ("f", "iv") and it["v"] is not None and "p" not in it["v"]:
                v = it["v"]
                labels.add("field()")
                if v["d"] == "f":
                    labels.add("field-default_factory")
                if v["init"] == 0:
                    labels.add("field-init=False")
                if v["kw"] is not None:
                    labels.add(f"field-kw_only={bool(v['kw'])}")
                    kw_interplay = True
            if t != "kw" and t != "init" and it["n"] in inherited:
                labels.add("override-of-inherited-field" + ("" if t in ("f", "iv") else "-by-non-field"))
                if depth[i] >= 2:
                    nontrivial = True
        n_params = sum(1 for f in (tables[i] or {}).values() if f["type"] in ("f", "iv") and f["init"])
        if kw_interplay and n_params >= 2:
            labels.add("kw_only-interplay")
            nontrivial = True
    if case["future"]:
        labels.add("pep563")
    labels.add(f"import-form={case['imp']}")
    return nontrivial, sorted(labels)
