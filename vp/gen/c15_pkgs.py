"""C15 generator: side-effect packages (structural model -> file tree) and the Hypothesis strategy of cases.

Model (JSON):

    case = {"kind": "static" | "fault",
            "pkgs": [pkg, ...],        # 1..3; pkgs[0] is the load target, the others are only reachable as alias targets
            "opts": {...},             # loader options, see OPT_KEYS
            "how": "name" | "pathstr" | "pathobj" | "initfile" | "syspath" | "nosearch",
            "target": "top" | "dotted" | "missing" | "missing_dotted",   # dotted: an object path below the top-level name
            "pth": bool | "editable",  # a site-style .pth file with an `import <top>` line in the search root; "editable": the line
                                       # names a setuptools-style `__editable___<top>_finder.py` whose MAPPING is not a literal and
                                       # whose top-level assignments have a side effect (the finder may only parse it)
            "via": "load" | "git",     # (static) git: the tree is committed and loaded with griffe.load_git(ref="HEAD")
            "op": "load" | "inspect" | "inspect_paths", "inspect_at": int,   # (fault) griffe.inspect(name, filepath=..) without/with import_paths
            "construct": "kwargs" | "attrs",   # attrs: GriffeLoader built with the opposite inspection settings, then the public
                                               # attributes allow_inspection / force_inspection are set before loading
            "syspath_mod": None | {"at": int, "how": "rebind" | "inplace" | "copy"},   # (fault) one module body tampers with sys.path
            "fault": None | {"at": int, "type": "exc" | "exit" | "dep"}}   # only kind == "fault"
    pkg  = {"layout": "pkg" | "mod" | "ns" | "pyc" | "so" | "zip",   # regular package / single module / PEP 420 namespace dir /
                                                             # (zip: a regular package inside <name>-archive.zip, the archive is put on the
                                                             #  search paths: importable through zipimport, invisible to the finder)
                                                             # source-less name.pyc (importable, invisible to the finder) /
                                                             # garbage extension-module file at top level
            "root": 0 | 1,            # which of the two search roots holds it
            "stdname": int,           # (pkgs[0], layouts pyc/so) index into STD_NAMES: the compiled-only top-level module merely
                                      # shares the name of a standard-library module (this, nntplib, ...)
            "sibling": bool,          # (pkgs[1:]) named "_<pkgs[0] name>": the private sibling that resolve_external=None loads
            "stubs_pkg": bool,        # a "<name>-stubs" package next to it
            "top": node}              # the top module ("p" node; for layouts mod/pyc/so only its own fields are used)
    node = {"t": "m", "imports": [imp...], "export": bool, "stub": bool}                                  # module  m<i>.py
         | {"t": "p", "init": bool, "imports": [...], "export": bool, "stub": bool, "ch": [node...]}      # sub-package s<i>/ (init False: no __init__.py)
         | {"t": "d", "ext": int, "name": int}     # compiled decoy d<i><ext>, or named after a module that is already in
                                                    # sys.modules (DECOY_NAMES: json, types, io, logging, sys, os)
    (module / sub-package nodes may carry "all_from": None | [target_index, "from" | "attr"]: the module's __all__ is built from the
     __all__ of another module that static analysis may be unable to load — a compiled decoy, a source-less / zipped / unloaded
     package — `from T import __all__ as _all_ext; __all__ = _all_ext + [...]` or `import T; __all__ = T.__all__ + [...]`)
    (module / sub-package nodes may carry "enc": None | "latin-1" | "cp1252" | "bom": the source file is written in that PEP 263
     encoding with a coding cookie and a non-ASCII character, i.e. it is legal Python but not valid UTF-8; "bom" = UTF-8 with BOM)
    imp  = [pkg_index, module_index, "name" | "star"]   # indices are taken modulo the available packages / modules

Every module body (also stubs and source-less byte code) starts by appending its dotted name to the sentinel file.
"""

from __future__ import annotations

import hashlib
import importlib.machinery
import importlib.util
import json
from pathlib import Path

EXT_SUFFIXES = list(importlib.machinery.EXTENSION_SUFFIXES)
# decoy kinds: the platform's real extension-module suffixes with garbage contents, a *valid* source-less .pyc whose body
# writes the sentinel (CPython would import it), and the other suffixes the finder accepts
DECOY_EXTS = [*EXT_SUFFIXES, ".pyc", ".pyd", ".pyo"]
GARBAGE = b"\x7fELF\x02\x01\x01 this is not a shared object \x00\xff\xfe garbage\n"

OPT_KEYS = ("submodules", "resolve_aliases", "resolve_implicit", "resolve_external", "find_stubs_package", "store_source", "try_relative_path")


def base_name(case) -> str:
    """Unique (per case content) prefix of every generated top-level name."""
    h = hashlib.sha1(json.dumps(case, sort_keys=True).encode()).hexdigest()[:10]
    return f"vq{h}"


STD_NAMES = [None, None, None, "this", "nntplib", "sndhdr", "telnetlib", "xdrlib"]  # stdlib names nobody has imported


def pkg_names(case) -> list[str]:
    base = base_name(case)
    names = []
    for i, pkg in enumerate(case["pkgs"]):
        std = STD_NAMES[pkg.get("stdname", 0) % len(STD_NAMES)] if i == 0 and pkg["layout"] in ("pyc", "so") else None
        if std:
            names.append(std)
        elif i > 0 and pkg.get("sibling") and f"_{names[0]}" not in names:
            names.append(f"_{names[0]}")
        else:
            names.append(f"{base}{'abc'[i]}")
    return names


def flat_modules(pkg, name: str) -> list[dict]:
    """Modules of a package in a deterministic pre-order: dicts with dotted name, relative file (without suffix), node,
    importable (False below a directory without __init__.py inside a regular package: Griffe documents that it skips them)."""
    out = []
    layout = pkg["layout"]
    top = pkg["top"]
    if layout in ("mod", "pyc", "so"):
        out.append({"dotted": name, "rel": name, "node": top, "is_init": False, "kind": layout})
        return out

    def walk(node, dotted, rel, has_init, chain_ok):
        if has_init:
            out.append({"dotted": dotted, "rel": f"{rel}/__init__", "node": node, "is_init": True, "kind": "py", "reachable": chain_ok})
        for i, ch in enumerate(node.get("ch", ())):
            if ch["t"] == "m":
                out.append({"dotted": f"{dotted}.m{i}", "rel": f"{rel}/m{i}", "node": ch, "is_init": False, "kind": "py", "reachable": chain_ok})
            elif ch["t"] == "p":
                walk(ch, f"{dotted}.s{i}", f"{rel}/s{i}", ch["init"], chain_ok and (ch["init"] or layout == "ns"))
            # decoys are not modules of the model

    walk(top, name, name, layout in ("pkg", "zip"), True)
    if layout == "zip":
        for m in out:
            m["inzip"] = True
    return out


def decoys(pkg, name: str) -> list[dict]:
    out = []
    if pkg["layout"] not in ("pkg", "ns"):
        return out

    def walk(node, dotted, rel):
        for i, ch in enumerate(node.get("ch", ())):
            if ch["t"] == "d":
                ext = DECOY_EXTS[ch["ext"] % len(DECOY_EXTS)]
                stem = DECOY_NAMES[ch.get("name", 0) % len(DECOY_NAMES)] or f"d{i}"
                out.append({"dotted": f"{dotted}.{stem}", "rel": f"{rel}/{stem}{ext}", "ext": ext})
            elif ch["t"] == "p":
                walk(ch, f"{dotted}.s{i}", f"{rel}/s{i}")

    walk(pkg["top"], name, name)
    return out


DECOY_NAMES = [None, None, None, "json", "types", "io", "logging", "sys", "os"]
ENCODINGS = {"latin-1": ("latin-1", "caf\u00e9 \u00fc\u00df"), "cp1252": ("cp1252", "prix 5\u20ac \u201cquoted\u201d"), "bom": ("utf-8-sig", "caf\u00e9 \u20ac")}


def encode_source(src: str, enc: str | None) -> bytes:
    """A legal Python source in a PEP 263 encoding: coding cookie + a comment with non-ASCII characters."""
    if not enc:
        return src.encode()
    codec, sample = ENCODINGS[enc]
    if enc == "bom":
        return (f"# {sample}\n" + src).encode(codec)
    return (f"# -*- coding: {codec} -*-\n# {sample}\n" + src).encode(codec)


SYSPATH_TAMPER = {
    # analysed code that changes the import path at import time (it runs while Griffe's temporary sys.path is installed)
    "rebind": "import sys as _s, os as _o; _s.path = [_o.path.dirname(_o.path.abspath(__file__))] + _s.path",
    "inplace": "import sys as _s, os as _o; _s.path.insert(0, _o.path.dirname(_o.path.abspath(__file__))); _s.path.append('/nonexistent-c15')",
    "copy": "import sys as _s; _s.path = list(_s.path)",
}


def _body(dotted: str, sentinel: str, imports: list[str], exports: list[str], fault: str | None, missing: str, stub: bool, tamper: str | None = None, all_expr: str | None = None) -> str:
    lines = [
        f'"""Module {dotted}."""',
        f"with open({sentinel!r}, 'a') as _sentinel: _sentinel.write({dotted + chr(10)!r})",
    ]
    if tamper:
        lines.append(SYSPATH_TAMPER[tamper])
    lines += imports
    if all_expr:
        lines.append(f"__all__ = {all_expr} + {exports!r}")
    elif exports:
        lines.append(f"__all__ = {exports!r}")
    lines += [
        "V: int = 1",
        "def f(a, b=2):" + (" ..." if stub else "\n    '''Function.'''\n    return a"),
        "class C:\n    '''Class.'''\n    x: int = 0\n    def meth(self): " + ("..." if stub else "return self.x"),
    ]
    if fault == "exc":
        lines.append(f"raise RuntimeError('boom at import of {dotted}')")
    elif fault == "exit":
        lines.append("raise SystemExit(3)")
    elif fault == "dep":
        lines.append(f"import {missing}")
    lines.append("W = 2")
    return "\n".join(lines) + "\n"


def _pyc_bytes(source: str, name: str) -> bytes:
    from importlib._bootstrap_external import _code_to_timestamp_pyc

    return bytes(_code_to_timestamp_pyc(compile(source, name, "exec"), 0, 0))


def render(case, sentinel: str) -> dict:
    """-> {"names": [...], "files": {root_index: {relpath: bytes}}, "modules": [[flat module dicts] per pkg], "decoys": [...],
    "fault_module": dotted | None, "missing": name}"""
    names = pkg_names(case)
    missing = base_name(case) + "zz"
    mods = [flat_modules(p, n) for p, n in zip(case["pkgs"], names)]
    all_mods = [m for ms in mods for m in ms]
    fault = case.get("fault")
    fault_mod = None
    if fault and all_mods:
        fault_mod = all_mods[fault["at"] % len(all_mods)]["dotted"]
    tamper = case.get("syspath_mod")
    tamper_mod = all_mods[tamper["at"] % len(all_mods)]["dotted"] if tamper and all_mods else None
    files: dict = {0: {}, 1: {}}
    out_decoys = []
    zips = []
    # targets whose __all__ another module may build upon: compiled decoys first (the interesting ones), then every module
    all_targets = [d["dotted"] for p, n in zip(case["pkgs"], names) for d in decoys(p, n)] + [m["dotted"] for m in all_mods]
    for pi, (pkg, name) in enumerate(zip(case["pkgs"], names)):
        root = files[pkg.get("root", 0) % 2]
        if pkg["layout"] == "zip":
            root = {}
            zips.append({"root": pkg.get("root", 0) % 2, "archive": f"{name}-archive.zip", "files": root})
        for m in mods[pi]:
            node = m["node"]
            imports, exports = [], ["C", "f"]
            for k, (tp, tm, how) in enumerate(node.get("imports", ())):
                tmods = mods[tp % len(mods)]
                if not tmods:
                    continue
                target = tmods[tm % len(tmods)]["dotted"]
                if target == m["dotted"]:
                    continue
                if how == "star":
                    imports.append(f"from {target} import *")
                else:
                    imports.append(f"from {target} import C as C{k}")
                    exports.append(f"C{k}")
            if not node.get("export"):
                exports = []
            all_expr = None
            af = node.get("all_from")
            if af and all_targets:
                target = all_targets[af[0] % len(all_targets)]
                if target != m["dotted"] and not target.startswith(m["dotted"] + ".") and not m["dotted"].startswith(target + "."):
                    if af[1] == "from":
                        imports.append(f"from {target} import __all__ as _all_ext")
                        all_expr = "_all_ext"
                    else:
                        imports.append(f"import {target}")
                        all_expr = f"{target}.__all__"
            ft = fault["type"] if fault_mod == m["dotted"] else None
            src = _body(m["dotted"], sentinel, imports, exports, ft, missing, stub=False, tamper=tamper["how"] if tamper_mod == m["dotted"] else None, all_expr=all_expr)
            if m["kind"] == "pyc":
                root[f"{name}.pyc"] = _pyc_bytes(src, f"{name}.py")
            elif m["kind"] == "so":
                ext = EXT_SUFFIXES[node.get("ext", 0) % len(EXT_SUFFIXES)]
                root[f"{name}{ext}"] = GARBAGE
                out_decoys.append({"dotted": name, "rel": f"{name}{ext}", "ext": ext})
            else:
                # the top-level module itself stays plain UTF-8: an undecodable top-level file is a legitimate LoadingError, and Griffe
                # cannot parse a UTF-8 source that starts with a BOM either (reads it as "utf8", SyntaxError U+FEFF -> LoadingError;
                # a limitation outside C15 — sub-modules in these encodings are skipped silently, which is all C15 needs)
                enc = node.get("enc")
                if m["dotted"] == name:
                    enc = None
                root[m["rel"] + ".py"] = encode_source(src, enc)
                if node.get("stub"):
                    root[m["rel"] + ".pyi"] = _body(m["dotted"], sentinel, imports, exports, None, missing, stub=True).encode()
                if pkg.get("stubs_pkg"):
                    rel = m["rel"].replace(name, f"{name}-stubs", 1)
                    root[rel + ".pyi"] = _body(m["dotted"], sentinel, [], exports, None, missing, stub=True).encode()
        for d in decoys(pkg, name):
            if d["ext"] == ".pyc":
                src = _body(d["dotted"], sentinel, [], ["C", "f"], None, missing, stub=False)
                root[d["rel"]] = _pyc_bytes(src, d["rel"])
            else:
                root[d["rel"]] = GARBAGE
            out_decoys.append(d)
    if case.get("pth") == "editable":
        # an editable-install finder module: CPython's site would import it; Griffe's finder must only *parse* it
        mod = f"__editable___{names[0].strip('_')}_finder"
        files[0][f"{names[0]}.pth"] = f"import {mod}\n".encode()
        files[0][f"{mod}.py"] = (
            f"_hit = open({sentinel!r}, 'a').write({mod + chr(10)!r})\n_BASE = '/nonexistent-c15/src'\n"
            f"MAPPING = dict({names[0].strip('_')}=_BASE + '/{names[0]}')\n"
        ).encode()
    elif case.get("pth"):
        # what site.py would *execute*; Griffe's finder must only read it
        files[0][f"{names[0]}.pth"] = f"import {names[0]}\n".encode()
    return {"names": names, "files": files, "modules": mods, "decoys": out_decoys, "fault_module": fault_mod, "tamper_module": tamper_mod, "missing": missing, "zips": zips}


def write_zips(zips: list, roots: list[Path]) -> list[Path]:
    import zipfile

    out = []
    for z in zips:
        path = roots[z["root"]] / z["archive"]
        with zipfile.ZipFile(path, "w") as zf:
            for rel, data in sorted(z["files"].items()):
                zf.writestr(zipfile.ZipInfo(rel, date_time=(2024, 1, 1, 0, 0, 0)), data)
        out.append(path)
    return out


def write_tree(files: dict, roots: list[Path]) -> None:
    for ri, tree in files.items():
        for rel, data in tree.items():
            p = roots[int(ri)] / rel
            p.parent.mkdir(parents=True, exist_ok=True)
            p.write_bytes(data)


# ----------------------------------------------------------------------------- strategy
def strategy():
    from hypothesis import strategies as st

    imp = st.tuples(st.sampled_from([1, 1, 1, 2, 0]), st.integers(0, 7), st.sampled_from(["name", "name", "star"])).map(list)
    all_from = st.one_of(st.none(), st.none(), st.none(), st.tuples(st.integers(0, 9), st.sampled_from(["from", "attr"])).map(list))
    mod_fields = {"all_from": all_from, "enc": st.sampled_from([None] * 7 + ["latin-1", "cp1252", "bom"]), "imports": st.lists(imp, max_size=2), "export": st.sampled_from([True, True, False]), "stub": st.sampled_from([False, False, True])}
    module = st.fixed_dictionaries({"t": st.just("m"), **mod_fields})
    decoy = st.fixed_dictionaries({"t": st.just("d"), "ext": st.integers(0, len(DECOY_EXTS) - 1), "name": st.integers(0, len(DECOY_NAMES) - 1)})
    leaf = st.one_of(module, module, decoy)
    subpkg = st.fixed_dictionaries(
        {"t": st.just("p"), "init": st.sampled_from([True, True, True, False]), **mod_fields, "ch": st.lists(leaf, min_size=0, max_size=3)}
    )
    top = st.fixed_dictionaries({"t": st.just("p"), "init": st.just(True), **mod_fields, "ext": st.integers(0, 2), "ch": st.lists(st.one_of(leaf, leaf, subpkg), min_size=0, max_size=4)})

    def pkg(layouts):
        return st.fixed_dictionaries(
            {
                "layout": st.sampled_from(layouts),
                "root": st.sampled_from([0, 0, 1]),
                "stdname": st.integers(0, len(STD_NAMES) - 1),
                "sibling": st.booleans(),
                "stubs_pkg": st.sampled_from([False, False, True]),
                "top": top,
            }
        )

    main_static = pkg(["pkg"] * 6 + ["mod", "ns", "pyc", "so", "zip"])
    main_fault = pkg(["pkg"] * 5 + ["mod", "ns", "pyc", "pyc", "so", "zip"])
    other = pkg(["pkg"] * 4 + ["mod", "ns", "pyc", "pyc", "so", "zip"])
    opts = st.fixed_dictionaries(
        {
            "submodules": st.sampled_from([True, True, False]),
            "resolve_aliases": st.sampled_from([True, True, False]),
            "resolve_implicit": st.booleans(),
            "resolve_external": st.sampled_from([None, True, True, False]),
            "find_stubs_package": st.booleans(),
            "store_source": st.booleans(),
            "try_relative_path": st.booleans(),
        }
    )
    hows = st.sampled_from(["name", "name", "name", "pathstr", "pathobj", "initfile", "syspath", "nosearch"])
    targets = st.sampled_from(["top", "top", "top", "dotted", "dotted", "missing", "missing_dotted"])

    static = st.fixed_dictionaries(
        {
            "kind": st.just("static"),
            "pkgs": st.tuples(main_static, st.one_of(st.lists(other, max_size=2), st.lists(other, min_size=1, max_size=2))).map(lambda t: [t[0], *t[1]]),
            "opts": opts,
            "how": hows,
            "target": targets,
            "pth": st.sampled_from([False, False, True, "editable"]),
            "construct": st.sampled_from(["kwargs", "kwargs", "attrs"]),
            "via": st.sampled_from(["load"] * 5 + ["git"]),  # git: commit the tree, load it with griffe.load_git(ref="HEAD")
        }
    )
    fault = st.fixed_dictionaries(
        {
            "kind": st.just("fault"),
            "pkgs": st.tuples(main_fault, st.lists(other, max_size=1)).map(lambda t: [t[0], *t[1]]),
            "opts": opts,
            "force": st.sampled_from([True, True, True, False]),
            "how": st.sampled_from(["name", "name", "pathstr", "syspath", "initfile"]),
            "target": targets,
            "pth": st.sampled_from([False, False, "editable"]),
            "op": st.sampled_from(["load", "load", "load", "inspect", "inspect", "inspect_paths"]),  # inspect: griffe.inspect(name, filepath=...)
            "inspect_at": st.integers(0, 11),
            "construct": st.sampled_from(["kwargs", "kwargs", "attrs"]),
            "syspath_mod": st.one_of(
                st.none(),
                st.fixed_dictionaries({"at": st.sampled_from([0, 0, 1, 2, 3, 5]), "how": st.sampled_from(["rebind", "rebind", "inplace", "copy"])}),
            ),
            "fault": st.one_of(
                st.none(),
                st.fixed_dictionaries({"at": st.integers(0, 11), "type": st.sampled_from(["exc", "exit", "dep"])}),
                st.fixed_dictionaries({"at": st.integers(0, 11), "type": st.sampled_from(["exc", "exit", "dep"])}),
                st.fixed_dictionaries({"at": st.just(0), "type": st.sampled_from(["exc", "exit", "dep"])}),
            ),
        }
    )
    return st.one_of(static, static, fault)
