"""G-FS — file-tree layouts over several search paths (shared by C14 and C19).

A *layout* is a JSON-serialisable structural model:

    tree  := {filename: node}          node := str (a file; the string is a *content code*)  |  tree (a directory)
    layout:= {"paths": [tree, ...],    1..3 search paths, in search order
              "extra": tree | None,    a further directory that is only reachable through a .pth file
              "pth":   {"host": i, "name": "x.pth", "pre": [...], "post": [...]} | None}

Content codes (rendered by `CONTENT`): "x" trivial module body, "" empty file, "ku" pkgutil-style namespace
`__init__`, "kr" pkg_resources-style namespace `__init__`, "b" binary junk (fake compiled file), "t" text junk.
Any other string is written verbatim (C19 writes generated module sources that way).

This module provides
  * `layouts()`            Hypothesis strategy building layouts by construction (no filtering),
  * `materialise()`        layout -> directories under a root, returns the search-path list,
  * `listing_order()`      context manager injecting a directory listing order into `os.walk` / `Path.iterdir`
                           (the only two enumeration primitives `_griffe/finder.py` uses),
  * `CPythonView`          CPython's finders consulted without executing any module body,
  * `griffe_tree()`        {dotted path: {"file", "flags", "members"}} of a loaded Griffe module tree,
  * `features()`           structural labels of a layout (evidence histogram / non-trivial rule).
"""

from __future__ import annotations

import contextlib
import hashlib
import importlib
import importlib.machinery
import os
import pathlib
import pkgutil
import shutil
import sys
from pathlib import Path

from vp.common.bootstrap import HarnessError

# ----------------------------------------------------------------------------------------------- vocabulary
TOP = "p"  # the package that is requested
DECOY_TOP = "q"
NAMES = ("a", "b", "c")
# File/directory names that are not Python identifiers (or are keywords / non-ASCII) but that CPython's finders accept
# all the same: FileFinder matches file names textually and pkgutil.iter_modules lists every name without a dot
# (`importlib.import_module("pkg.0001_initial")` works; Django migrations rely on it).
ODD_NAMES = ("0a", "a-b", "class", "\u00e9")
NAME_POOL = NAMES * 3 + ODD_NAMES
# Names of the search-path directories themselves: each is a character prefix of others (lib / lib64 style), so that
# "is this directory below that search path" cannot be decided on strings. Layouts without "dirs" use sp0, sp1, ...
SP_DIR_NAMES = ("sp", "sp1", "sp10", "sp1x", "sp10y")
NATIVE_EXT = tuple(importlib.machinery.EXTENSION_SUFFIXES)  # e.g. .cpython-312-x86_64-linux-gnu.so, .abi3.so, .so
FOREIGN_EXT = (".cpython-38-x86_64-linux-gnu.so", ".cp312-win_amd64.pyd", ".pyd", ".cpython-312-darwin.so")
PYCACHE_TAG = sys.implementation.cache_tag  # cpython-312

CONTENT = {
    "x": "x = 1\n",
    "": "",
    "ku": "__path__ = __import__('pkgutil').extend_path(__path__, __name__)\n",
    "kr": "__import__('pkg_resources').declare_namespace(__name__)\n",
    # further spellings of the pkg-style namespace declarations (all contain the exact statements the docs give)
    "ku2": 'try:\n    __import__("pkg_resources").declare_namespace(__name__)\nexcept ImportError:\n    __path__ = __import__("pkgutil").extend_path(__path__, __name__)\n',
    "ku3": "if True:\n    __path__ = __import__('pkgutil').extend_path(__path__, __name__)\n",
    "ku4": '"""Namespace package."""\n# every portion ships this file\n__path__ = __import__("pkgutil").extend_path(__path__, __name__)\nx = 1\n',
    "kr2": "try:\n    __import__('pkg_resources').declare_namespace(__name__)\nexcept ImportError:\n    pass\n",
    "kr3": '# namespace package\n\n__import__("pkg_resources").declare_namespace(__name__)\n',
    # the spelling of the pkgutil documentation (not recognised by Griffe's regular expressions: known finding)
    "kf": "from pkgutil import extend_path\n__path__ = extend_path(__path__, __name__)\n",
    "b": "\x00\x01junk",
    "t": "not a module\n",
}
PKG_MODES = {"ku": ("ku", "ku", "ku2", "ku3", "ku4", "kf"), "kr": ("kr", "kr", "kr2", "kr3", "ku2")}
PKG_STYLE = {code for codes in PKG_MODES.values() for code in codes}
LINK = "->"  # a file node "->name" is a directory symlink to the sibling directory `name`


# ----------------------------------------------------------------------------------------------- strategy
def layouts(max_depth: int = 3):
    """Strategy of layouts. Everything is drawn by construction: each module name of a directory gets a
    non-empty set of *forms* (source file, stub file, directory with one of several init kinds, compiled
    file names for this and for foreign interpreters, bytecode, non-module files), so the same name as file and
    as directory, and the same name in several search paths, are the norm."""
    from hypothesis import strategies as st

    forms_sub = ["py"] * 5 + ["dir"] * 5 + ["pyi"] * 2 + ["extn", "extf", "pyc", "pyo", "txt", "bare", "dotted", "bak"]
    inits_sub = ["py"] * 4 + ["none"] * 3 + ["pyi", "py+pyi"]

    @st.composite
    def directory(draw, depth: int, init: str, min_names: int = 0):
        d: dict = {}
        if init in ("py", "py+pyi"):
            d["__init__.py"] = draw(st.sampled_from(["x", "x", ""]))
        if init in ("pyi", "py+pyi"):
            d["__init__.pyi"] = "x"
        if init in PKG_MODES:
            d["__init__.py"] = draw(st.sampled_from(PKG_MODES[init]))
        names = draw(st.lists(st.sampled_from(NAME_POOL), unique=True, min_size=min_names, max_size=3))
        for n in names:
            forms = draw(st.lists(st.sampled_from(forms_sub), unique=True, min_size=1, max_size=3))
            for f in forms:
                if f == "py":
                    d[f"{n}.py"] = "x"
                elif f == "pyi":
                    d[f"{n}.pyi"] = "x"
                elif f == "dir":
                    if depth < max_depth:
                        sub_init = draw(st.sampled_from(inits_sub))
                        d[n] = draw(directory(depth + 1, sub_init))
                    else:
                        d[f"{n}.py"] = "x"
                elif f == "extn":
                    d[n + draw(st.sampled_from(NATIVE_EXT))] = "b"
                elif f == "extf":
                    d[n + draw(st.sampled_from(FOREIGN_EXT))] = "b"
                elif f == "pyc":
                    d[f"{n}.pyc"] = "b"
                elif f == "pyo":
                    d[f"{n}.pyo"] = "b"
                elif f == "txt":
                    d[f"{n}.txt"] = "t"
                elif f == "bare":
                    d.setdefault(n, "t")  # a regular file without suffix (never overrides a directory)
                elif f == "dotted":
                    d[f"{n}.x.py"] = "x"
                elif f == "bak":
                    d[f"{n}.py.bak"] = "x"
        extras = draw(st.lists(st.sampled_from(["pycache", "pycache", "typed", "readme"]), unique=True, max_size=2))
        for e in extras:
            if e == "pycache":
                n = draw(st.sampled_from(NAMES))
                cache = {f"{n}.{PYCACHE_TAG}.pyc": "b"}
                if draw(st.booleans()):
                    cache[f"{n}.py"] = "x"  # a decoy source file inside __pycache__
                d["__pycache__"] = cache
            elif e == "typed":
                d["py.typed"] = ""
            else:
                d["README.txt"] = "t"
        if d.get("__init__.py") in ("x", "") and draw(st.integers(0, 2)) == 0:
            # the package's own body defines / imports names, some of them equal to its sub-modules and sub-packages
            # (CPython's finders do not care; the sub-module must still be loaded at that dotted path)
            subs = sorted({k.split(".", 1)[0] for k, v in d.items() if (isinstance(v, dict) and k != "__pycache__") or k.endswith(".py")} - {"__init__"})
            subs = [n for n in subs if n.isidentifier() and n != "class"]
            chosen = draw(st.lists(st.sampled_from(subs + ["v", "w"]), unique=True, min_size=1, max_size=3))
            body = ["x = 1"]
            for n in chosen:
                form = draw(st.sampled_from(["attr", "attr", "func", "class", "import", "from"]))
                body.append({"attr": f"{n} = None", "func": f"def {n}(): ...", "class": f"class {n}: ...", "import": f"import os as {n}", "from": f"from os import path as {n}"}[form])
            d["__init__.py"] = "\n".join(body) + "\n"
        real_dirs = [k for k, v in d.items() if isinstance(v, dict) and k != "__pycache__"]
        if real_dirs and draw(st.integers(0, 3)) == 0:
            # a directory symlink to a sibling sub-package / namespace directory: one directory under two names
            # (never a loop: targets are siblings, never ancestors)
            free = [n for n in (*NAMES, *ODD_NAMES, "compat") if n not in d]
            if free:
                d[draw(st.sampled_from(free))] = LINK + draw(st.sampled_from(real_dirs))
        return d

    @st.composite
    def top_entry(draw, mode: str):
        """What one search path holds for the requested top-level name (possibly nothing)."""
        d: dict = {}
        if mode == "native":
            kinds = ["dir:none"] * 6 + ["dir:py", "dir:pyi", "py", "absent"]
        elif mode in PKG_MODES:
            kinds = [f"dir:{mode}"] * 6 + ["absent"]
        elif mode == "regular":
            kinds = ["dir:py"] * 5 + ["dir:py+pyi"] * 2 + ["dir:none", "dir:pyi", "py", "absent"]
        else:  # mixed
            kinds = ["dir:py", "dir:py+pyi", "dir:none", "dir:none", "dir:pyi", "py", "py", "pyi", "bare", "extn", "pyc", "absent"]
        k = draw(st.sampled_from(kinds))
        if k.startswith("dir:"):
            d[TOP] = draw(directory(1, k[4:], min_names=1))
            if mode == "mixed" and draw(st.integers(0, 5)) == 0:
                d[f"{TOP}.py"] = "x"  # same name as directory and as file in one search path
        elif k == "py":
            d[f"{TOP}.py"] = "x"
            if draw(st.integers(0, 2)) == 0:
                d[f"{TOP}.pyi"] = "x"
        elif k == "pyi":
            d[f"{TOP}.pyi"] = "x"
        elif k == "bare":
            d[TOP] = "t"
        elif k == "extn":
            d[TOP + draw(st.sampled_from(NATIVE_EXT))] = "b"
        elif k == "pyc":
            d[f"{TOP}.pyc"] = "b"
        if draw(st.integers(0, 3)) == 0:
            d[DECOY_TOP] = draw(directory(2, "py"))
        return d

    @st.composite
    def layout(draw):
        mode = draw(st.sampled_from(["regular"] * 3 + ["native"] * 4 + ["mixed"] * 3 + ["ku", "kr"]))
        npaths = draw(st.sampled_from([1, 2, 2, 2, 3, 3]))
        paths = [draw(top_entry(mode)) for _ in range(npaths)]
        extra = None
        pth = None
        if draw(st.integers(0, 3)) == 0:
            extra = draw(top_entry(mode))
            pth = {
                "host": draw(st.integers(0, npaths - 1)),
                "name": draw(st.sampled_from(["x.pth", "zz.pth"])),
                "pre": draw(st.lists(st.sampled_from(["# comment", "", "@missing"]), max_size=2)),
                "post": draw(st.lists(st.sampled_from(["# comment", "", "@missing"]), max_size=1)),
            }
        dirs = draw(st.permutations(SP_DIR_NAMES))[: npaths + 1]  # the last one names the .pth-added directory
        return {"paths": paths, "extra": extra, "pth": pth, "dirs": list(dirs)}

    return layout()


def orders():
    """Strategy of listing orders: 'sorted', 'reversed' or a permutation seed."""
    from hypothesis import strategies as st

    return st.one_of(st.sampled_from(["sorted", "reversed"]), st.integers(0, 7))


# ----------------------------------------------------------------------------------------------- materialise
def _write_tree(base: Path, tree: dict) -> None:
    base.mkdir(parents=True, exist_ok=True)
    for name, node in tree.items():
        if isinstance(node, dict):
            _write_tree(base / name, node)
        elif node.startswith(LINK):
            os.symlink(node[len(LINK) :], base / name, target_is_directory=True)
        else:
            (base / name).write_text(CONTENT.get(node, node), encoding="utf8")


def materialise(layout: dict, root: Path) -> list[Path]:
    """Write the layout under `root` (which must not exist yet) and return the search paths to pass."""
    root.mkdir(parents=True)
    paths = []
    names = layout.get("dirs") or [f"sp{i}" for i in range(len(layout["paths"]))] + ["extra"]
    for i, tree in enumerate(layout["paths"]):
        sp = root / names[i]
        _write_tree(sp, tree)
        paths.append(sp)
    pth = layout.get("pth")
    if pth is not None and layout.get("extra") is not None:
        extra = root / names[len(layout["paths"])]
        _write_tree(extra, layout["extra"])
        lines = []
        for tok in pth["pre"]:
            lines.append(str(root / "missing-dir") if tok == "@missing" else tok)
        lines.append(str(extra))
        for tok in pth["post"]:
            lines.append(str(root / "missing-dir") if tok == "@missing" else tok)
        (paths[pth["host"] % len(paths)] / pth["name"]).write_text("\n".join(lines) + "\n", encoding="utf8")
    return paths


_COUNTER = [0]


@contextlib.contextmanager
def case_dir(base: Path | None):
    """A fresh, unique directory for one case (unique so that no finder cache can go stale); removed afterwards."""
    import tempfile

    own = None
    if base is None:
        own = Path(tempfile.mkdtemp(prefix=f"verif-fs-{os.getpid()}-", dir="/dev/shm" if os.access("/dev/shm", os.W_OK) else None))
        base = own
    _COUNTER[0] += 1
    root = Path(base) / f"k{_COUNTER[0]}"
    shutil.rmtree(root, ignore_errors=True)
    try:
        yield root
    finally:
        shutil.rmtree(root, ignore_errors=True)
        if own is not None:
            shutil.rmtree(own, ignore_errors=True)
        purge_import_caches(str(root))


def purge_import_caches(prefix: str) -> None:
    for key in [k for k in sys.path_importer_cache if isinstance(k, str) and k.startswith(prefix)]:
        del sys.path_importer_cache[key]
    importlib.invalidate_caches()


# ----------------------------------------------------------------------------------------------- listing order
def _order_key(order):
    if order == "sorted":
        return lambda name: name
    if order == "reversed":
        return None
    salt = str(order)
    return lambda name: hashlib.sha1(f"{salt}:{name}".encode()).digest()


def permute(names: list, order) -> list:
    """The listing of a directory under an injected order (a pure function of the names and the order)."""
    names = sorted(names)
    if order == "reversed":
        names.reverse()
        return names
    return sorted(names, key=_order_key(order))


@contextlib.contextmanager
def listing_order(order):
    """Make `os.walk` and `Path.iterdir` (the enumeration primitives of `_griffe.finder`) list every directory in
    the given order. `order=None` leaves the operating system's order. Restored on exit."""
    if order is None:
        yield
        return
    real_walk = os.walk
    real_iterdir = pathlib.Path.iterdir

    def walk(top, topdown=True, onerror=None, followlinks=False):
        for root, dirs, files in real_walk(top, topdown=topdown, onerror=onerror, followlinks=followlinks):
            dirs[:] = permute(dirs, order)  # in place: with topdown=True this also fixes the descent order
            files[:] = permute(files, order)
            yield root, dirs, files

    def iterdir(self):
        children = {child.name: child for child in real_iterdir(self)}
        for name in permute(list(children), order):
            yield children[name]

    os.walk = walk
    pathlib.Path.iterdir = iterdir
    try:
        yield
    finally:
        os.walk = real_walk
        pathlib.Path.iterdir = real_iterdir


# ----------------------------------------------------------------------------------------------- CPython view
SOURCE_SUFFIXES = tuple(importlib.machinery.SOURCE_SUFFIXES)


class CPythonView:
    """What CPython's import system sees for dotted names under a list of search paths, without executing
    any module body: `PathFinder.find_spec` for importability/origin, `pkgutil.iter_modules` for the walker.

    The only piece of import-time behaviour that is emulated is the `__path__` of a pkgutil/pkg_resources-style
    namespace `__init__` (it is computed by executing the package): `pkgutil.extend_path` itself is called."""

    def __init__(self, search_paths: list[str], pkg_style_top: bool = False):
        self.search_paths = [str(p) for p in search_paths]
        self.pkg_style_top = pkg_style_top
        self._specs: dict[str, object] = {}

    # -- .pth handling: CPython's own `site.addsitedir`, run against a swapped `sys.path`
    @staticmethod
    def effective_search_paths(search_paths: list[Path]) -> list[str]:
        import site

        saved = sys.path[:]
        try:
            sys.path[:] = [str(p) for p in search_paths]
            known = {site.makepath(p)[1] for p in sys.path}
            for p in list(sys.path):
                site.addsitedir(p, known)
            return list(sys.path)
        finally:
            sys.path[:] = saved

    @staticmethod
    def _find(fullname: str, path: list[str]):
        """`PathFinder._get_spec` spelled with public API: the path-entry finders (`pkgutil.get_importer`, i.e.
        `sys.path_hooks`) are asked in order; the first real module wins, directories without `__init__` are
        collected as namespace portions. (PathFinder.find_spec itself cannot be used for nested names: its
        `_NamespacePath` wants the parent package in `sys.modules`.)  Returns (kind, origin, locations) | None."""
        portions: list[str] = []
        for entry in path:
            finder = pkgutil.get_importer(entry)
            if finder is None:
                continue
            spec = finder.find_spec(fullname)
            if spec is None:
                continue
            if spec.loader is not None:
                locs = spec.submodule_search_locations
                if locs is not None:
                    return ("pkg", spec.origin, list(locs))
                return ("mod", spec.origin, None)
            if spec.submodule_search_locations is None:  # pragma: no cover
                raise HarnessError(f"finder for {entry} returned a spec without loader and locations")
            portions.extend(spec.submodule_search_locations)
        if portions:
            return ("ns", None, portions)
        return None

    def spec(self, fullname: str):
        """(kind, origin, locations) or None. kind: 'ns' | 'pkg' | 'mod'. Parent packages are resolved first."""
        if fullname in self._specs:
            return self._specs[fullname]
        parent, _, _ = fullname.rpartition(".")
        if parent:
            pspec = self.spec(parent)
            if pspec is None or pspec[2] is None:
                self._specs[fullname] = None
                return None
            path = pspec[2]
        else:
            path = self.search_paths
        result = self._find(fullname, path)
        if not parent:
            self._cross_check_top(fullname, result)
            if result is not None and result[0] == "pkg" and self.pkg_style_top and result[1].endswith("__init__.py"):
                result = ("pkg", result[1], self._extend_path(result[2], fullname))
        self._specs[fullname] = result
        return result

    def _cross_check_top(self, name: str, result) -> None:
        """For top-level names the real `PathFinder.find_spec` is usable: it must agree with `_find`."""
        raw = importlib.machinery.PathFinder.find_spec(name, self.search_paths)
        if raw is None:
            got = None
        elif raw.loader is None:
            got = ("ns", None, list(raw.submodule_search_locations._path))
        elif raw.submodule_search_locations is not None:
            got = ("pkg", raw.origin, list(raw.submodule_search_locations))
        else:
            got = ("mod", raw.origin, None)
        if got != result:
            raise HarnessError(f"oracle self-check: PathFinder says {got}, path-entry loop says {result}")

    def _extend_path(self, locs: list[str], name: str) -> list[str]:
        saved = sys.path[:]
        try:
            sys.path[:] = self.search_paths
            return list(pkgutil.extend_path(list(locs), name))
        finally:
            sys.path[:] = saved

    def walk(self, top: str) -> dict[str, tuple[str, str | None, bool]]:
        """CPython's package walker (`pkgutil.walk_packages` without the imports): every module and regular
        sub-package found below `top`, as {dotted name: (kind, origin, compiled)}. Sub-packages whose `__init__`
        is not a source file are reported but not descended into."""
        found: dict[str, tuple[str, str | None, bool]] = {}
        tspec = self.spec(top)
        if tspec is None:
            return found
        found[top] = (tspec[0], tspec[1], _compiled(tspec[1]))
        if tspec[2] is None or _compiled(tspec[1]):
            return found

        def rec(prefix: str, locations: list[str]) -> None:
            for info in pkgutil.iter_modules(locations, prefix + "."):
                s = self.spec(info.name)
                if s is None:  # pragma: no cover - the walker and the finder disagree
                    raise HarnessError(f"pkgutil found {info.name} but PathFinder does not")
                if info.name in found:
                    continue
                found[info.name] = (s[0], s[1], _compiled(s[1]))
                if info.ispkg and s[2] is not None and not _compiled(s[1]):
                    rec(info.name, s[2])

        rec(top, tspec[2])
        return found


def _compiled(origin: str | None) -> bool:
    return origin is not None and not origin.endswith(SOURCE_SUFFIXES)


# ----------------------------------------------------------------------------------------------- Griffe view
def griffe_tree(top, root: Path | None = None) -> dict[str, dict]:
    """{dotted path by position in the tree: {"path", "file", "flags", "members"}} for every module object."""

    def rel(p) -> str:
        p = str(p)
        if root is not None and p.startswith(str(root) + os.sep):
            return p[len(str(root)) + 1 :]
        return p

    out: dict[str, dict] = {}

    def rec(mod, dotted: str) -> None:
        fp = mod._filepath
        flags = [
            name
            for name in ("is_package", "is_subpackage", "is_namespace_package", "is_namespace_subpackage", "is_init_module")
            if getattr(mod, name)
        ]
        others = []
        subs = []
        for name, member in mod.members.items():
            if member.is_alias:
                others.append(f"{name}@alias")
            elif member.kind.value == "module":
                subs.append((name, member))
            else:
                others.append(f"{name}:{member.kind.value}")
        out[dotted] = {
            "path": mod.path,
            "file": [rel(p) for p in fp] if isinstance(fp, list) else (rel(fp) if fp is not None else None),
            "flags": flags,
            "members": sorted(others),
        }
        for name, member in subs:
            rec(member, f"{dotted}.{name}")

    rec(top, top.name)
    return out


# ----------------------------------------------------------------------------------------------- features
def all_trees(layout: dict) -> list[dict]:
    """The search-path trees in effective search order (the .pth-added directory comes last)."""
    trees = list(layout["paths"])
    if layout.get("extra") is not None and layout.get("pth"):
        trees.append(layout["extra"])
    return trees


def _follow(parent: dict, node):
    """The directory a node stands for (follows a directory symlink to its sibling), or None for files."""
    if isinstance(node, str) and node.startswith(LINK):
        node = parent.get(node[len(LINK) :])
    return node if isinstance(node, dict) else None


def _subdir(tree: dict, rel: tuple):
    node = tree
    for name in rel:
        node = _follow(node, node.get(name))
        if node is None:
            return None
    return node


def pyi_only_collisions(layout: dict) -> list[tuple[int, tuple]]:
    """(tree index, relative directory) of every directory at or below the requested top-level name that holds
    `__init__.pyi` but no `__init__.py` while the same relative name also exists elsewhere: as a directory or a
    `.py` module in another search path, or as a `.py` module next to the directory."""
    trees = all_trees(layout)

    def present(tree: dict, rel: tuple, files_only: bool) -> bool:
        parent = _subdir(tree, rel[:-1])
        if parent is None:
            return False
        if f"{rel[-1]}.py" in parent:
            return True
        return not files_only and _follow(parent, parent.get(rel[-1])) is not None

    out = []
    for i, tree in enumerate(trees):
        if not isinstance(tree.get(TOP), dict):
            continue
        for rel, d in _walk_dirs(tree[TOP], (TOP,)):
            if "__init__.pyi" in d and "__init__.py" not in d:
                if any(present(other, rel, files_only=(j == i)) for j, other in enumerate(trees)):
                    out.append((i, rel))
    return out


def kf_tops(layout: dict) -> list[int]:
    """Indices of the trees whose top-level `__init__.py` uses the `from pkgutil import extend_path` spelling."""
    return [i for i, t in enumerate(all_trees(layout)) if isinstance(t.get(TOP), dict) and t[TOP].get("__init__.py") == "kf"]


def steer_kf(layout: dict) -> tuple[dict, int]:
    hits = kf_tops(layout)
    trees = all_trees(layout)
    for i in hits:
        trees[i][TOP]["__init__.py"] = "ku"
    return layout, len(hits)


def alias_named_like_initless_dir(layout: dict) -> list[tuple[int, tuple, str]]:
    """(tree index, relative directory, name) for every `__init__.py` body that imports a name (`import os as N`,
    `from os import path as N`) equal to a sub-directory of that package which has no `__init__.py`."""
    out = []
    for i, tree in enumerate(all_trees(layout)):
        if not isinstance(tree.get(TOP), dict):
            continue
        for rel, d in _walk_dirs(tree[TOP], (TOP,)):
            body = d.get("__init__.py")
            if not isinstance(body, str) or " as " not in body:
                continue
            for line in body.splitlines():
                if line.startswith(("import ", "from ")) and " as " in line:
                    name = line.rsplit(" as ", 1)[1].strip()
                    sub = _follow(d, d.get(name))
                    if sub is not None and "__init__.py" not in sub:
                        out.append((i, rel, name))
    return out


def steer_alias_named_like_initless_dir(layout: dict) -> tuple[dict, int]:
    hits = alias_named_like_initless_dir(layout)
    trees = all_trees(layout)
    for i, rel, name in hits:
        d = _subdir(trees[i], rel)
        d["__init__.py"] = "\n".join(f"{name} = None" if ln.endswith(f" as {name}") else ln for ln in d["__init__.py"].splitlines()) + "\n"
    return layout, len(hits)


def steer_pyi_only(layout: dict) -> tuple[dict, int]:
    """Give every colliding `__init__.pyi`-only directory an `__init__.py` (returns the new layout and how many)."""
    hits = pyi_only_collisions(layout)
    if not hits:
        return layout, 0
    import copy

    layout = copy.deepcopy(layout)
    trees = all_trees(layout)
    for i, rel in hits:
        d = _subdir(trees[i], rel)
        d["__init__.py"] = "x"
    return layout, len(hits)


def _walk_dirs(tree: dict, prefix: tuple = ()):
    """(relative name parts, directory) for the tree and every directory below it, under every name it can be
    reached by (directory symlinks are followed)."""
    yield prefix, tree
    for name, node in tree.items():
        sub = _follow(tree, node)
        if sub is not None:
            yield from _walk_dirs(sub, (*prefix, name))


def _modname(filename: str) -> str | None:
    if filename.endswith((".py", ".pyi")):
        stem = filename.rsplit(".", 1)[0]
        return stem if "." not in stem else None
    return None


def features(layout: dict) -> set[str]:
    """Structural labels of a layout (pure function of the model)."""
    f: set[str] = set()
    trees = list(layout["paths"]) + ([layout["extra"]] if layout.get("extra") is not None and layout.get("pth") else [])
    f.add(f"paths:{len(layout['paths'])}")
    used = (layout.get("dirs") or [])[: len(trees)]
    if any(a != b and b.startswith(a) and i < j for i, a in enumerate(used) for j, b in enumerate(used)):
        f.add("search-path-name-is-prefix-of-a-later-one")
    if layout.get("pth"):
        f.add("pth")
    tops = [t for t in trees if TOP in t or f"{TOP}.py" in t]
    if len(tops) >= 2:
        f.add("shared-top")
    top_dirs = [t[TOP] for t in trees if isinstance(t.get(TOP), dict)]
    ns_tops = [d for d in top_dirs if "__init__.py" not in d or d["__init__.py"] in PKG_STYLE]
    if len(ns_tops) >= 2:
        f.add("ns-several-portions")
    if any(d.get("__init__.py") in PKG_STYLE for d in top_dirs):
        f.add("pkg-style-ns")
    for t in trees:
        if isinstance(t.get(TOP), dict) and f"{TOP}.py" in t:
            f.add("file+dir")
        if isinstance(t.get(TOP), str):
            f.add("top-bare-file")
    # the same relative module name in several portions of the top-level directory
    seen_rel: dict[tuple, int] = {}
    for d in top_dirs:
        names_here = set()
        for prefix, sub in _walk_dirs(d):
            for name, node in sub.items():
                if _follow(sub, node) is not None:
                    if name != "__pycache__":
                        names_here.add((*prefix, name))
                else:
                    m = _modname(name)
                    if m and m != "__init__":
                        names_here.add((*prefix, m))
        for r in names_here:
            seen_rel[r] = seen_rel.get(r, 0) + 1
    if any(v >= 2 for v in seen_rel.values()):
        f.add("same-name-in-several-portions")
    for t in trees:
        for prefix, sub in _walk_dirs(t):
            inside_top = bool(prefix) and prefix[0] == TOP
            if not inside_top:
                continue
            regular = "__init__.py" in sub and sub["__init__.py"] not in PKG_STYLE
            body = sub.get("__init__.py", "")
            if isinstance(body, str) and "\n" in body and body not in CONTENT.values():
                defined = {ln.split("(")[0].split(":")[0].split()[-1] if ln.startswith(("def ", "class ")) else ln.split(" = ")[0] if " = " in ln else ln.split()[-1] for ln in body.splitlines()[1:]}
                if any(n in sub or f"{n}.py" in sub for n in defined):
                    f.add("init-member-named-like-submodule")
                else:
                    f.add("init-defines-members")
            for name, node in sub.items():
                stem = name.split(".", 1)[0]
                if isinstance(node, str) and node.startswith(LINK):
                    node = _follow(sub, node)
                    if node is None:
                        continue
                    f.add("dir-symlink:" + ("package" if "__init__.py" in node else "namespace-dir"))
                if stem in ODD_NAMES and (isinstance(node, dict) or name == f"{stem}.py"):
                    f.add("name:" + {"0a": "digit-first", "a-b": "dash", "class": "keyword"}.get(stem, "non-ascii") + (":dir" if isinstance(node, dict) else ":module"))
                if isinstance(node, dict):
                    if name == "__pycache__":
                        f.add("pycache")
                        if any(k.endswith(".py") for k in node):
                            f.add("pycache-source-decoy")
                        continue
                    if f"{name}.py" in sub:
                        f.add("file+dir")
                    has_init = "__init__.py" in node
                    if not has_init and "__init__.pyi" in node:
                        f.add("pyi-only-dir")
                    if not has_init and regular:
                        f.add("initless-in-regular")
                    if not has_init and not regular and len(prefix) >= 1:
                        f.add("nested-ns")
                    if has_init and "__init__.pyi" in node:
                        f.add("init-py+pyi")
                elif name.endswith(".pyi") and name[:-1] in sub:
                    f.add("pyi-sibling")
                elif name.endswith(".pyi") and name != "__init__.pyi":
                    f.add("pyi-alone")
                elif name.endswith(NATIVE_EXT[0]) or name.endswith(".abi3.so") or (name.endswith(".so") and name.count(".") == 1):
                    f.add("ext-native")
                elif name.endswith((".so", ".pyd")):
                    f.add("ext-foreign")
                elif name.endswith((".pyc", ".pyo")):
                    f.add("bytecode")
                elif name.endswith(".x.py"):
                    f.add("dotted-name")
                elif "." not in name:
                    f.add("bare-file")
    return f
