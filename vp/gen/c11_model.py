"""C11 — package model, renderer, public-frontier reference model and edit catalogue.

Everything here is pure Python over JSON-able dicts; nothing imports Griffe.

raw case (what Hypothesis generates, index based so that every reference is valid by construction)
    --build()-->  concrete model {"order": [module paths], "mods": {path: module}}
    --render()--> {relative file path: text}
    --Pkg(model)  reference model: alias resolution, MRO, all_members, public frontier ("sure" = public under the
                  documented table AND the code comments, "maybe" = public under either reading), dependency closure
    --apply_script(model, raw_script) --> (new model, [edit records])

Concrete member nodes
    {"k": "func", "name", "sig", "doc"}              def name(sig): <docstring "doc N">
    {"k": "attr", "name", "val"}                     name = val   (val: source text from VALUES)
    {"k": "cls",  "name", "bases": [names], "doc", "body": [func|attr|nested cls nodes]}
    {"k": "star", "name": "*<src with />", "src"}     from src import *     (expanded by Pkg into virtual "imp" entities)
Module: {"pkg", "doc", "all": None | [names] (may be EMPTY: declared, exports nothing), "all_form", "all_src", "body"}
    {"k": "imp",  "name", "src", "tgt", "rel"?}      from src import tgt as name      (target path = src.tgt; rel: spelled relatively)
"""

from __future__ import annotations

import copy

ROOT = "pk"
MOD_NAMES = ("sub", "mod", "util", "api", "_impl", "_core")
DEF_NAMES = ("f", "g", "h", "v", "w", "_pf", "_pv", "__dv__")
CLS_NAMES = ("K", "L", "M", "_B", "_Q")
MEM_NAMES = ("m", "n", "x", "y", "_pm", "__cp", "__call__")
NEST_NAMES = ("N", "_H")
CIMP_NAMES = ("ci1", "ci2")  # local names of imports written inside a class body
ALIAS_NAMES = ("a1", "a2", "_a3", "s1", "s2")
FUNC_SIGS = ("", "a", "a, b=1", "a, *args", "a, **kw", "*, k=1", "a, /, b=2", "a, b=1, *, k=2")
METH_SIGS = ("self", "self, a", "self, a=1", "self, *args, **kw", "self, a, *, k=1")
# attribute values (source text): literals are stored by Griffe as strings, everything else as expression objects
VALUES = (
    "0", "1", "2", "3", "'memory'", "None", "True", "30",            # constants
    "-1", "1 + 2", "not 0",                                           # operators
    "[3]", "[]", "(1, 2)", "{'k': 1}", "{3}", "[3, [4]]",             # containers
    "int('30')", "dict(a=1)", "max(30, 3)", "int('3')",               # calls
    "len", "int", "NotImplemented",                                   # names
    "str.lower", "object.__name__", "int.real.__doc__",               # attribute chains
    "sorted([3]).copy()", "[x for x in (1, 2)]", "lambda: 0", "(1, 2)[0]", "3 if True else 4",
)  # fmt: skip


def value_text(index: int) -> str:
    return VALUES[index % len(VALUES)]


def value_nature(text: str) -> str:
    """'lit' (a constant: Griffe keeps its repr as a string) or 'expr' (kept as an expression object)."""
    import ast

    return "lit" if isinstance(ast.parse(text, mode="eval").body, ast.Constant) else "expr"


EXT_MOD = "ext_missing_zz"
DYN_NAME = "zz_dyn"


def is_private_name(name: str) -> bool:
    """`_x` / `__x` but not `__x__` (documented: special names are public)."""
    return name.startswith("_") and not (name.startswith("__") and name.endswith("__"))


# --------------------------------------------------------------------------------------------- build
def build(raw: dict) -> dict:
    """Normalise a raw (index based) package description into a concrete, well-formed model."""
    rmods = raw["mods"]
    # ---- module tree (depth <= 3 components below nothing: pk, pk.x, pk.x.y)
    paths: list[str | None] = []
    for i, rm in enumerate(rmods):
        if i == 0:
            paths.append(ROOT)
            continue
        p = rm.get("parent", 0) % i
        while paths[p] is None:
            p -= 1
        if paths[p].count(".") >= 1:  # parent already at depth 2 -> attach to its parent
            p = paths.index(paths[p].rsplit(".", 1)[0])
        path = f"{paths[p]}.{MOD_NAMES[rm['name'] % len(MOD_NAMES)]}"
        paths.append(None if path in paths else path)
    order = [p for p in paths if p is not None]
    raw_of = {p: rmods[i] for i, p in enumerate(paths) if p is not None}
    children = {p: [q for q in order if q.rsplit(".", 1)[0] == p and q != p] for p in order}

    # ---- phase 0: explicitly named members per module (deduplicated), imports with explicit names
    named: dict[str, list[str]] = {}
    for p in order:
        seen: list[str] = []
        for rmem in raw_of[p]["body"]:
            nm = _raw_name(rmem)
            if rmem["k"] != "star" and nm is not None and nm not in seen:
                seen.append(nm)
        named[p] = seen

    # ---- phase 1: concrete bodies (bases still raw)
    mods: dict[str, dict] = {}
    injected: list[tuple[str, dict, bool]] = []
    for p in order:
        rm = raw_of[p]
        body: list[dict] = []
        exported: list[str] = []
        names: set[str] = set()
        for rmem in rm["body"]:
            node = _concrete(rmem, p, order, named, children)
            if node is None or node["name"] in names:
                continue
            names.add(node["name"])
            body.append(node)
            if rmem.get("exp"):
                exported.append(node["name"])
            if rmem["k"] == "imp" and rmem.get("form") in ("cycle", "modcycle"):
                injected.append((p, node, bool(rmem.get("exp"))))
        mods[p] = {"pkg": p == ROOT or bool(children[p]), "doc": rm.get("doc", 0), "all": None, "body": body, "_exp": exported}
    # cycle partners: the module imported from imports the same name back (unless it already binds that name)
    for p, node, exp in injected:
        if node.pop("_modcycle", False):
            # node in p: from <parent of other> import <other> as name; partner in other: from <parent of p> import <p> as name
            other = f"{node['src']}.{node['tgt']}"
            if other not in mods or p == ROOT or other == p:
                continue
            partner = {"k": "imp", "name": node["name"], "src": p.rsplit(".", 1)[0], "tgt": p.rsplit(".", 1)[1]}
        else:
            node.pop("_cycle", None)
            other = node["src"]
            if other not in mods:
                continue
            partner = {"k": "imp", "name": node["tgt"], "src": p, "tgt": node["name"]}
        if all(m["name"] != partner["name"] for m in mods[other]["body"]):
            mods[other]["body"].append(partner)
            if exp:
                mods[other]["_exp"].append(partner["name"])
    for p in order:
        for m in mods[p]["body"]:
            m.pop("_modcycle", None)
            m.pop("_cycle", None)

    # ---- __all__ (own names first; names provided by wildcard imports are added below)
    for p in order:
        spec = raw_of[p].get("all")
        mod = mods[p]
        exp = mod.pop("_exp")
        if spec is None:
            continue
        if "empty" in spec:
            # declared but empty: the module exports nothing, every member is private
            mod["all"] = []
            mod["all_form"] = spec["empty"]
            mod["_all_src"] = spec.get("src", 0)
            continue
        names_ = [m["name"] for m in mod["body"] if m["k"] != "star"]
        chosen = [n for i, n in enumerate(names_) if (spec["bits"] >> (i % 16)) & 1 or n in exp]
        subs = spec.get("subs", "public")
        if subs != "none":
            chosen += [c.rsplit(".", 1)[1] for c in children[p] if subs == "all" or not c.rsplit(".", 1)[1].startswith("_")]
        if not chosen and names_:
            chosen = [names_[0]]
        mod["all"] = chosen or None
        if mod["all"]:
            mod["all_form"] = spec.get("form", "list")
            mod["_stars"] = spec.get("stars", True)
    # lazy-loading layout: a re-export listed in __all__ may be imported under `if TYPE_CHECKING:` only (public because
    # listed; Griffe marks it runtime=False).  Never for names that are not listed: their publicness is not documented.
    for p in order:
        for m in mods[p]["body"]:
            if m.pop("_tc", False) and m["k"] == "imp" and mods[p]["all"] and m["name"] in mods[p]["all"]:
                m["tc"] = True

    # an empty __all__ assembled from another module's empty __all__
    for p in order:
        mod = mods[p]
        pick = mod.pop("_all_src", None)
        if mod.get("all_form") == "from":
            srcs = [q for q in order if q != p and mods[q]["all"] == [] and mods[q].get("all_form") != "from"]
            if srcs:
                mod["all_src"] = srcs[pick % len(srcs)]
            else:
                mod["all_form"] = "list"

    model = {"order": order, "mods": mods}

    # ---- phase 2: bases (acyclic by construction: a base is a class strictly earlier in (module order, position))
    pkg = Pkg(_without_stars(model))
    rank: dict[str, tuple[int, int]] = {}
    for mi, p in enumerate(order):
        for bi, m in enumerate(mods[p]["body"]):
            if m["k"] == "cls":
                # the root package ranks last: it may derive from classes of every other module
                rank[f"{p}.{m['name']}"] = ((mi - 1) % len(order), bi)
    for p in order:
        for m in mods[p]["body"]:
            if m["k"] != "cls":
                continue
            me = f"{p}.{m['name']}"
            raw_bases = m.pop("_rawbases", [])
            cands = []
            for other in mods[p]["body"]:
                if other is m:
                    continue
                ep = f"{p}.{other['name']}"
                if other["k"] == "cls" and rank[ep] < rank[me]:
                    cands.append(other["name"])
                elif other["k"] == "imp":
                    fin = pkg.final(ep)
                    if fin is None and other["src"] == EXT_MOD:
                        cands.append(other["name"])  # external (unloadable) base: ignored by the MRO
                    elif fin is not None and pkg.kind(fin) == "cls" and rank[fin] < rank[me]:
                        cands.append(other["name"])
            foreign = sorted(c for c in rank if rank[c] < rank[me] and pkg.module_of(c) != p)
            for rb in raw_bases:
                name = None
                # a further base with the SAME short name as a base already chosen, from another module
                # (class Client(sync.Transport, aio.Transport)): preferred when one exists
                shorts = set()
                for b in m["bases"]:
                    fin = pkg.final(f"{p}.{b}")
                    if fin is not None:
                        shorts.add((fin.rsplit(".", 1)[1], fin))
                twins = [c for c in foreign if any(c.rsplit(".", 1)[1] == sn and c != fin for sn, fin in shorts)]
                if twins or (foreign and (not cands or rb % 2)):
                    # derive from a class of another module: import it (not exported) unless it is already in scope
                    pool_ = twins or foreign
                    fc = pool_[(rb // 2) % len(pool_)]
                    fmod, fname = fc.rsplit(".", 1)
                    have = [o["name"] for o in mods[p]["body"] if o["k"] == "imp" and o["src"] == fmod and o["tgt"] == fname]
                    local = fname
                    if any(o["name"] == fname for o in mods[p]["body"]) or f"{p}.{fname}" in pkg.ent:
                        local = f"{fname}_{fmod.rsplit('.', 1)[-1].strip('_')}"  # from pk.b import K as K_b
                    if have:
                        name = have[0]
                    elif all(o["name"] != local for o in mods[p]["body"]) and f"{p}.{local}" not in pkg.ent:
                        mods[p]["body"].insert(0, {"k": "imp", "name": local, "src": fmod, "tgt": fname})
                        name = local
                if name is None:
                    if not cands:
                        continue
                    name = cands[rb % len(cands)]
                if name in m["bases"]:
                    continue
                m["bases"].append(name)
                pkg = Pkg(_without_stars(model))
                if pkg.mro(me) is None:  # inconsistent C3: not a class CPython could create
                    m["bases"].pop()
                    pkg = Pkg(_without_stars(model))

    # ---- wildcard imports: only in modules that declare __all__ (there the publicness of the provided names is
    # documented: listed or not), only from modules later in the order (acyclic), never colliding with a bound name
    for p in reversed(order):
        mod = mods[p]
        stars = [m for m in mod["body"] if m["k"] == "star"]
        if not stars:
            mod.pop("_stars", None)
            continue
        pkg = Pkg({"order": order, "mods": {q: {**mods[q], "body": [m for m in mods[q]["body"] if q != p or m["k"] != "star"]} for q in order}})
        bound = {m["name"] for m in mod["body"]} | {c.rsplit(".", 1)[1] for c in children[p]}
        srcs_seen: set[str] = set()
        for st_ in stars:
            src = st_["src"]
            ok = mod["all"] is not None and src != p and order.index(src) > order.index(p) and src not in srcs_seen
            names = pkg.star_names(src) if ok else []
            if not ok or not names or any(n in bound for n in names):
                mod["body"].remove(st_)
                continue
            srcs_seen.add(src)
            bound.update(names)
            if mod["all"] and mod.get("_stars", True):
                mod["all"] += [n for n in names if n not in mod["all"]]
        mod.pop("_stars", None)

    model = {"order": order, "mods": mods}
    return model


def _without_stars(model: dict) -> dict:
    """View of the model without wildcard imports (bodies are copies, member nodes are shared)."""
    return {
        "order": model["order"],
        "mods": {q: {**m, "body": [x for x in m["body"] if x["k"] != "star"]} for q, m in model["mods"].items()},
    }


def _raw_name(rmem: dict) -> str | None:
    k = rmem["k"]
    n = rmem.get("name")
    if k in ("func", "attr"):
        return DEF_NAMES[n % len(DEF_NAMES)]
    if k == "cls":
        return CLS_NAMES[n % len(CLS_NAMES)]
    if k == "imp":
        if n is None:
            return None
        return ALIAS_NAMES[n % len(ALIAS_NAMES)]
    if k == "star":
        return None
    raise ValueError(k)


def _concrete(rmem: dict, p: str, order: list[str], named: dict, children: dict) -> dict | None:
    k = rmem["k"]
    if k == "func":
        return {"k": "func", "name": _raw_name(rmem), "sig": FUNC_SIGS[rmem.get("sig", 0) % len(FUNC_SIGS)], "doc": rmem.get("doc", 0)}
    if k == "attr":
        return {"k": "attr", "name": _raw_name(rmem), "val": value_text(rmem.get("val", 0))}
    def class_body(raw_body: list) -> list:
        body = []
        seen = set()
        for rm in raw_body:
            if rm["k"] == "ncls":
                nm = NEST_NAMES[rm["name"] % len(NEST_NAMES)]
                if nm not in seen:
                    seen.add(nm)
                    inner = class_body([x for x in rm.get("body", []) if x["k"] != "ncls"])
                    body.append({"k": "cls", "name": nm, "bases": [], "doc": 0, "body": inner})
                continue
            if rm["k"] == "cimp":
                # import statement inside the class body: imported, hence not public (documented for class-level objects)
                nm = CIMP_NAMES[rm["name"] % len(CIMP_NAMES)]
                node = _concrete_import({"k": "imp", "name": None, "mod": rm.get("mod", 0), "pick": rm.get("pick", 0), "form": rm.get("form", "name")}, p, order, named)
                if nm not in seen and node is not None:
                    seen.add(nm)
                    node["name"] = nm
                    body.append(node)
                continue
            nm = MEM_NAMES[rm["name"] % len(MEM_NAMES)]
            if nm in seen:
                continue
            seen.add(nm)
            if rm["k"] == "meth":
                body.append({"k": "func", "name": nm, "sig": METH_SIGS[rm.get("sig", 0) % len(METH_SIGS)], "doc": rm.get("doc", 0)})
            else:
                body.append({"k": "attr", "name": nm, "val": value_text(rm.get("val", 0))})
        return body

    if k == "cls":
        body = class_body(rmem.get("body", []))
        return {"k": "cls", "name": _raw_name(rmem), "bases": [], "_rawbases": list(rmem.get("bases", [])), "doc": rmem.get("doc", 0), "body": body}
    if k == "star":
        others = [q for q in order if q != p]
        if not others:
            return None
        src = others[rmem.get("mod", 0) % len(others)]
        return {"k": "star", "name": "*" + src.replace(".", "/"), "src": src}
    # imports
    node = _concrete_import(rmem, p, order, named)
    if node is not None and rmem.get("rel") and node["src"] != EXT_MOD:
        node["rel"] = True
    if node is not None and rmem.get("tc"):
        node["_tc"] = True
    return node


def _concrete_import(rmem: dict, p: str, order: list[str], named: dict) -> dict | None:
    form = rmem.get("form", "name")
    others = [q for q in order if q != p] or [p]
    src = others[rmem.get("mod", 0) % len(others)]
    local = _raw_name(rmem)
    if form == "missing_mod":
        return {"k": "imp", "name": local or "thing", "src": EXT_MOD, "tgt": "thing"}
    if form == "missing_name":
        return {"k": "imp", "name": local or DYN_NAME, "src": src, "tgt": DYN_NAME}
    if form in ("module", "modcycle"):
        if src == ROOT:
            return None
        node = {"k": "imp", "name": local or "s1", "src": src.rsplit(".", 1)[0], "tgt": src.rsplit(".", 1)[1]}
        if form == "modcycle":
            node["_modcycle"] = True
        return node
    if form == "cycle":
        nm = local or "a1"
        return {"k": "imp", "name": nm, "src": src, "tgt": nm, "_cycle": True}
    # form == "name": pick one of the explicitly named members of the source module
    cands = named[src]
    pref = rmem.get("prefer", "any")
    if pref != "any":
        sub = [n for n in cands if (n in CLS_NAMES) == (pref == "cls") and (n in ALIAS_NAMES) == (pref == "imp")]
        cands = sub or cands
    if not cands:
        return {"k": "imp", "name": local or DYN_NAME, "src": src, "tgt": DYN_NAME}
    tgt = cands[rmem.get("pick", 0) % len(cands)]
    return {"k": "imp", "name": local or tgt, "src": src, "tgt": tgt}


# --------------------------------------------------------------------------------------------- render
def _relative_source(src: str, importer: str, importer_is_pkg: bool) -> str | None:
    """Spelling of absolute module path `src` as a relative import source inside module `importer`."""
    base = importer if importer_is_pkg else importer.rsplit(".", 1)[0]
    level = 1
    while not (src == base or src.startswith(base + ".")):
        if "." not in base:
            return None
        base = base.rsplit(".", 1)[0]
        level += 1
    return "." * level + src[len(base) + 1 :]


def _render_member(m: dict, indent: str = "", where: tuple[str, bool] | None = None) -> list[str]:
    k = m["k"]
    if k == "func":
        out = [f"{indent}def {m['name']}({m['sig']}):"]
        if m.get("doc"):
            out.append(f'{indent}    """doc {m["doc"]}"""')
        out.append(f"{indent}    return {m.get('doc', 0)}")
        return out
    if k == "attr":
        return [f"{indent}{m['name']} = {m['val']}"]
    if k == "star":
        return [f"{indent}from {m['src']} import *"]
    if k == "imp":
        as_ = "" if m["name"] == m["tgt"] else f" as {m['name']}"
        src = m["src"]
        if m.get("rel") and where is not None:
            src = _relative_source(src, *where) or src
        if m.get("tc"):
            return [f"{indent}if TYPE_CHECKING:", f"{indent}    from {src} import {m['tgt']}{as_}"]
        return [f"{indent}from {src} import {m['tgt']}{as_}"]
    if k == "cls":
        bases = f"({', '.join(m['bases'])})" if m["bases"] else ""
        out = [f"{indent}class {m['name']}{bases}:"]
        if m.get("doc"):
            out.append(f'{indent}    """doc {m["doc"]}"""')
        for sub in m["body"]:
            out += _render_member(sub, indent + "    ")
        if not m["body"] and not m.get("doc"):
            out.append(f"{indent}    pass")
        return out
    raise ValueError(k)


def _render_all(mod: dict) -> list[str]:
    names = [repr(n) for n in mod["all"]]
    form = mod.get("all_form", "list")
    if form == "tuple":
        return ["__all__ = (" + ", ".join(names) + ("," if len(names) == 1 else "") + ")"]
    if form == "aug":
        # __all__ built in two steps with +=
        k = len(names) // 2
        return ["__all__ = [" + ", ".join(names[:k]) + "]", "__all__ += [" + ", ".join(names[k:]) + "]"]
    if form == "from" and not names and mod.get("all_src"):
        # assembled from another module's (empty) __all__
        return [f"from {mod['all_src']} import __all__ as _zz_all", "__all__ = [*_zz_all]"]
    return ["__all__ = [" + ", ".join(names) + "]"]


def render(model: dict) -> dict[str, str]:
    files: dict[str, str] = {}
    for p in model["order"]:
        mod = model["mods"][p]
        lines: list[str] = []
        if mod.get("doc"):
            lines.append(f'"""module doc {mod["doc"]}"""')
        if any(m.get("tc") for m in mod["body"]):
            lines.append("from typing import TYPE_CHECKING")
        for m in mod["body"]:
            lines += _render_member(m, where=(p, mod["pkg"]))
        if mod["all"] is not None:
            lines += _render_all(mod)
        rel = p.replace(".", "/")
        files[f"{rel}/__init__.py" if mod["pkg"] else f"{rel}.py"] = "\n".join(lines) + "\n"
    return files


# --------------------------------------------------------------------------------------------- reference model
def c3_merge(seqs: list[list[str]]) -> list[str] | None:
    seqs = [list(s) for s in seqs if s]
    out: list[str] = []
    while seqs:
        for s in seqs:
            head = s[0]
            if not any(head in t[1:] for t in seqs):
                break
        else:
            return None
        out.append(head)
        seqs = [[x for x in s if x != head] for s in seqs]
        seqs = [s for s in seqs if s]
    return out


def is_blocked(path: str, blocked) -> bool:
    """`path` is one of the blocked entities or lies inside one."""
    return any(path == b or path.startswith(b + ".") for b in blocked)


class Pkg:
    """Reference semantics of a concrete model."""

    def __init__(self, model: dict):
        self.model = model
        self.ent: dict[str, tuple[str, dict, str | None]] = {}  # path -> (kind, node, parent path)
        self.kids: dict[str, list[str]] = {}  # container path -> ordered child paths
        for p in model["order"]:
            mod = model["mods"][p]
            parent = p.rsplit(".", 1)[0] if "." in p else None
            self.ent[p] = ("module", mod, parent)
            self.kids.setdefault(p, [])
            if parent is not None:
                self.kids.setdefault(parent, [])
        def index_class(ep: str, node: dict) -> None:
            self.kids[ep] = []
            for sub in node["body"]:
                sp = f"{ep}.{sub['name']}"
                self.ent[sp] = (sub["k"], sub, ep)
                self.kids[ep].append(sp)
                if sub["k"] == "cls":
                    index_class(sp, sub)

        for p in model["order"]:
            mod = model["mods"][p]
            for m in mod["body"]:
                if m["k"] == "star":
                    continue
                ep = f"{p}.{m['name']}"
                self.ent[ep] = (m["k"], m, p)
                self.kids[p].append(ep)
                if m["k"] == "cls":
                    index_class(ep, m)
        # wildcard imports become virtual import entities; sources come later in the order, so they are expanded first
        self.star_sources: set[str] = set()
        for p in reversed(model["order"]):
            for m in model["mods"][p]["body"]:
                if m["k"] != "star":
                    continue
                self.star_sources.add(m["src"])
                for n in self.star_names(m["src"]):
                    ep = f"{p}.{n}"
                    if ep in self.ent:
                        continue
                    self.ent[ep] = ("imp", {"k": "imp", "name": n, "src": m["src"], "tgt": n, "virtual": True}, p)
                    self.kids[p].append(ep)
        for p in model["order"]:
            if "." in p:
                self.kids[p.rsplit(".", 1)[0]].append(p)

    def star_names(self, src: str) -> list[str]:
        """Names `from src import *` provides (is_wildcard_exposed): the members listed in src's __all__ when it declares
        one, else every member (own, imported or itself provided by a wildcard; not sub-modules) without a leading underscore."""
        if src not in self.ent or self.ent[src][0] != "module":
            return []
        allv = self.ent[src][1]["all"]
        if allv is not None:
            out = []
            for n in allv:
                if n not in out and f"{src}.{n}" in self.ent and not self.ent[f"{src}.{n}"][1].get("tc"):
                    out.append(n)  # is_wildcard_exposed: listed and available at runtime (not type-guarded)
            return out
        return [self.ent[k][1]["name"] for k in self.kids[src] if self.ent[k][0] != "module" and not self.ent[k][1]["name"].startswith("_")]

    # ---- basic
    def kind(self, path: str) -> str | None:
        e = self.ent.get(path)
        return e[0] if e else None

    def module_of(self, path: str) -> str:
        while self.ent[path][0] != "module":
            path = self.ent[path][2]
        return path

    def final(self, path: str, blocked=frozenset(), chain: list | None = None) -> str | None:
        """Follow an import chain to a non-alias entity; None if unresolvable, cyclic or routed through `blocked`."""
        seen = set()
        while True:
            if blocked and is_blocked(path, blocked):
                return None
            e = self.ent.get(path)
            if e is None:
                return None
            if chain is not None:
                chain.append(path)
            if e[0] != "imp":
                return path
            if path in seen:
                return None
            seen.add(path)
            path = f"{e[1]['src']}.{e[1]['tgt']}"

    def alias_status(self, path: str) -> str:
        """'ok' | 'unresolvable' | 'cyclic' for an import entity."""
        seen = set()
        while True:
            e = self.ent.get(path)
            if e is None:
                return "unresolvable"
            if e[0] != "imp":
                return "ok"
            if path in seen:
                return "cyclic"
            seen.add(path)
            path = f"{e[1]['src']}.{e[1]['tgt']}"

    def base_entities(self, cpath: str, blocked=frozenset(), chain: list | None = None) -> list[str] | None:
        """Resolved base classes of a class, in order; None if a base is routed through `blocked`."""
        mp = self.module_of(cpath)
        out = []
        for name in self.ent[cpath][1]["bases"]:
            sp = f"{mp}.{name}"
            if sp not in self.ent:
                continue
            ch: list = []
            fin = self.final(sp, blocked, ch)
            if chain is not None:
                chain.extend(ch)
            if fin is None:
                if blocked and (is_blocked(sp, blocked) or any(is_blocked(c, blocked) for c in ch)):
                    return None
                continue
            if self.ent[fin][0] == "cls":
                out.append(fin)
        return out

    def mro(self, cpath: str, blocked=frozenset(), _stack: tuple = ()) -> list[str] | None:
        """C3 linearisation including the class itself; None when impossible (cycle / inconsistent / blocked)."""
        if cpath in _stack:
            return None
        bases = self.base_entities(cpath, blocked)
        if bases is None:
            return None
        seqs = []
        for b in bases:
            if blocked and is_blocked(b, blocked):
                return None
            sub = self.mro(b, blocked, (*_stack, cpath))
            if sub is None:
                return None
            seqs.append(sub)
        merged = c3_merge([*seqs, list(bases)])
        if merged is None:
            return None
        return [cpath, *merged]

    def all_members(self, cpath: str, blocked=frozenset(), no_inherit=frozenset()) -> dict[str, str]:
        """name -> owning entity path (own members first, then first class in the MRO that has it)."""
        out = {self.ent[k][1]["name"]: k for k in self.kids[cpath]}
        if cpath in no_inherit:
            return out
        mro = self.mro(cpath, blocked)
        if mro is None:
            return out
        if any(b in no_inherit for b in mro[1:]):
            return out
        for b in mro[1:]:
            for k in self.kids[b]:
                out.setdefault(self.ent[k][1]["name"], k)
        return out

    # ---- publicness (decision table of docs/guide/users/navigating.md + is_public docstring)
    def member_public(self, container: str, child: str, variant: str) -> bool:
        ckind = self.ent[container][0]
        kind, node, _ = self.ent[child]
        name = child.rsplit(".", 1)[1] if kind == "module" else node["name"]
        if ckind == "cls":
            return not is_private_name(name)
        allv = self.ent[container][1]["all"]
        if kind == "module":
            # code comment: "Modules are not subject to the __all__ convention, only the underscore prefix one";
            # documented table: listed in __all__, or no __all__ and not a private name.  sure = both, maybe = either.
            code = (not name.startswith("_")) or (bool(allv) and name in allv)
            docs = (name in allv) if allv is not None else not is_private_name(name)
            return (code and docs) if variant == "sure" else (code or docs)
        if allv is not None:
            return name in allv
        return not is_private_name(name) and kind != "imp"

    def frontier(self, variant: str = "sure", blocked=frozenset(), no_inherit=frozenset()) -> "Frontier":
        return Frontier(self, variant, blocked, no_inherit)

    def relevant(self) -> set[str]:
        """Everything the (liberal) public surface can observe: publicly reached entities, alias chains, the whole
        MRO of reached classes with all their members and the names/aliases their bases go through, and all
        containers of those."""
        fr = self.frontier("maybe")
        rel = set(fr.tags) | set(fr.chain)
        for c in list(fr.tags):
            if self.kind(c) != "cls":
                continue
            todo = [c]
            seen = set()
            while todo:
                k = todo.pop()
                if k in seen:
                    continue
                seen.add(k)
                rel.add(k)
                # members with a private name (and everything below them) are invisible in the class and in every
                # subclass under both readings of the table
                sub = [x for x in self.kids[k]]
                while sub:
                    x = sub.pop()
                    if is_private_name(self.ent[x][1]["name"]) or self.ent[x][0] == "imp":
                        continue
                    rel.add(x)
                    sub.extend(self.kids.get(x, ()))
                ch: list = []
                bases = self.base_entities(k, chain=ch) or []
                rel.update(ch)
                mp = self.module_of(k)
                rel.update(f"{mp}.{n}" for n in self.ent[k][1]["bases"] if f"{mp}.{n}" in self.ent)
                todo.extend(bases)
        for e in list(rel):
            while e in self.ent and self.ent[e][2] is not None:
                e = self.ent[e][2]
                rel.add(e)
        return rel

    def base_used(self) -> set[str]:
        """Entities some class statement depends on for its bases (scope names, alias chains, base classes)."""
        used: set[str] = set()
        for path, (kind, node, _) in self.ent.items():
            if kind != "cls":
                continue
            mp = self.module_of(path)
            for n in node["bases"]:
                sp = f"{mp}.{n}"
                if sp in self.ent:
                    ch: list = []
                    self.final(sp, chain=ch)
                    used.update(ch)
        return used

    def importers(self, roots: set[str]) -> set[str]:
        """Import entities whose chain goes through (or into the subtree of) one of `roots`, transitively."""
        out: set[str] = set()
        changed = True

        def hits(tp: str) -> bool:
            return any(tp == r or tp.startswith(r + ".") for r in roots | out)

        while changed:
            changed = False
            for path, (kind, node, _) in self.ent.items():
                if kind != "imp" or path in out:
                    continue
                if any(path == r or path.startswith(r + ".") for r in roots):
                    continue
                if hits(f"{node['src']}.{node['tgt']}"):
                    out.add(path)
                    changed = True
        return out


class Frontier:
    """Public frontier of a model: which entities are reached through public names only, how, and under which
    reported paths a breakage may identify them (canonical path of the entity, or canonical path of a publicly
    reached container + member name)."""

    def __init__(self, pkg: Pkg, variant: str, blocked, no_inherit):
        self.pkg = pkg
        self.variant = variant
        self.blocked = blocked
        self.no_inherit = no_inherit
        self.tags: dict[str, set[str]] = {}  # entity -> {"direct","alias","inherit"}
        self.acc: dict[str, set[str]] = {}  # entity -> acceptable reported paths
        self.via: dict[str, set[str]] = {}  # entity -> "<publicly reached container>.<name>" routes only
        self.chain: set[str] = set()  # alias-chain intermediates of public aliases
        self._walked: set[tuple[str, str]] = set()
        if ROOT not in blocked:
            self._mark(ROOT, "direct", ROOT)
            self._walk(ROOT, "direct")

    def _mark(self, ent: str, tag: str, *paths: str) -> None:
        self.tags.setdefault(ent, set()).add(tag)
        self.acc.setdefault(ent, set()).update(paths)

    def _walk(self, cont: str, tag: str) -> None:
        if (cont, tag) in self._walked:
            return
        self._walked.add((cont, tag))
        pkg = self.pkg
        if pkg.ent[cont][0] == "module":
            for child in pkg.kids[cont]:
                if pkg.member_public(cont, child, self.variant):
                    self._link(cont, child.rsplit(".", 1)[1], child, tag)
        else:
            for name, owner in pkg.all_members(cont, self.blocked, self.no_inherit).items():
                if is_private_name(name):
                    continue
                own = owner.startswith(cont + ".") and owner.count(".") == cont.count(".") + 1
                if pkg.ent[owner][0] == "imp" and (own or self.variant == "sure"):
                    # imported inside a class body: not public there (documented).  Seen through a subclass the code no
                    # longer knows it was imported (public), the documented table still says imported: ambiguous.
                    continue
                self._link(cont, name, owner, tag if own else "inherit")

    def _link(self, cont: str, name: str, child: str, tag: str) -> None:
        if self.blocked and is_blocked(child, self.blocked):
            return
        pkg = self.pkg
        via = f"{cont}.{name}"
        target = child
        if pkg.ent[child][0] == "imp":
            self._mark(child, tag, via)
            self.via.setdefault(child, set()).add(via)
            ch: list = []
            target = pkg.final(child, self.blocked, ch)
            self.chain.update(ch)
            if target is None:
                return
            tag = "alias"
        self._mark(target, tag, via, target)
        self.via.setdefault(target, set()).add(via)
        if pkg.ent[target][0] in ("module", "cls"):
            self._walk(target, tag)

    def label(self, ent: str) -> str | None:
        t = self.tags.get(ent)
        if not t:
            return None
        if "direct" in t:
            return "direct"
        return "reexport" if "alias" in t else "inherit"

    def all_paths(self) -> set[str]:
        out: set[str] = set()
        for s in self.acc.values():
            out |= s
        return out


# --------------------------------------------------------------------------------------------- edits
COMPAT_OPS = ("identity", "add_func", "add_cls", "add_attr", "add_meth", "add_mod", "addparam", "doc", "reorder", "export")
INCOMPAT_OPS = ("remove", "rekind", "chvalue", "rmbase")
PRIVATE_ONLY_OPS = ("chsig",)
EXPECTED_KIND = {
    "remove": "OBJECT_REMOVED",
    "rekind": "OBJECT_CHANGED_KIND",
    "chvalue": "ATTRIBUTE_CHANGED_VALUE",
    "rmbase": "CLASS_REMOVED_BASE",
}


def _under(path: str, root: str) -> bool:
    return path == root or path.startswith(root + ".")


class Editor:
    """Applies a raw edit script to a copy of the model.  Locations are chosen among the entities of the ORIGINAL
    model (index modulo number of applicable locations, optionally restricted to a location class), and edits never
    touch an entity twice nor an ancestor/descendant of a structurally edited entity."""

    def __init__(self, model: dict):
        self.old = model
        self.new = copy.deepcopy(model)
        self.opkg = Pkg(model)
        self.sure = self.opkg.frontier("sure")
        self.maybe = self.opkg.frontier("maybe")
        self.rel = self.opkg.relevant()
        self.base_used = self.opkg.base_used()
        self.dead_roots: set[str] = set()  # structurally edited (removed / re-kinded) subtrees
        self.pinned: set[str] = set()  # entities touched by a non-structural edit
        self.done: set[tuple[str, str]] = set()
        self.records: list[dict] = []
        self.fresh = 0

    # ---- classification of a location in the ORIGINAL model
    def loc_class(self, ent: str) -> str:
        lab = self.sure.label(ent)
        if lab is not None:
            return lab
        if ent not in self.rel and ent not in self.maybe.tags:
            return "dead"
        return "gray"

    # ---- lock rules
    def _alive(self, ent: str) -> bool:
        return not any(_under(ent, r) for r in self.dead_roots)

    def _structural_ok(self, ent: str) -> bool:
        if not self._alive(ent):
            return False
        if any(_under(r, ent) for r in self.dead_roots):
            return False
        return not any(_under(p, ent) for p in self.pinned)

    def _pick(self, cands: list[str], edit: dict) -> str | None:
        if not cands:
            return None
        where = edit.get("where", "any")
        if where == "dead":
            # an edit meant for an unobservable object is dropped when there is none (it must not turn incompatible)
            cands = [c for c in cands if self.loc_class(c) == "dead"]
            if not cands:
                return None
            if edit.get("focus") == "cimp":
                # prefer imports written inside a class body (imported-but-not-exported at class level)
                sub = [c for c in cands if self.opkg.ent[c][0] == "imp" and self.opkg.ent[self.opkg.ent[c][2]][0] == "cls"]
                cands = sub or cands
            elif edit.get("hidden"):
                # prefer objects hidden by an empty __all__ (private whatever their name looks like)
                sub = [c for c in cands if self.opkg.ent[self.opkg.module_of(c)][1]["all"] == [] and not is_private_name(c.rsplit(".", 1)[1])]
                cands = sub or cands
        elif where != "any":
            # requested location class first, then the rarer classes before the common ones
            for w in (where, "inherit", "reexport", "direct", "gray"):
                sub = [c for c in cands if self.loc_class(c) == w]
                if sub:
                    cands = sub
                    break
        return cands[edit.get("at", 0) % len(cands)]

    def _node(self, ent: str) -> dict:
        """Node of `ent` in the NEW model (paths of untouched entities are stable)."""
        return Pkg(self.new).ent[ent][1]

    def _container_body(self, cont: str) -> list:
        node = Pkg(self.new).ent[cont][1]
        return node["body"]

    # ---- the catalogue
    def apply(self, edit: dict) -> None:
        op = edit["op"]
        fn = getattr(self, "_op_" + op)
        rec = fn(edit)
        if rec is None:
            self.records.append({"op": op, "skipped": True})
        else:
            rec["op"] = op
            self.records.append(rec)

    def _entities(self, kinds: tuple[str, ...]) -> list[str]:
        """Editable entities of the original model (names provided by a wildcard import have no statement of their own)."""
        return [p for p, (k, n, _) in self.opkg.ent.items() if k in kinds and p != ROOT and not n.get("virtual")]

    def _op_identity(self, edit):
        return {"ent": ROOT, "loc": "direct"}

    # structural: remove
    def _op_remove(self, edit):
        cands = []
        casc: dict[str, set[str]] = {}
        for e in self._entities(("func", "attr", "cls", "imp", "module")):
            if not self._structural_ok(e):
                continue
            if self._still_inherited(e):
                continue  # removing an override leaves the inherited member of the same name: not a removal
            inside = {x for x in self.opkg.ent if _under(x, e)}
            if any(x in self.base_used for x in inside):
                # a class statement elsewhere names it as a base: removing it would leave a package CPython cannot import
                users_outside = self._base_users_outside(e)
                if users_outside:
                    continue
            imps = self.opkg.importers({e})
            if any(i in self.base_used for i in imps):
                continue
            if not all(self._structural_ok(i) for i in imps):
                continue
            casc[e] = imps
            cands.append(e)
        e = self._pick(cands, edit)
        if e is None:
            return None
        for x in sorted(casc[e] | {e}, key=lambda s: -s.count(".")):
            self._delete(x)
            self.dead_roots.add(x)
        return {"ent": e, "cascade": sorted(casc[e]), "loc": self.loc_class(e)}

    def _still_inherited(self, ent: str) -> bool:
        pkg = self.opkg
        parent = pkg.ent[ent][2]
        if pkg.ent[parent][0] != "cls":
            return False
        name = pkg.ent[ent][1]["name"]
        mro = pkg.mro(parent)
        if mro is None:
            return True  # no reference MRO: stay away
        return any(pkg.ent[k][1]["name"] == name for b in mro[1:] for k in pkg.kids[b])

    def _base_users_outside(self, root: str) -> bool:
        pkg = self.opkg
        for path, (kind, node, _) in pkg.ent.items():
            if kind != "cls" or _under(path, root):
                continue
            mp = pkg.module_of(path)
            for n in node["bases"]:
                ch: list = []
                pkg.final(f"{mp}.{n}", chain=ch)
                if any(_under(c, root) for c in ch):
                    return True
        return False

    def _delete(self, ent: str) -> None:
        new = self.new
        pkg = Pkg(new)
        if ent not in pkg.ent:
            return
        kind, node, parent = pkg.ent[ent]
        if node.get("virtual"):
            return  # provided by a wildcard import: disappears with its source
        if kind == "module":
            for p in [p for p in new["order"] if _under(p, ent)]:
                new["order"].remove(p)
                del new["mods"][p]
            for mod in new["mods"].values():
                mod["body"][:] = [m for m in mod["body"] if not (m["k"] == "star" and _under(m["src"], ent))]
            name = ent.rsplit(".", 1)[1]
            pall = new["mods"][parent]["all"]
            if pall and name in pall and len(pall) > 1:
                pall.remove(name)
            return
        pnode = pkg.ent[parent][1]
        pnode["body"].remove(node)
        if pkg.ent[parent][0] == "module" and pnode["all"] and node["name"] in pnode["all"] and len(pnode["all"]) > 1:
            pnode["all"].remove(node["name"])

    # structural: rekind
    def _op_rekind(self, edit):
        cands = []
        for e in self._entities(("func", "attr", "cls", "imp")):
            if not self._structural_ok(e) or e in self.base_used:
                continue
            if self.opkg.ent[e][0] == "imp" and self.opkg.final(e) is None:
                continue  # unresolvable alias: its old kind is unknown, nothing can be expected
            cands.append(e)
        e = self._pick(cands, edit)
        if e is None:
            return None
        kind, node, parent = self.opkg.ent[e]
        old_kind = self.opkg.ent[self.opkg.final(e)][0]
        in_class = self.opkg.ent[parent][0] == "cls"
        options = [k for k in (("func", "attr") if in_class else ("func", "attr", "cls")) if k != old_kind]
        nk = options[edit.get("arg", 0) % len(options)]
        name = node["name"]
        if nk == "func":
            repl = {"k": "func", "name": name, "sig": "self" if in_class else "", "doc": 0}
        elif nk == "attr":
            repl = {"k": "attr", "name": name, "val": value_text(edit.get("val", 3))}
        else:
            repl = {"k": "cls", "name": name, "bases": [], "doc": 0, "body": []}
        body = self._container_body(parent)
        cur = next(m for m in body if m["name"] == name)
        body[body.index(cur)] = repl
        self.dead_roots.add(e)
        return {"ent": e, "loc": self.loc_class(e), "from": old_kind, "to": nk}

    # non-structural incompatible: chvalue / rmbase
    def _op_chvalue(self, edit):
        cands = [e for e in self._entities(("attr",)) if self._alive(e) and ("chvalue", e) not in self.done]
        e = self._pick(cands, edit)
        if e is None:
            return None
        node = self._node(e)
        # the new value is drawn independently of the old one (constant <-> expression both ways, expression -> other
        # expression, constant -> other constant); equal texts are stepped to the next pool entry
        old_text = node["val"]
        idx = edit.get("val", edit.get("arg", 0) + 1)
        while value_text(idx) == old_text:
            idx += 1
        node["val"] = value_text(idx)
        nature = f"{value_nature(old_text)}>{value_nature(node['val'])}"
        self.pinned.add(e)
        self.done.add(("chvalue", e))
        return {"ent": e, "loc": self.loc_class(e), "nature": nature}

    def _op_rmbase(self, edit):
        cands = [
            e
            for e in self._entities(("cls",))
            if self._alive(e) and self.opkg.ent[e][1]["bases"] and ("rmbase", e) not in self.done
        ]
        # classes deriving from two classes that share a short name (sync.Transport, aio.Transport) are rare: a base
        # removal goes to a public one of them whenever the package has one, and removes one of the twins
        twins = {c: self._twin_bases(c) for c in cands}
        twin_only = False
        if edit.get("where") != "dead":
            sub = [c for c in cands if twins[c] and self.loc_class(c) in ("direct", "reexport")]
            if sub:
                cands, twin_only = sub, True
        e = self._pick(cands, edit)
        if e is None:
            return None
        node = self._node(e)
        i = edit.get("arg", 0) % len(node["bases"])
        if twin_only and twins.get(e):
            i = twins[e][(edit.get("arg", 0) // 2) % len(twins[e])]
        removed = node["bases"].pop(i)
        self.pinned.add(e)
        self.done.add(("rmbase", e))
        return {"ent": e, "loc": self.loc_class(e), "base": removed}

    def _twin_bases(self, cls: str) -> list[int]:
        """Indices of the bases of `cls` whose resolved class shares its short name with another base."""
        pkg = self.opkg
        mp = pkg.module_of(cls)
        fins = [pkg.final(f"{mp}.{b}") for b in pkg.ent[cls][1]["bases"]]
        shorts = [f.rsplit(".", 1)[1] if f else None for f in fins]
        return [i for i, sn in enumerate(shorts) if sn is not None and shorts.count(sn) > 1]

    # private only: arbitrary signature change (compatible only because the function is not part of the API)
    def _op_chsig(self, edit):
        cands = [
            e
            for e in self._entities(("func",))
            if self._alive(e) and self.loc_class(e) == "dead" and ("sig", e) not in self.done
        ]
        e = self._pick(cands, edit)
        if e is None:
            return None
        node = self._node(e)
        in_class = self.opkg.ent[self.opkg.ent[e][2]][0] == "cls"
        sigs = [s for s in (METH_SIGS if in_class else FUNC_SIGS) if s != node["sig"]]
        node["sig"] = sigs[edit.get("arg", 0) % len(sigs)]
        self.pinned.add(e)
        self.done.add(("sig", e))
        return {"ent": e, "loc": "dead"}

    # compatible
    def _fresh(self, prefix: str) -> str:
        self.fresh += 1
        return f"{prefix}{self.fresh}"

    def _containers(self, kinds: tuple[str, ...]) -> list[str]:
        return [p for p, (k, _, _) in self.opkg.ent.items() if k in kinds and self._alive(p)]

    def _add_to_module(self, edit, node):
        m = self._pick(self._containers(("module",)), {**edit, "where": "any"})
        if m is None:
            return None
        mod = self.new["mods"][m]
        pos = edit.get("arg", 0) % (len(mod["body"]) + 1)
        mod["body"].insert(pos, node)
        exported = False
        if mod["all"] and edit.get("flag", True):  # an empty __all__ stays empty
            mod["all"].append(node["name"])
            exported = True
        self.pinned.add(m)
        return {"ent": f"{m}.{node['name']}", "loc": "added", "exported": exported}

    def _op_add_func(self, edit):
        return self._add_to_module(edit, {"k": "func", "name": self._fresh("zf"), "sig": FUNC_SIGS[edit.get("arg", 0) % len(FUNC_SIGS)], "doc": 1})

    def _op_add_attr(self, edit):
        return self._add_to_module(edit, {"k": "attr", "name": self._fresh("zv"), "val": value_text(edit.get("arg", 0))})

    def _op_add_cls(self, edit):
        body = [{"k": "func", "name": "zm", "sig": "self", "doc": 0}]
        return self._add_to_module(edit, {"k": "cls", "name": self._fresh("ZK"), "bases": [], "doc": 0, "body": body})

    def _op_add_meth(self, edit):
        c = self._pick(self._containers(("cls",)), edit)
        if c is None:
            return None
        node = self._node(c)
        if edit.get("flag", True):
            new = {"k": "func", "name": self._fresh("zm"), "sig": "self", "doc": 0}
        else:
            new = {"k": "attr", "name": self._fresh("zx"), "val": value_text(edit.get("arg", 0))}
        node["body"].insert(edit.get("arg", 0) % (len(node["body"]) + 1), new)
        self.pinned.add(c)
        return {"ent": f"{c}.{new['name']}", "loc": "added", "into": self.loc_class(c)}

    def _op_add_mod(self, edit):
        pkgs = [p for p in self._containers(("module",)) if self.opkg.ent[p][1]["pkg"]]
        m = self._pick(pkgs, {**edit, "where": "any"})
        if m is None:
            return None
        name = self._fresh("zmod")
        path = f"{m}.{name}"
        self.new["order"].append(path)
        self.new["mods"][path] = {"pkg": False, "doc": 1, "all": None, "body": [{"k": "func", "name": "zf", "sig": "", "doc": 0}]}
        if self.new["mods"][m]["all"] and edit.get("flag", True):
            self.new["mods"][m]["all"].append(name)
        self.pinned.add(m)
        return {"ent": path, "loc": "added"}

    def _op_addparam(self, edit):
        cands = [e for e in self._entities(("func",)) if self._alive(e) and ("sig", e) not in self.done]
        e = self._pick(cands, edit)
        if e is None:
            return None
        node = self._node(e)
        node["sig"] = add_optional_kwonly(node["sig"], "zopt")
        self.pinned.add(e)
        self.done.add(("sig", e))
        return {"ent": e, "loc": self.loc_class(e)}

    def _op_doc(self, edit):
        cands = [e for e in [ROOT, *self._entities(("func", "cls", "module"))] if self._alive(e) and ("doc", e) not in self.done]
        e = self._pick(cands, edit)
        if e is None:
            return None
        node = self._node(e)
        node["doc"] = node.get("doc", 0) + 1 + edit.get("arg", 0) % 5
        self.pinned.add(e)
        self.done.add(("doc", e))
        return {"ent": e, "loc": self.loc_class(e) if e != ROOT else "direct"}

    def _op_reorder(self, edit):
        cands = [c for c in self._containers(("module", "cls")) if ("reorder", c) not in self.done]
        cands = [c for c in cands if len(self._container_body(c)) >= 2]
        c = self._pick(cands, edit)
        if c is None:
            return None
        body = self._container_body(c)
        k = 1 + edit.get("arg", 0) % (len(body) - 1)
        body[:] = body[k:] + body[:k]
        self.pinned.add(c)
        self.done.add(("reorder", c))
        return {"ent": c, "loc": self.loc_class(c) if c != ROOT else "direct"}

    def _op_export(self, edit):
        """List an existing, not yet exported module-level name in an existing __all__ (only adds a public object)."""
        cands = []
        for e in self._entities(("func", "attr", "cls", "imp")):
            parent = self.opkg.ent[e][2]
            if self.opkg.ent[parent][0] != "module" or not self._alive(e):
                continue
            allv = self.opkg.ent[parent][1]["all"]
            if not allv or self.opkg.ent[e][1]["name"] in allv:
                continue
            if parent in self.opkg.star_sources:
                continue  # the name would also flow into the wildcard importers and could collide there
            cands.append(e)
        e = self._pick(cands, edit)
        if e is None:
            return None
        parent = self.opkg.ent[e][2]
        self.new["mods"][parent]["all"].append(self.opkg.ent[e][1]["name"])
        self.pinned.add(e)
        return {"ent": e, "loc": self.loc_class(e)}


def add_optional_kwonly(sig: str, name: str) -> str:
    """Add a keyword-only parameter with a default (before **kwargs, after a bare * or *args, else behind a new *)."""
    parts = [p.strip() for p in sig.split(",") if p.strip()]
    kw = [p for p in parts if p.startswith("**")]
    rest = [p for p in parts if not p.startswith("**")]
    has_star = any(p == "*" or (p.startswith("*") and not p.startswith("**")) for p in rest)
    if not has_star:
        rest.append("*")
    rest.append(f"{name}=None")
    return ", ".join(rest + kw)


def apply_script(model: dict, script: list[dict]) -> tuple[dict, list[dict], Editor]:
    ed = Editor(model)
    for edit in script:
        ed.apply(edit)
    return ed.new, ed.records, ed
