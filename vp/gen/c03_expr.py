"""G-EXPR for C03: JSON-serialisable expression models, their renderer to `ast` nodes, Hypothesis strategies,
a parenthesis spy on CPython's unparser, and the construction-time steering pass for listed findings.

Model = nested dicts {"t": <kind>, ...}; only dicts/lists/strs/ints/bools/None, so cases shrink and replay.
Text is always `ast.unparse(to_ast(model))`: CPython decides where parentheses, spaces and markers go.

Kinds (fields):
  Name id | Const k v (k in int float complex str bytes bool None Ellipsis; numbers as literal source text) |
  Code e|bad (a *string constant* whose value is the unparsed sub-model e, or the invalid text bad) |
  Attribute v attr | BinOp op l r | BoolOp op vs | UnaryOp op v | Compare l ops cs | IfExp test body orelse |
  Call f args kws(list of [name|None, value]) | Lambda npo npk va nko vk defs kdefs body |
  List/Tuple/Set elts | Dict items(list of [key|None, value]) | ListComp/SetComp/GenExp elt gens | DictComp k v gens
  (gen = {"tg": target, "it": iterable, "ifs": [...], "async": bool}) | Subscript v s | Literal s (subscript of
  the module's Literal spelling) | Slice lo up st | Starred v | NamedExpr tg v | JoinedStr parts (str | FV) |
  FV v conv spec(None | list of parts) | Yield v|None | YieldFrom v
"""

from __future__ import annotations

import ast
import copy
from functools import lru_cache

from hypothesis import strategies as st

# ----------------------------------------------------------------------------- vocabulary
NAMES = ("a", "b", "c", "A", "B", "p0", "p1")  # A: class defined in the module, B: imported, rest unresolved
ATTRS = ("real", "b", "A")
KWNAMES = ("k", "key")
PARAMS = ("p0", "p1", "p2", "p3", "p4", "p5")

BINOPS = {
    "Add": ast.Add, "Sub": ast.Sub, "Mult": ast.Mult, "Div": ast.Div, "FloorDiv": ast.FloorDiv, "Mod": ast.Mod,
    "Pow": ast.Pow, "LShift": ast.LShift, "RShift": ast.RShift, "BitOr": ast.BitOr, "BitXor": ast.BitXor,
    "BitAnd": ast.BitAnd, "MatMult": ast.MatMult,
}  # fmt: skip
BOOLOPS = {"And": ast.And, "Or": ast.Or}
UNARYOPS = {"Invert": ast.Invert, "Not": ast.Not, "UAdd": ast.UAdd, "USub": ast.USub}
CMPOPS = {
    "Eq": ast.Eq, "NotEq": ast.NotEq, "Lt": ast.Lt, "LtE": ast.LtE, "Gt": ast.Gt, "GtE": ast.GtE,
    "Is": ast.Is, "IsNot": ast.IsNot, "In": ast.In, "NotIn": ast.NotIn,
}  # fmt: skip

# How the module spells typing.Literal (form -> (import line, expression text, resolves to typing's Literal?)).
LITERAL_FORMS = {
    "typing.Literal": ("import typing", "typing.Literal", True),
    "from-typing": ("from typing import Literal", "Literal", True),
    "from-typing-as": ("from typing import Literal as L", "L", True),
    "typing-as": ("import typing as t", "t.Literal", True),
    "typing_extensions.Literal": ("import typing_extensions", "typing_extensions.Literal", True),
    "from-typing_extensions": ("from typing_extensions import Literal", "Literal", True),
    # controls: a subscript that is *not* typing's Literal
    "other-List": ("from typing import List as L", "L", False),
    "other-module-Literal": ("from other import Literal", "Literal", None),  # undetermined by the property text
}


class ModelError(Exception):
    """The model cannot be rendered (a bug of the generator, never of Griffe)."""


# ----------------------------------------------------------------------------- model -> ast
def _const_value(m):
    k, v = m["k"], m.get("v")
    if k in ("int", "float", "complex"):
        node = ast.parse(v, mode="eval").body
        if not isinstance(node, ast.Constant) or type(node.value).__name__ != k:
            raise ModelError(f"bad numeric literal {v!r} for {k}")
        return node.value
    if k == "str":
        return v
    if k == "bytes":
        return v.encode("latin-1")
    if k == "bool":
        return bool(v)
    if k == "None":
        return None
    if k == "Ellipsis":
        return ...
    raise ModelError(f"unknown constant kind {k}")


def code_text(m) -> str:
    """Value of a Code string constant."""
    if m.get("e") is not None:
        return ast.unparse(ast.fix_missing_locations(ast.Expression(to_ast(m["e"], "L"))))
    return m["bad"]


def _args(m, lit):
    npo, npk, nko = m["npo"], m["npk"], m["nko"]
    names = iter(PARAMS + tuple(f"q{i}" for i in range(20)))
    po = [ast.arg(next(names)) for _ in range(npo)]
    pk = [ast.arg(next(names)) for _ in range(npk)]
    va = ast.arg(next(names)) if m["va"] else None
    ko = [ast.arg(next(names)) for _ in range(nko)]
    vk = ast.arg(next(names)) if m["vk"] else None
    defs = [to_ast(d, lit) for d in m["defs"][: npo + npk]]
    kdefs = [None if d is None else to_ast(d, lit) for d in (list(m["kdefs"]) + [None] * nko)[:nko]]
    return ast.arguments(posonlyargs=po, args=pk, vararg=va, kwonlyargs=ko, kw_defaults=kdefs, kwarg=vk, defaults=defs)


def _gens(gs, lit):
    return [
        ast.comprehension(
            target=_store(to_ast(g["tg"], lit)),
            iter=to_ast(g["it"], lit),
            ifs=[to_ast(i, lit) for i in g["ifs"]],
            is_async=1 if g.get("async") else 0,
        )
        for g in gs
    ]


def _store(node):
    for n in ast.walk(node):
        if hasattr(n, "ctx"):
            n.ctx = ast.Store()
    return node


def _parts(parts, lit):
    out = []
    for p in parts:
        if isinstance(p, str):
            if p:
                out.append(ast.Constant(p))
        else:
            out.append(to_ast(p, lit))
    return out


def to_ast(m, lit: str = "L"):
    """Build the ast node of a model. `lit` = expression text of the module's Literal spelling.
    Every node gets `_m` = its model dict (used by the steering pass)."""
    node = _to_ast(m, lit)
    node._m = m
    return node


def _to_ast(m, lit):
    t = m["t"]
    L = ast.Load()
    if t == "Name":
        return ast.Name(m["id"], L)
    if t == "Const":
        return ast.Constant(_const_value(m))
    if t == "Code":
        return ast.Constant(code_text(m))
    if t == "Attribute":
        return ast.Attribute(to_ast(m["v"], lit), m["attr"], L)
    if t == "BinOp":
        return ast.BinOp(to_ast(m["l"], lit), BINOPS[m["op"]](), to_ast(m["r"], lit))
    if t == "BoolOp":
        return ast.BoolOp(BOOLOPS[m["op"]](), [to_ast(v, lit) for v in m["vs"]])
    if t == "UnaryOp":
        return ast.UnaryOp(UNARYOPS[m["op"]](), to_ast(m["v"], lit))
    if t == "Compare":
        n = min(len(m["ops"]), len(m["cs"]))
        return ast.Compare(to_ast(m["l"], lit), [CMPOPS[o]() for o in m["ops"][:n]], [to_ast(c, lit) for c in m["cs"][:n]])
    if t == "IfExp":
        return ast.IfExp(to_ast(m["test"], lit), to_ast(m["body"], lit), to_ast(m["orelse"], lit))
    if t == "Call":
        return ast.Call(
            to_ast(m["f"], lit),
            [to_ast(a, lit) for a in m["args"]],
            [ast.keyword(k, to_ast(v, lit)) for k, v in m["kws"]],
        )
    if t == "Lambda":
        return ast.Lambda(_args(m, lit), to_ast(m["body"], lit))
    if t in ("List", "Tuple"):
        return getattr(ast, t)([to_ast(e, lit) for e in m["elts"]], L)
    if t == "Set":
        return ast.Set([to_ast(e, lit) for e in m["elts"]])
    if t == "Dict":
        return ast.Dict([None if k is None else to_ast(k, lit) for k, _ in m["items"]], [to_ast(v, lit) for _, v in m["items"]])
    if t in ("ListComp", "SetComp"):
        return getattr(ast, t)(to_ast(m["elt"], lit), _gens(m["gens"], lit))
    if t == "GenExp":
        return ast.GeneratorExp(to_ast(m["elt"], lit), _gens(m["gens"], lit))
    if t == "DictComp":
        return ast.DictComp(to_ast(m["k"], lit), to_ast(m["v"], lit), _gens(m["gens"], lit))
    if t == "Subscript":
        return ast.Subscript(to_ast(m["v"], lit), to_ast(m["s"], lit), L)
    if t == "Literal":
        return ast.Subscript(ast.parse(lit, mode="eval").body, to_ast(m["s"], lit), L)
    if t == "Slice":
        return ast.Slice(*(None if m[k] is None else to_ast(m[k], lit) for k in ("lo", "up", "st")))
    if t == "Starred":
        return ast.Starred(to_ast(m["v"], lit), L)
    if t == "NamedExpr":
        return ast.NamedExpr(ast.Name(m["tg"], ast.Store()), to_ast(m["v"], lit))
    if t == "JoinedStr":
        return ast.JoinedStr(_parts(m["parts"], lit))
    if t == "FV":
        spec = None if m.get("spec") is None else ast.JoinedStr(_parts(m["spec"], lit))
        return ast.FormattedValue(to_ast(m["v"], lit), m.get("conv", -1), spec)
    if t == "Yield":
        return ast.Yield(None if m["v"] is None else to_ast(m["v"], lit))
    if t == "YieldFrom":
        return ast.YieldFrom(to_ast(m["v"], lit))
    raise ModelError(f"unknown model kind {t}")


def walk_model(m):
    """Every model dict below (and including) m, parents first."""
    if isinstance(m, dict):
        if "t" in m:
            yield m
        for v in m.values():
            yield from walk_model(v)
    elif isinstance(m, list):
        for v in m:
            yield from walk_model(v)


def model_depth(m) -> int:
    if isinstance(m, dict):
        return ("t" in m) + max((model_depth(v) for v in m.values()), default=0)
    if isinstance(m, list):
        return max((model_depth(v) for v in m), default=0)
    return 0


# ----------------------------------------------------------------------------- parenthesis spy
class _ParenSpy(ast._Unparser):
    """CPython's unparser, recording every place where it *decides* to emit parentheses:
    (parent node, field name, child node). Also records the `1 .real` space (int receiver of an attribute)."""

    def __init__(self):
        super().__init__()
        self.stack: list = []
        self.sites: list = []

    def traverse(self, node):
        if isinstance(node, list):
            return super().traverse(node)
        self.stack.append(node)
        try:
            return super().traverse(node)
        finally:
            self.stack.pop()

    def delimit_if(self, start, end, condition):
        if condition and start == "(" and self.stack:
            child = self.stack[-1]
            parent = self.stack[-2] if len(self.stack) > 1 else None
            self.sites.append((parent, _field_of(parent, child), child))
        return super().delimit_if(start, end, condition)

    def visit_GeneratorExp(self, node):
        parent = self.stack[-2] if len(self.stack) > 1 else None
        self.sites.append((parent, _field_of(parent, node), node))
        return super().visit_GeneratorExp(node)

    def visit_Attribute(self, node):
        if isinstance(node.value, ast.Constant) and isinstance(node.value.value, int):
            self.sites.append((node, "value", node.value))
        return super().visit_Attribute(node)


def _field_of(parent, child) -> str:
    if parent is None:
        return "<root>"
    for name, value in ast.iter_fields(parent):
        if value is child:
            return name
        if isinstance(value, list) and any(v is child for v in value):
            return name
    return "?"


def paren_sites(tree) -> list:
    """[(parent, field, child)] where CPython's unparser parenthesises `child` when writing `tree`.
    The root of an expression is written at the lowest precedence, so it is reported only when it is a
    generator expression, a named expression, a yield or a tuple-free node that always carries parentheses."""
    spy = _ParenSpy()
    spy.visit(tree)
    return spy.sites


def site_label(parent, field, child) -> str:
    def cls(n):
        name = type(n).__name__
        if isinstance(n, (ast.BinOp, ast.UnaryOp, ast.BoolOp)):
            name += "." + type(n.op).__name__
        return name

    return f"{cls(parent) if parent is not None else 'root'}.{field}<-{cls(child)}"


# ----------------------------------------------------------------------------- strategies
_S = st.sampled_from


def _name():
    return st.builds(lambda i: {"t": "Name", "id": i}, _S(NAMES))


_TEXT = st.text(alphabet="ab '\"\\\n{}é\t%", max_size=4)
_SAFE_TEXT = st.text(alphabet="ab c", max_size=3)


def _const(sw):
    nums = [("int", "0"), ("int", "7"), ("int", "1000000000000000000000"), ("float", "1.5"), ("float", "0.1"), ("float", "1e22"),
            ("float", "1e-07"), ("complex", "1j"), ("complex", "2.5j")]  # fmt: skip
    if not sw.get("no-nonfinite"):
        nums += [("float", "1e400"), ("complex", "1e400j")]
    return st.one_of(
        _S(nums).map(lambda kv: {"t": "Const", "k": kv[0], "v": kv[1]}),
        _TEXT.map(lambda s: {"t": "Const", "k": "str", "v": s}),
        _S([{"t": "Const", "k": "None"}, {"t": "Const", "k": "bool", "v": True}, {"t": "Const", "k": "bool", "v": False},
            {"t": "Const", "k": "Ellipsis"}]),  # fmt: skip
        st.text(alphabet="ab'\"\\\x00\xff\n", max_size=3).map(lambda s: {"t": "Const", "k": "bytes", "v": s}),
    )


BAD_CODE = ("a b", "1 +", "", "a.", "[", "def", "a:b", "lambda", "x y z", "not", "*a", "a = b", "yield")


class Gen:
    """Depth-indexed expression strategies. `sw` = feature switches (names starting with "no-" remove a
    node class or a sub-shape from the generator)."""

    def __init__(self, sw: dict | None = None):
        self.sw = dict(sw or {})
        self._cache: dict = {}

    # -- public
    def expr(self, depth: int, lam: bool = False):
        """General expression of nesting depth <= depth (lam: inside a lambda body, so yield is legal)."""
        key = ("E", depth, lam)
        if key not in self._cache:
            self._cache[key] = self._expr(depth, lam)
        return self._cache[key]

    def annotation(self, depth: int):
        """Annotation-flavoured expression: names, attributes, subscripts, unions, lists, string annotations,
        Literal[...], with general expressions mixed in."""
        key = ("T", depth)
        if key not in self._cache:
            self._cache[key] = self._annotation(depth)
        return self._cache[key]

    def code_string(self, depth: int):
        good = self.annotation(max(depth - 1, 0)).map(lambda e: {"t": "Code", "e": e})
        general = self.expr(max(depth - 1, 0)).map(lambda e: {"t": "Code", "e": e})
        bad = _S(BAD_CODE).map(lambda s: {"t": "Code", "bad": s})
        return st.one_of(good, good, general, bad)

    # -- internals
    def _leaf(self):
        return st.one_of(_name(), _const(self.sw))

    def _on(self, kind: str) -> bool:
        return not self.sw.get("no-" + kind)

    def _expr(self, d, lam):
        leaf = self._leaf()
        if d <= 0:
            return leaf
        sub = self.expr(d - 1, lam)
        kinds = []

        def add(kind, strat):
            if self._on(kind):
                kinds.append(strat)

        add("Attribute", st.builds(lambda v, a: {"t": "Attribute", "v": v, "attr": a}, sub, _S(ATTRS)))
        add("BinOp", st.builds(lambda o, l, r: {"t": "BinOp", "op": o, "l": l, "r": r}, _S(sorted(BINOPS)), sub, sub))
        add("BoolOp", st.builds(lambda o, vs: {"t": "BoolOp", "op": o, "vs": vs}, _S(sorted(BOOLOPS)), st.lists(sub, min_size=2, max_size=3)))
        add("UnaryOp", st.builds(lambda o, v: {"t": "UnaryOp", "op": o, "v": v}, _S(sorted(UNARYOPS)), sub))
        add(
            "Compare",
            st.integers(1, 2).flatmap(
                lambda n: st.builds(
                    lambda l, ops, cs: {"t": "Compare", "l": l, "ops": ops, "cs": cs},
                    sub,
                    st.lists(_S(sorted(CMPOPS)), min_size=n, max_size=n),
                    st.lists(sub, min_size=n, max_size=n),
                )
            ),
        )
        add("IfExp", st.builds(lambda t, b, o: {"t": "IfExp", "test": t, "body": b, "orelse": o}, sub, sub, sub))
        add("Call", self._call(d, lam))
        add("Lambda", self._lambda(d))
        star = self._starred_or(sub)
        add("List", st.lists(star, max_size=3).map(lambda e: {"t": "List", "elts": e}))
        add("Tuple", st.lists(star, max_size=3).map(lambda e: {"t": "Tuple", "elts": e}))
        add("Set", st.lists(star, min_size=1, max_size=3).map(lambda e: {"t": "Set", "elts": e}))
        dkey = sub if self.sw.get("no-dict-unpack") else st.one_of(sub, sub, st.none())
        add("Dict", st.lists(st.tuples(dkey, sub).map(list), max_size=3).map(lambda i: {"t": "Dict", "items": i}))
        gens = self._gens(d, lam)
        add("ListComp", st.builds(lambda e, g: {"t": "ListComp", "elt": e, "gens": g}, sub, gens))
        add("SetComp", st.builds(lambda e, g: {"t": "SetComp", "elt": e, "gens": g}, sub, gens))
        add("GenExp", st.builds(lambda e, g: {"t": "GenExp", "elt": e, "gens": g}, sub, gens))
        add("DictComp", st.builds(lambda k, v, g: {"t": "DictComp", "k": k, "v": v, "gens": g}, sub, sub, gens))
        add("Subscript", st.builds(lambda v, s: {"t": "Subscript", "v": v, "s": s}, sub, self._index(d, lam)))
        add("NamedExpr", st.builds(lambda t, v: {"t": "NamedExpr", "tg": t, "v": v}, _S(("w", "a")), sub))
        add("JoinedStr", self._fstring(d, lam))
        if lam:
            add("Yield", st.one_of(st.none(), sub).map(lambda v: {"t": "Yield", "v": v}))
            add("YieldFrom", sub.map(lambda v: {"t": "YieldFrom", "v": v}))
        # rarely: string annotations and Literal[...] outside annotation positions (must never be parsed there)
        rare = st.one_of(self.code_string(d), self._literal(d))
        compound = st.one_of(*kinds) if kinds else leaf
        return st.one_of(leaf, compound, compound, compound, rare)

    def _starred_or(self, sub):
        if not self._on("Starred"):
            return sub
        return st.one_of(sub, sub, sub, sub.map(lambda v: {"t": "Starred", "v": v}))

    def _call(self, d, lam):
        sub = self.expr(d - 1, lam)
        arg = self._starred_or(sub)
        kwname = st.one_of(_S(KWNAMES), _S(KWNAMES), st.none()) if self._on("call-doublestar") else _S(KWNAMES)
        general = st.builds(
            lambda f, a, k: {"t": "Call", "f": f, "args": a, "kws": k},
            sub,
            st.lists(arg, max_size=3),
            st.lists(st.tuples(kwname, sub).map(list), max_size=2),
        )
        if not self._on("GenExp"):
            return general
        # a generator expression as the sole argument is the one place where it needs no parentheses of its own
        sole = st.builds(
            lambda f, e, g: {"t": "Call", "f": f, "args": [{"t": "GenExp", "elt": e, "gens": g}], "kws": []},
            sub,
            sub,
            self._gens(d, lam),
        )
        return st.one_of(general, general, general, sole)

    def _lambda(self, d):
        body = self.expr(d - 1, True)
        dflt = self.expr(max(d - 2, 0), False)

        def build(npo, npk, va, nko, vk, defs, kdefs, body):
            return {"t": "Lambda", "npo": npo, "npk": npk, "va": va, "nko": nko, "vk": vk,
                    "defs": defs[: npo + npk], "kdefs": kdefs[:nko], "body": body}  # fmt: skip

        return st.builds(
            build,
            st.integers(0, 2), st.integers(0, 2), st.booleans(), st.integers(0, 2), st.booleans(),
            st.lists(dflt, max_size=2), st.lists(st.one_of(st.none(), dflt), max_size=2), body,
        )  # fmt: skip

    def _gens(self, d, lam):
        sub = self.expr(d - 1, lam)
        target = st.one_of(
            _S(("x", "y")).map(lambda i: {"t": "Name", "id": i}),
            _S(("x", "y")).map(lambda i: {"t": "Name", "id": i}),
            st.just({"t": "Tuple", "elts": [{"t": "Name", "id": "x"}, {"t": "Name", "id": "y"}]}),
        )
        is_async = st.booleans() if self._on("async-comp") else st.just(False)
        gen = st.builds(
            lambda tg, it, ifs, a: {"tg": tg, "it": it, "ifs": ifs, "async": a},
            target, sub, st.lists(sub, max_size=2), is_async,
        )  # fmt: skip
        return st.lists(gen, min_size=1, max_size=2)

    def _index(self, d, lam):
        sub = self.expr(d - 1, lam)
        opt = st.one_of(st.none(), sub)
        sl = st.builds(lambda lo, up, s: {"t": "Slice", "lo": lo, "up": up, "st": s}, opt, opt, opt)
        if not self._on("Slice"):
            sl = sub
        elt = st.one_of(sub, sub, sl, sub.map(lambda v: {"t": "Starred", "v": v})) if self._on("Starred") else st.one_of(sub, sl)
        tup = st.lists(elt, max_size=3).map(lambda e: {"t": "Tuple", "elts": e})
        return st.one_of(sub, sub, sl, tup)

    def _fstring(self, d, lam):
        sub = self.expr(d - 1, lam)
        if self.sw.get("fstring-plain"):
            # while the f-string finding is listed: literal text without quotes/braces/backslashes, plain {name} fields
            field = _name().map(lambda v: {"t": "FV", "v": v, "conv": -1, "spec": None})
            return st.lists(st.one_of(_SAFE_TEXT, field), max_size=4).map(lambda p: {"t": "JoinedStr", "parts": p})
        spec_part = st.one_of(
            st.sampled_from([">10", ".2f", "x", "{{"]),
            _name().map(lambda v: {"t": "FV", "v": v, "conv": -1, "spec": None}),
        )
        field = st.builds(
            lambda v, c, s: {"t": "FV", "v": v, "conv": c, "spec": s},
            sub,
            _S((-1, -1, -1, 115, 114, 97)),
            st.one_of(st.none(), st.none(), st.lists(spec_part, min_size=0, max_size=2)),
        )
        return st.lists(st.one_of(_TEXT, field, field), max_size=4).map(lambda p: {"t": "JoinedStr", "parts": p})

    def _literal(self, d):
        item = st.one_of(
            _TEXT.map(lambda s: {"t": "Const", "k": "str", "v": s}),
            self.code_string(min(d, 1)),
            _S(NAMES).map(lambda i: {"t": "Code", "e": {"t": "Name", "id": i}}),
            _const(self.sw),
        )
        inner = st.one_of(item, item, st.lists(item, min_size=1, max_size=3).map(lambda e: {"t": "Tuple", "elts": e}))
        if d >= 2:
            # strings nested deeper under Literal[...]: still never parsed
            nested = st.builds(
                lambda v, s: {"t": "Subscript", "v": v, "s": s},
                _name(),
                st.one_of(item, st.lists(item, min_size=1, max_size=2).map(lambda e: {"t": "Tuple", "elts": e})),
            )
            inner = st.one_of(inner, inner, nested, st.tuples(item, nested).map(lambda e: {"t": "Tuple", "elts": list(e)}))
        return inner.map(lambda s: {"t": "Literal", "s": s})

    def _annotation(self, d):
        name = _name()
        dotted = st.builds(lambda v, a: {"t": "Attribute", "v": v, "attr": a}, name, _S(ATTRS))
        base = st.one_of(name, dotted)
        if d <= 0:
            return st.one_of(base, _S(NAMES).map(lambda i: {"t": "Code", "e": {"t": "Name", "id": i}}), _const(self.sw))
        sub = self.annotation(d - 1)
        args = st.one_of(
            sub,
            st.lists(sub, min_size=1, max_size=3).map(lambda e: {"t": "Tuple", "elts": e}),
            # Callable[[A, "B"], C]
            st.builds(lambda ps, r: {"t": "Tuple", "elts": [{"t": "List", "elts": ps}, r]}, st.lists(sub, max_size=2), sub),
        )
        generic = st.builds(lambda v, s: {"t": "Subscript", "v": v, "s": s}, base, args)
        union = st.builds(lambda l, r: {"t": "BinOp", "op": "BitOr", "l": l, "r": r}, sub, sub)
        return st.one_of(
            base, generic, generic, union, self.code_string(d), self.code_string(d), self._literal(d), self._literal(d),
            self.expr(d),
        )  # fmt: skip


# ----------------------------------------------------------------------------- steering (construction, not filtering)
def replace_model(m: dict, new: dict) -> None:
    m.clear()
    m.update(copy.deepcopy(new))


PLACEHOLDER = {"t": "Name", "id": "c"}
