"""G-EXPR for C03: JSON-serialisable expression models, their renderer to `ast` nodes, a deterministic model builder
driven by a Hypothesis-drawn choice sequence, a parenthesis spy on CPython's unparser, and the construction-time
steering pass for listed findings.

Model = nested dicts {"t": <kind>, ...}; only dicts/lists/strs/ints/bools/None, so cases shrink and replay.
Text is always `ast.unparse(to_ast(model))`: CPython decides where parentheses, spaces and markers go.

Feature switches (Builder(sw=...), steer(sw=...)): "no-<Kind>" drops a node class from the builder ("no-Starred",
"no-Slice", "no-GenExp", "no-JoinedStr", ...); sub-shapes: "no-dict-unpack", "no-call-doublestar", "no-async-comp",
"no-nonfinite" (1e400), "safe-strings", "fstring-plain" (literal text over [ab c] and plain {name} fields);
context-dependent shapes are rewritten after building by steer(): "no-operand-parens" (no operand that CPython
parenthesises because of operator precedence), "no-int-receiver" (`1 .real`).

Kinds (fields):
  Name id | Const k v (k in int float complex str bytes bool None Ellipsis; numbers as literal source text) |
  Code e|bad (a *string constant* whose value is the unparsed sub-model e, or the invalid text bad) |
  Attribute v attr | BinOp op l r | BoolOp op vs | UnaryOp op v | Compare l ops cs | IfExp test body orelse |
  Call f args kws(list of [name|None, value]) | Lambda npo npk va nko vk defs kdefs body |
  List/Tuple/Set elts | Dict items(list of [key|None, value]) | ListComp/SetComp/GenExp elt gens | DictComp k v gens
  (gen = {"tg": target, "it": iterable, "ifs": [...], "async": bool}) | Subscript v s | Literal s (subscript of
  the module's Literal spelling) | Slice lo up st | Starred v | NamedExpr tg v | JoinedStr parts (str | FV) |
  FV v conv spec(None | list of parts) | Yield v|None | YieldFrom v
"""

from __future__ import annotations

import ast
import copy
import warnings

from hypothesis import strategies as st

# ----------------------------------------------------------------------------- vocabulary
NAMES = ("a", "b", "c", "A", "B", "p0", "p1")  # A: class defined in the module, B: imported, rest unresolved
ATTRS = ("real", "b", "A")
DOTTED_ROOTS = ("A", "B", "pk", "a", "c")  # module-level class, imported object, imported package, unknown names
DOTTED_ATTRS = ("sub", "mod", "Thing", "b", "A", "real")
KWNAMES = ("k", "key")
PARAMS = ("p0", "p1", "p2", "p3", "p4", "p5")

BINOPS = {
    "Add": ast.Add, "Sub": ast.Sub, "Mult": ast.Mult, "Div": ast.Div, "FloorDiv": ast.FloorDiv, "Mod": ast.Mod,
    "Pow": ast.Pow, "LShift": ast.LShift, "RShift": ast.RShift, "BitOr": ast.BitOr, "BitXor": ast.BitXor,
    "BitAnd": ast.BitAnd, "MatMult": ast.MatMult,
}  # fmt: skip
BOOLOPS = {"And": ast.And, "Or": ast.Or}
UNARYOPS = {"Invert": ast.Invert, "Not": ast.Not, "UAdd": ast.UAdd, "USub": ast.USub}
CMPOPS = {
    "Eq": ast.Eq, "NotEq": ast.NotEq, "Lt": ast.Lt, "LtE": ast.LtE, "Gt": ast.Gt, "GtE": ast.GtE,
    "Is": ast.Is, "IsNot": ast.IsNot, "In": ast.In, "NotIn": ast.NotIn,
}  # fmt: skip

# How the module spells typing.Literal (form -> (import line, expression text, resolves to typing's Literal?)).
LITERAL_FORMS = {
    "typing.Literal": ("import typing", "typing.Literal", True),
    "from-typing": ("from typing import Literal", "Literal", True),
    "from-typing-as": ("from typing import Literal as L", "L", True),
    "typing-as": ("import typing as t", "t.Literal", True),
    "typing_extensions.Literal": ("import typing_extensions", "typing_extensions.Literal", True),
    "from-typing_extensions": ("from typing_extensions import Literal", "Literal", True),
    # controls: a subscript that is *not* typing's Literal
    "other-List": ("from typing import List as L", "L", False),
    "other-module-Literal": ("from other import Literal", "Literal", None),  # undetermined by the property text
}


warnings.filterwarnings("ignore", category=SyntaxWarning)  # generated strings hold arbitrary escapes


class ModelError(Exception):
    """The model cannot be rendered (a bug of the generator, never of Griffe)."""


# ----------------------------------------------------------------------------- model -> ast
def _const_value(m):
    k, v = m["k"], m.get("v")
    if k in ("int", "float", "complex"):
        node = ast.parse(v, mode="eval").body
        if not isinstance(node, ast.Constant) or type(node.value).__name__ != k:
            raise ModelError(f"bad numeric literal {v!r} for {k}")
        return node.value
    if k == "str":
        return v
    if k == "bytes":
        return v.encode("latin-1")
    if k == "bool":
        return bool(v)
    if k == "None":
        return None
    if k == "Ellipsis":
        return ...
    raise ModelError(f"unknown constant kind {k}")


def code_text(m) -> str:
    """Value of a Code string constant."""
    if m.get("e") is not None:
        return ast.unparse(ast.fix_missing_locations(ast.Expression(to_ast(m["e"], "L"))))
    return m["bad"]


def _args(m, lit):
    npo, npk, nko = m["npo"], m["npk"], m["nko"]
    names = iter(PARAMS + tuple(f"q{i}" for i in range(20)))
    po = [ast.arg(next(names)) for _ in range(npo)]
    pk = [ast.arg(next(names)) for _ in range(npk)]
    va = ast.arg(next(names)) if m["va"] else None
    ko = [ast.arg(next(names)) for _ in range(nko)]
    vk = ast.arg(next(names)) if m["vk"] else None
    defs = [to_ast(d, lit) for d in m["defs"][: npo + npk]]
    kdefs = [None if d is None else to_ast(d, lit) for d in (list(m["kdefs"]) + [None] * nko)[:nko]]
    return ast.arguments(posonlyargs=po, args=pk, vararg=va, kwonlyargs=ko, kw_defaults=kdefs, kwarg=vk, defaults=defs)


def _gens(gs, lit):
    return [
        ast.comprehension(
            target=_store(to_ast(g["tg"], lit)),
            iter=to_ast(g["it"], lit),
            ifs=[to_ast(i, lit) for i in g["ifs"]],
            is_async=1 if g.get("async") else 0,
        )
        for g in gs
    ]


def _store(node):
    for n in ast.walk(node):
        if hasattr(n, "ctx"):
            n.ctx = ast.Store()
    return node


def _parts(parts, lit):
    out = []
    for p in parts:
        if isinstance(p, str):
            if p:
                out.append(ast.Constant(p))
        else:
            out.append(to_ast(p, lit))
    return out


_EXPAND_CODE = False


def to_ast(m, lit: str = "L"):
    """Build the ast node of a model. `lit` = expression text of the module's Literal spelling.
    Every node gets `_m` = its model dict (used by the steering pass)."""
    node = _to_ast(m, lit)
    node._m = m
    return node


def to_ast_expanded(m, lit: str = "L"):
    """Like to_ast, with every valid string annotation replaced by the code it holds (the tree Griffe builds when it
    parses them): parenthesisation sites can sit at the seam."""
    global _EXPAND_CODE
    _EXPAND_CODE = True
    try:
        return to_ast(m, lit)
    finally:
        _EXPAND_CODE = False


def _to_ast(m, lit):
    t = m["t"]
    L = ast.Load()
    if t == "Name":
        return ast.Name(m["id"], L)
    if t == "Const":
        if _EXPAND_CODE and m["k"] == "str":
            # a plain string that happens to be code is parsed by Griffe like any string annotation
            try:
                return compile(m["v"], "<string>", "eval", flags=ast.PyCF_ONLY_AST).body
            except (SyntaxError, ValueError):
                pass
        return ast.Constant(_const_value(m))
    if t == "Code":
        if _EXPAND_CODE and m.get("e") is not None:
            return to_ast(m["e"], lit)
        return ast.Constant(code_text(m))
    if t == "Attribute":
        return ast.Attribute(to_ast(m["v"], lit), m["attr"], L)
    if t == "BinOp":
        return ast.BinOp(to_ast(m["l"], lit), BINOPS[m["op"]](), to_ast(m["r"], lit))
    if t == "BoolOp":
        return ast.BoolOp(BOOLOPS[m["op"]](), [to_ast(v, lit) for v in m["vs"]])
    if t == "UnaryOp":
        return ast.UnaryOp(UNARYOPS[m["op"]](), to_ast(m["v"], lit))
    if t == "Compare":
        n = min(len(m["ops"]), len(m["cs"]))
        return ast.Compare(to_ast(m["l"], lit), [CMPOPS[o]() for o in m["ops"][:n]], [to_ast(c, lit) for c in m["cs"][:n]])
    if t == "IfExp":
        return ast.IfExp(to_ast(m["test"], lit), to_ast(m["body"], lit), to_ast(m["orelse"], lit))
    if t == "Call":
        return ast.Call(
            to_ast(m["f"], lit),
            [to_ast(a, lit) for a in m["args"]],
            [ast.keyword(k, to_ast(v, lit)) for k, v in m["kws"]],
        )
    if t == "Lambda":
        return ast.Lambda(_args(m, lit), to_ast(m["body"], lit))
    if t in ("List", "Tuple"):
        return getattr(ast, t)([to_ast(e, lit) for e in m["elts"]], L)
    if t == "Set":
        return ast.Set([to_ast(e, lit) for e in m["elts"]])
    if t == "Dict":
        return ast.Dict([None if k is None else to_ast(k, lit) for k, _ in m["items"]], [to_ast(v, lit) for _, v in m["items"]])
    if t in ("ListComp", "SetComp"):
        return getattr(ast, t)(to_ast(m["elt"], lit), _gens(m["gens"], lit))
    if t == "GenExp":
        return ast.GeneratorExp(to_ast(m["elt"], lit), _gens(m["gens"], lit))
    if t == "DictComp":
        return ast.DictComp(to_ast(m["k"], lit), to_ast(m["v"], lit), _gens(m["gens"], lit))
    if t == "Subscript":
        return ast.Subscript(to_ast(m["v"], lit), to_ast(m["s"], lit), L)
    if t == "Literal":
        return ast.Subscript(ast.parse(lit, mode="eval").body, to_ast(m["s"], lit), L)
    if t == "Slice":
        return ast.Slice(*(None if m[k] is None else to_ast(m[k], lit) for k in ("lo", "up", "st")))
    if t == "Starred":
        return ast.Starred(to_ast(m["v"], lit), L)
    if t == "NamedExpr":
        return ast.NamedExpr(ast.Name(m["tg"], ast.Store()), to_ast(m["v"], lit))
    if t == "JoinedStr":
        return ast.JoinedStr(_parts(m["parts"], lit))
    if t == "FV":
        spec = None if m.get("spec") is None else ast.JoinedStr(_parts(m["spec"], lit))
        return ast.FormattedValue(to_ast(m["v"], lit), m.get("conv", -1), spec)
    if t == "Yield":
        return ast.Yield(None if m["v"] is None else to_ast(m["v"], lit))
    if t == "YieldFrom":
        return ast.YieldFrom(to_ast(m["v"], lit))
    raise ModelError(f"unknown model kind {t}")


def walk_model(m):
    """Every model dict below (and including) m, parents first."""
    if isinstance(m, dict):
        if "t" in m:
            yield m
        for v in m.values():
            yield from walk_model(v)
    elif isinstance(m, list):
        for v in m:
            yield from walk_model(v)


def model_depth(m) -> int:
    if isinstance(m, dict):
        return ("t" in m) + max((model_depth(v) for v in m.values()), default=0)
    if isinstance(m, list):
        return max((model_depth(v) for v in m), default=0)
    return 0


# ----------------------------------------------------------------------------- parenthesis spy
class _ParenSpy(ast._Unparser):
    """CPython's unparser, recording every place where it *decides* to emit parentheses:
    (parent node, field name, child node). Also records the `1 .real` space (int receiver of an attribute).
    f-string fields are written by nested unparser instances, so stack and sink are shared (class level)."""

    stack: list = []
    sites: list = []

    def __init__(self, **kwargs):
        super().__init__(**kwargs)

    def traverse(self, node):
        if isinstance(node, list):
            return super().traverse(node)
        self.stack.append(node)
        try:
            return super().traverse(node)
        finally:
            self.stack.pop()

    def _site(self, child):
        parent = None
        for n in reversed(self.stack):
            if n is not child:
                parent = n
                break
        self.sites.append((parent, _field_of(parent, child), child))

    def delimit_if(self, start, end, condition):
        if condition and start == "(" and self.stack:
            self._site(self.stack[-1])
        return super().delimit_if(start, end, condition)

    def visit_GeneratorExp(self, node):
        self._site(node)
        return super().visit_GeneratorExp(node)

    def visit_Attribute(self, node):
        if isinstance(node.value, ast.Constant) and isinstance(node.value.value, int):
            self.sites.append((node, "value", node.value))
        return super().visit_Attribute(node)


def _field_of(parent, child) -> str:
    if parent is None:
        return "<root>"
    for name, value in ast.iter_fields(parent):
        if value is child:
            return name
        if isinstance(value, list) and any(v is child for v in value):
            return name
    return "?"


def paren_sites(tree) -> list:
    """[(parent, field, child)] where CPython's unparser parenthesises `child` when writing `tree` (parent None:
    the root itself, which happens for generator expressions only, the root being written at the lowest precedence)."""
    _ParenSpy.stack = []
    _ParenSpy.sites = sites = []
    try:
        _ParenSpy().visit(tree)
    finally:
        _ParenSpy.stack = []
        _ParenSpy.sites = []
    return sites


def site_label(parent, field, child) -> str:
    def cls(n):
        name = type(n).__name__
        if isinstance(n, (ast.BinOp, ast.UnaryOp, ast.BoolOp)):
            name += "." + type(n.op).__name__
        return name

    return f"{cls(parent) if parent is not None else 'root'}.{field}<-{cls(child)}"


# ----------------------------------------------------------------------------- builder driven by a choice sequence
# A case is built deterministically from a list of small integers (drawn by Hypothesis): every decision consumes one
# element (modulo the number of options, option 0 being the simplest); an exhausted list answers 0 everywhere, so
# every list is a valid case, shorter/smaller lists are simpler cases, and generation costs one list draw.
NUMS = (("int", "0"), ("int", "7"), ("float", "1.5"), ("complex", "1j"), ("int", "1000000000000000000000"), ("float", "0.1"),
        ("float", "1e22"), ("float", "1e-07"), ("complex", "2.5j"))  # fmt: skip
NONFINITE = (("float", "1e400"), ("complex", "1e400j"))
TEXT_ALPHABET = "ab '\"\\\n{}é\t%"
SAFE_ALPHABET = "ab c"
BYTES_ALPHABET = "ab'\"\\\x00\xff\n"
BAD_CODE = ("a b", "1 +", "", "a.", "[", "def", "a:b", "lambda", "x y z", "not", "*a", "a = b", "yield")
SPECS = (">10", ".2f", "x", "^")

# (weight, kind) of compound nodes in a general expression
EXPR_KINDS = (
    (6, "BinOp"), (4, "Attribute"), (3, "Dotted"), (4, "Call"), (4, "Subscript"), (3, "UnaryOp"), (3, "BoolOp"), (3, "Compare"),
    (3, "IfExp"), (3, "Lambda"), (2, "List"), (3, "Tuple"), (2, "Set"), (3, "Dict"), (2, "ListComp"), (1, "SetComp"),
    (3, "GenExp"), (2, "DictComp"), (2, "NamedExpr"), (4, "JoinedStr"), (1, "Code"), (1, "Literal"),
)  # fmt: skip
ANN_KINDS = ((5, "Generic"), (3, "Union"), (5, "Code"), (4, "Literal"), (2, "Callable"), (3, "Expr"))


class Builder:
    """Deterministic model builder. `sw` = feature switches: "no-<Kind>" removes a node class, other names select a
    restricted sub-shape (see the uses of self.sw)."""

    def __init__(self, data, sw: dict | None = None):
        self.data = list(data)
        self.i = 0
        self.sw = dict(sw or {})

    # -- choices
    def pick(self, n: int) -> int:
        v = self.data[self.i] if self.i < len(self.data) else 0
        self.i += 1
        return v % n if n > 0 else 0

    def flag(self, pct: int = 50) -> bool:
        """True with about pct % (False when the data is exhausted)."""
        return self.pick(100) >= 100 - pct

    def of(self, seq):
        return seq[self.pick(len(seq))]

    def weighted(self, table):
        table = [(w, k) for w, k in table if not self.sw.get("no-" + k)]
        total = sum(w for w, _ in table)
        x = self.pick(total)
        for w, k in table:
            if x < w:
                return k
            x -= w
        return table[0][1]

    def count(self, lo: int, hi: int) -> int:
        return lo + self.pick(hi - lo + 1)

    def text(self, alphabet: str, max_size: int) -> str:
        return "".join(alphabet[self.pick(len(alphabet))] for _ in range(self.pick(max_size + 1)))

    # -- leaves
    def name(self):
        return {"t": "Name", "id": self.of(NAMES)}

    def const(self):
        k = self.pick(8)
        if k <= 2:
            nums = NUMS if self.sw.get("no-nonfinite") else NUMS + NONFINITE
            kind, v = self.of(nums)
            return {"t": "Const", "k": kind, "v": v}
        if k <= 4:
            return {"t": "Const", "k": "str", "v": self.text(SAFE_ALPHABET if self.sw.get("safe-strings") else TEXT_ALPHABET, 4)}
        if k == 5:
            return copy.deepcopy(self.of(({"t": "Const", "k": "None"}, {"t": "Const", "k": "bool", "v": True},
                                          {"t": "Const", "k": "bool", "v": False}, {"t": "Const", "k": "Ellipsis"})))  # fmt: skip
        if k == 6:
            return {"t": "Const", "k": "bytes", "v": self.text(BYTES_ALPHABET, 3)}
        return {"t": "Const", "k": "int", "v": "1"}

    def leaf(self):
        return self.name() if self.pick(3) != 2 else self.const()

    # -- general expressions
    def expr(self, d: int, lam: bool = False, code: bool = False, compound: bool = False):
        """Expression of nesting depth <= d. lam: inside a lambda body (yield is legal); code: inside a string
        annotation (no further string-annotation nesting); compound: do not return a leaf if d allows."""
        if d <= 0:
            return self.leaf()
        if not compound and not self.flag(70):
            return self.leaf()
        table = list(EXPR_KINDS)
        if lam:
            table += [(4, "Yield"), (2, "YieldFrom")]
        if code:
            table = [(w, k) for w, k in table if k != "Code"]
        kind = self.weighted(table)
        return getattr(self, "k_" + kind)(d, lam, code)

    def sub(self, d, lam, code):
        return self.expr(d - 1, lam, code)

    def starred_or(self, d, lam, code):
        e = self.sub(d, lam, code)
        if not self.sw.get("no-Starred") and self.flag(20):
            return {"t": "Starred", "v": e}
        return e

    def k_Attribute(self, d, lam, code):
        return {"t": "Attribute", "v": self.sub(d, lam, code), "attr": self.of(ATTRS)}

    def dotted(self):
        """A dotted chain of 3-5 parts rooted at a name (module-level, imported, package or unknown)."""
        e = {"t": "Name", "id": self.of(DOTTED_ROOTS)}
        for _ in range(self.count(2, 4)):
            e = {"t": "Attribute", "v": e, "attr": self.of(DOTTED_ATTRS)}
        return e

    def k_Dotted(self, d, lam, code):
        return self.dotted()

    def k_BinOp(self, d, lam, code):
        return {"t": "BinOp", "op": self.of(sorted(BINOPS)), "l": self.sub(d, lam, code), "r": self.sub(d, lam, code)}

    def k_BoolOp(self, d, lam, code):
        return {"t": "BoolOp", "op": self.of(sorted(BOOLOPS)), "vs": [self.sub(d, lam, code) for _ in range(self.count(2, 3))]}

    def k_UnaryOp(self, d, lam, code):
        return {"t": "UnaryOp", "op": self.of(sorted(UNARYOPS)), "v": self.sub(d, lam, code)}

    def k_Compare(self, d, lam, code):
        n = self.count(1, 2)
        return {"t": "Compare", "l": self.sub(d, lam, code), "ops": [self.of(sorted(CMPOPS)) for _ in range(n)],
                "cs": [self.sub(d, lam, code) for _ in range(n)]}  # fmt: skip

    def k_IfExp(self, d, lam, code):
        return {"t": "IfExp", "test": self.sub(d, lam, code), "body": self.sub(d, lam, code), "orelse": self.sub(d, lam, code)}

    def k_Call(self, d, lam, code):
        f = self.sub(d, lam, code)
        if not self.sw.get("no-GenExp") and self.flag(20):
            # a generator expression as the sole argument: the one place where it needs no parentheses of its own
            return {"t": "Call", "f": f, "args": [self.k_GenExp(d, lam, code)], "kws": []}
        args = [self.starred_or(d, lam, code) for _ in range(self.count(0, 3))]
        kws = []
        for _ in range(self.count(0, 2)):
            name = None if (not self.sw.get("no-call-doublestar") and self.flag(30)) else self.of(KWNAMES)
            kws.append([name, self.sub(d, lam, code)])
        return {"t": "Call", "f": f, "args": args, "kws": kws}

    def k_Lambda(self, d, lam, code):
        # every legal parameter list: 0-3 positional-only, 0-4 regular, any right-aligned run of positional defaults
        # (partial runs in either group, runs spanning `/`), *args, 0-3 keyword-only with defaults at any positions, **kw
        npo, npk, va, nko, vk = self.count(0, 3), self.count(0, 4), self.flag(40), self.count(0, 3), self.flag(30)
        defs = [self.expr(max(d - 2, 0), False, code) for _ in range(self.count(0, npo + npk))]
        kdefs = [self.expr(max(d - 2, 0), False, code) if self.flag(50) else None for _ in range(nko)]
        return {"t": "Lambda", "npo": npo, "npk": npk, "va": va, "nko": nko, "vk": vk, "defs": defs, "kdefs": kdefs,
                "body": self.expr(d - 1, True, code)}  # fmt: skip

    def elts(self, d, lam, code, lo):
        return [self.starred_or(d, lam, code) for _ in range(self.count(lo, 3))]

    def k_List(self, d, lam, code):
        return {"t": "List", "elts": self.elts(d, lam, code, 0)}

    def k_Tuple(self, d, lam, code):
        return {"t": "Tuple", "elts": self.elts(d, lam, code, 0)}

    def k_Set(self, d, lam, code):
        return {"t": "Set", "elts": self.elts(d, lam, code, 1)}

    def k_Dict(self, d, lam, code):
        items = []
        for _ in range(self.count(0, 3)):
            unpack = not self.sw.get("no-dict-unpack") and self.flag(30)
            items.append([None if unpack else self.sub(d, lam, code), self.sub(d, lam, code)])
        return {"t": "Dict", "items": items}

    def gens(self, d, lam, code):
        out = []
        for _ in range(self.count(1, 2)):
            tg = self.of(({"t": "Name", "id": "x"}, {"t": "Name", "id": "y"},
                          {"t": "Tuple", "elts": [{"t": "Name", "id": "x"}, {"t": "Name", "id": "y"}]}))  # fmt: skip
            out.append({"tg": copy.deepcopy(tg), "it": self.sub(d, lam, code), "ifs": [self.sub(d, lam, code) for _ in range(self.count(0, 2))],
                        "async": (not self.sw.get("no-async-comp")) and self.flag(15)})  # fmt: skip
        return out

    def k_ListComp(self, d, lam, code):
        return {"t": "ListComp", "elt": self.sub(d, lam, code), "gens": self.gens(d, lam, code)}

    def k_SetComp(self, d, lam, code):
        return {"t": "SetComp", "elt": self.sub(d, lam, code), "gens": self.gens(d, lam, code)}

    def k_GenExp(self, d, lam, code):
        return {"t": "GenExp", "elt": self.sub(d, lam, code), "gens": self.gens(d, lam, code)}

    def k_DictComp(self, d, lam, code):
        return {"t": "DictComp", "k": self.sub(d, lam, code), "v": self.sub(d, lam, code), "gens": self.gens(d, lam, code)}

    def slice_(self, d, lam, code):
        def opt():
            return self.sub(d, lam, code) if self.flag(50) else None

        return {"t": "Slice", "lo": opt(), "up": opt(), "st": opt()}

    def index(self, d, lam, code):
        k = self.pick(6)
        if k <= 2:
            return self.sub(d, lam, code)
        if k == 3 and not self.sw.get("no-Slice"):
            return self.slice_(d, lam, code)
        elts = []
        for _ in range(self.count(0, 3)):
            j = self.pick(5)
            if j == 3 and not self.sw.get("no-Slice"):
                elts.append(self.slice_(d, lam, code))
            elif j == 4 and not self.sw.get("no-Starred"):
                elts.append({"t": "Starred", "v": self.sub(d, lam, code)})
            else:
                elts.append(self.sub(d, lam, code))
        return {"t": "Tuple", "elts": elts}

    def k_Subscript(self, d, lam, code):
        return {"t": "Subscript", "v": self.sub(d, lam, code), "s": self.index(d, lam, code)}

    def k_NamedExpr(self, d, lam, code):
        return {"t": "NamedExpr", "tg": self.of(("w", "a")), "v": self.sub(d, lam, code)}

    def k_JoinedStr(self, d, lam, code):
        parts: list = []
        plain = bool(self.sw.get("fstring-plain"))
        for _ in range(self.count(0, 4)):
            if self.pick(3) == 0:
                parts.append(self.text(SAFE_ALPHABET if plain or self.sw.get("safe-strings") else TEXT_ALPHABET, 4))
            elif plain:
                # while the f-string finding is listed: plain {name} fields only
                parts.append({"t": "FV", "v": self.name(), "conv": -1, "spec": None})
            else:
                spec = None
                conv = self.of((-1, -1, -1, 115, 114, 97))
                if self.flag(30):
                    spec = [self.of(SPECS) if self.pick(2) == 0 else {"t": "FV", "v": self.name(), "conv": -1, "spec": None}
                            for _ in range(self.count(0, 2))]  # fmt: skip
                parts.append({"t": "FV", "v": self.sub(d, lam, code), "conv": conv, "spec": spec})
        return {"t": "JoinedStr", "parts": parts}

    def k_Yield(self, d, lam, code):
        return {"t": "Yield", "v": self.sub(d, lam, code) if self.flag(60) else None}

    def k_YieldFrom(self, d, lam, code):
        return {"t": "YieldFrom", "v": self.sub(d, lam, code)}

    # -- string annotations and Literal
    def k_Code(self, d, lam, code):
        k = self.pick(8)
        if k == 7:
            return {"t": "Code", "bad": self.of(BAD_CODE)}
        if k <= 3:
            return {"t": "Code", "e": self.annotation(max(d - 1, 0), code=True)}
        if k <= 5:
            return {"t": "Code", "e": self.expr(max(d - 1, 0), False, True)}
        return {"t": "Code", "e": self.name()}

    def literal_item(self, d):
        k = self.pick(6)
        if k <= 1:
            return {"t": "Const", "k": "str", "v": self.text(SAFE_ALPHABET if self.sw.get("safe-strings") else TEXT_ALPHABET, 4)}
        if k <= 3:
            return {"t": "Code", "e": self.name()} if k == 2 else self.k_Code(min(d, 2), False, True)
        return self.const()

    def k_Literal(self, d, lam, code):
        def items(lo):
            return [self.literal_item(d) for _ in range(self.count(lo, 3))]

        k = self.pick(5)
        if k <= 1:
            s = self.literal_item(d)
        elif k == 2:
            s = {"t": "Tuple", "elts": items(1)}
        else:
            # strings nested deeper under Literal[...]: still never parsed
            nested = {"t": "Subscript", "v": self.name(), "s": self.literal_item(d) if k == 3 else {"t": "Tuple", "elts": items(1)}}
            s = nested if self.flag(50) else {"t": "Tuple", "elts": [self.literal_item(d), nested]}
        return {"t": "Literal", "s": s}

    def annotation(self, d: int, code: bool = False):
        """Annotation-flavoured expression: names, dotted names, generics, unions, Callable-like lists, string
        annotations, Literal[...], with general expressions mixed in."""
        def base():
            k = self.pick(8)
            if k >= 6:
                return self.dotted()
            n = self.name()
            return {"t": "Attribute", "v": n, "attr": self.of(ATTRS)} if k >= 4 else n

        if d <= 0:
            k = self.pick(4)
            return base() if k <= 1 else ({"t": "Code", "e": self.name()} if k == 2 and not code else self.const())
        table = [(w, k) for w, k in ANN_KINDS if not (code and k == "Code")]
        kind = self.weighted(table)
        if kind == "Generic":
            n = self.count(1, 3)
            args = [self.annotation(d - 1, code) for _ in range(n)]
            return {"t": "Subscript", "v": base(), "s": args[0] if n == 1 and self.flag(70) else {"t": "Tuple", "elts": args}}
        if kind == "Union":
            return {"t": "BinOp", "op": "BitOr", "l": self.annotation(d - 1, code), "r": self.annotation(d - 1, code)}
        if kind == "Callable":
            params = {"t": "List", "elts": [self.annotation(d - 1, code) for _ in range(self.count(0, 2))]}
            return {"t": "Subscript", "v": base(), "s": {"t": "Tuple", "elts": [params, self.annotation(d - 1, code)]}}
        if kind == "Code":
            return self.k_Code(d, False, code)
        if kind == "Literal":
            return self.k_Literal(d, False, code)
        return self.expr(d, False, code, compound=True)


def signature_shapes(max_po: int, max_pk: int, max_ko: int) -> list:
    """Every parameter-list shape within the bounds: (npo, npk, nd, va, nko, kmask, vk); nd = length of the
    right-aligned run of positional defaults (0..npo+npk), kmask = which keyword-only parameters have a default."""
    out = []
    for npo in range(max_po + 1):
        for npk in range(max_pk + 1):
            for nd in range(npo + npk + 1):
                for va in (False, True):
                    for nko in range(max_ko + 1):
                        for kmask in range(1 << nko):
                            for vk in (False, True):
                                out.append((npo, npk, nd, va, nko, kmask, vk))
    return out


def signature_lambda(shape) -> dict:
    """Lambda model of a shape; every default is a distinct integer (1, 2, ...) so that a misplaced default shows."""
    npo, npk, nd, va, nko, kmask, vk = shape
    defs = [{"t": "Const", "k": "int", "v": str(i + 1)} for i in range(nd)]
    kdefs = [{"t": "Const", "k": "int", "v": str(nd + i + 1)} if kmask >> i & 1 else None for i in range(nko)]
    return {"t": "Lambda", "npo": npo, "npk": npk, "va": bool(va), "nko": nko, "vk": bool(vk), "defs": defs, "kdefs": kdefs,
            "body": {"t": "Name", "id": "a"}}  # fmt: skip


def choice_lists(min_size: int = 16, max_size: int = 160):
    """Choice sequences as byte strings (one cheap draw; shrinks towards shorter strings and smaller bytes)."""
    return st.binary(min_size=min_size, max_size=max_size)


# ----------------------------------------------------------------------------- steering (construction, not filtering)
PLACEHOLDER = {"t": "Name", "id": "c"}
SELF_PARENTHESISED = (ast.NamedExpr, ast.Tuple)  # Griffe writes these with their own parentheses


def replace_model(m: dict, new: dict) -> None:
    m.clear()
    m.update(copy.deepcopy(new))


def is_sole_genexp_arg(parent, child) -> bool:
    return isinstance(parent, ast.Call) and len(parent.args) == 1 and parent.args[0] is child and not parent.keywords and isinstance(child, ast.GeneratorExp)


def needs_parens_sites(tree, generators: bool = False) -> list:
    """Sites where the text needs parentheses because of operator precedence (the operand does not bring them
    itself). generators=True: the sites of generator expressions instead (always parenthesised, except as the
    sole argument of a call)."""
    out = []
    for parent, field, child in paren_sites(tree):
        if isinstance(child, SELF_PARENTHESISED) or is_sole_genexp_arg(parent, child):
            continue
        if isinstance(child, ast.Constant):
            continue  # the `1 .real` site, see int_receiver_sites
        if isinstance(child, ast.GeneratorExp) == generators:
            out.append((parent, field, child))
    return out


def int_receiver_sites(tree) -> list:
    return [(p, f, c) for p, f, c in paren_sites(tree) if isinstance(c, ast.Constant)]


def steer(model: dict, lit: str, sw: dict) -> dict:
    """Rewrite, in place, the shapes that are switched off in `sw` into permitted ones (operand -> plain name).
    Returns {switch: number of rewrites}. Node-class switches ("no-X") are honoured by the Builder itself."""
    counts: dict = {}
    if not (sw.get("no-operand-parens") or sw.get("no-int-receiver")):
        return counts
    tree = to_ast_expanded(model, lit)
    if sw.get("no-operand-parens"):
        for _parent, _field, child in needs_parens_sites(tree):
            m = getattr(child, "_m", None)
            if m is not None:
                replace_model(m, PLACEHOLDER)
                counts["no-operand-parens"] = counts.get("no-operand-parens", 0) + 1
    if sw.get("no-int-receiver"):
        for _parent, _field, child in int_receiver_sites(tree):
            m = getattr(child, "_m", None)
            if m is not None:
                replace_model(m, PLACEHOLDER)
                counts["no-int-receiver"] = counts.get("no-int-receiver", 0) + 1
    return counts
