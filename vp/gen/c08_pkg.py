"""G-PKG profile `all_fields` (DESIGN section 3) — shared by C08 and C09.

A package is a small JSON model (dicts / lists / strings / ints) drawn by Hypothesis; `render_package` turns it into
files. Two flavours share the model:

* `importable = False` ("static"): every expression slot (attribute values, annotations, defaults, decorators, bases,
  keyword arguments of calls, f-strings, lambdas, comprehensions ...) is drawn from the full recursive expression
  generator `full_exprs` that covers every key of `_griffe.expressions._node_map`. The text is only ever parsed.
* `importable = True` ("dynamic"): the package can really be imported by CPython, so it can also be loaded with
  `force_inspection=True`. Evaluated slots (values, defaults, bases, decorators) are drawn from `safe_values`
  (expressions that evaluate without error by construction), annotations stay arbitrary because every module
  starts with `from __future__ import annotations`, imports of missing modules live under `if typing.TYPE_CHECKING:`
  and the import graph between the modules of the package is acyclic (leaves first).

Modules of a package sit in fixed slots (leaves first): a, b, sub.c, sub, "" (= the package `__init__`). The `namespace`
layout has no top-level `__init__.py` and spreads the slots over two search paths.

Expression model (nested lists, first element = tag) -> `expr_ast` -> `ast.unparse`, i.e. CPython decides where
parentheses go. Docstrings are section models rendered in the style of the docstring parser of the case.
"""

from __future__ import annotations

import ast
from pathlib import Path

from hypothesis import strategies as st

PKG = "c08pkg"
SLOTS = ("a", "b", "sub.c", "sub", "")

CLASS_NAMES = ("A", "B", "C")
FUNC_NAMES = ("f", "g", "h")
ATTR_NAMES = ("x", "y", "z", "_p", "cls", "kind")  # `cls` and `kind` are keys of the serialised form, too
PARAM_NAMES = ("a", "b", "c", "d", "e", "p", "q", "r")
# names used inside expressions: members of modules / classes (so that they resolve), parameter names (resolve to
# `Class(param)` inside `__init__`), imported names, builtins and unknown names
EXPR_NAMES = CLASS_NAMES + FUNC_NAMES + ATTR_NAMES + ("p", "a", "int", "str", "typing", "T", "L", "Opt", "osp", "Missing", "thing", "AA", "ff", "sub")
ATTRS = ("A", "x", "f", "List", "path", "c", "real")

# literal pool (python values); strings include ones that parse as annotations (forward references)
CONSTS = (1, 0, 2, 10**20, 2.5, 1j, "s", "A", "a.b", "List[A]", "not valid((", "it's", 'q"', "two\nlines", b"x", True, False, None, Ellipsis, "{br}")
INT_CONSTS = (0, 1, 2, 3)  # indexes into CONSTS that are ints (safe arithmetic)
HASHABLE_CONSTS = tuple(range(len(CONSTS)))

BINOPS = (ast.Add, ast.BitAnd, ast.BitOr, ast.BitXor, ast.Div, ast.FloorDiv, ast.LShift, ast.MatMult, ast.Mod, ast.Mult, ast.Pow, ast.RShift, ast.Sub)
BOOLOPS = (ast.And, ast.Or)
UNARYOPS = (ast.Invert, ast.Not, ast.UAdd, ast.USub)
CMPOPS = (ast.Eq, ast.NotEq, ast.Lt, ast.LtE, ast.Gt, ast.GtE, ast.Is, ast.IsNot, ast.In, ast.NotIn)

# names every module imports in its prelude: a later module that wildcard-imports an earlier one re-exports them as
# chained aliases (alias -> alias of the earlier module -> object of a package that is not loaded)
REEXPORTED = ("P", "ospath", "wraps")

# callees of generated calls with keyword arguments (see full_exprs): they resolve through imports of the module prelude or
# to members of the module, so `ExprKeyword.canonical_path` (`path.to.callee(param)`) differs from what is written
CALLEES = (
    ["name", "P"],
    ["name", "wraps"],
    ["attr", ["name", "ospath"], "join"],
    ["attr", ["name", "functools"], "partial"],
    ["name", "f"],
    ["name", "A"],
    ["attr", ["name", "C"], "f"],
    ["name", "ff"],
)

# real modules for `import x` / `from x import y`
EXT_IMPORTS = (("typing", None), ("os.path", "osp"), ("collections.abc", None), ("enum", None), ("os.path", None))
EXT_FROM = (
    ("typing", (("List", "L"), ("Optional", "Opt"), ("overload", None), ("Any", None))),
    ("collections.abc", (("Iterable", None), ("Mapping", "Map"))),
    ("os", (("path", None), ("sep", "SEP"))),
    ("enum", (("*", None),)),
)

# decorators that evaluate fine on any function / method
FUNC_DECOS = ("functools.cache", "functools.lru_cache(maxsize=None)", "typing.final", "abc.abstractmethod", "staticmethod", "classmethod", "functools.wraps(len)", "typing.no_type_check")
CLASS_DECOS = ("typing.final", "typing.no_type_check", "dataclasses.dataclass")  # the last one only when not importable

DOC_SUMMARIES = ("Summary.", "Do a thing.\n\nLonger text\nover lines.", "x", "Summary with `code` and: colon.")
DOC_ANNOTATIONS = ("int", "A", "typing.List[A]", "dict[str, A]", "A | None", "not valid((", "x.A", "Missing", "")
DOC_DESCS = ("desc.", "first line\n    second line", "Value of `x`.")
DOC_KINDS = ("parameters", "other parameters", "raises", "warns", "returns", "yields", "receives", "examples", "attributes", "functions", "classes", "modules", "deprecated", "admonition", "text")


# ============================================================================ expressions: strategies
def _names():
    return st.sampled_from(EXPR_NAMES).map(lambda n: ["name", n])


def _consts(indexes=None):
    return st.sampled_from(tuple(indexes) if indexes is not None else tuple(range(len(CONSTS)))).map(lambda i: ["const", i])


def _lambda_params(default):
    """Lambda parameter lists of every kind; defaults drawn from `default`."""

    @st.composite
    def build(draw):
        names = draw(st.permutations(PARAM_NAMES))
        n_po = draw(st.integers(0, 2))
        n_pk = draw(st.integers(0, 2))
        n_ko = draw(st.integers(0, 2))
        has_va = draw(st.booleans())
        has_vk = draw(st.booleans())
        it = iter(names)
        npos = n_po + n_pk
        first_default = draw(st.integers(0, npos))
        pos = []
        for i in range(npos):
            pos.append([next(it), draw(default) if i >= first_default else None])
        ko = [[next(it), draw(st.none() | default)] for _ in range(n_ko)]
        return {"po": pos[:n_po], "pk": pos[n_po:], "va": next(it) if has_va else None, "ko": ko, "vk": next(it) if has_vk else None}

    return build()


def _chain(head, names):
    for n in names:
        head = ["attr", head, n]
    return head


def full_exprs(max_leaves: int = 8, *, annotation_safe: bool = False):
    """Every expression form Griffe's builder knows. `annotation_safe`: leave out the forms CPython refuses to compile
    inside a (postponed) annotation or outside a function: walrus, yield, async comprehensions, starred elements."""

    leaf = _names() | _consts()

    def extend(sub):
        target = st.sampled_from(("i", "j", "x")).map(lambda n: ["name", n]) | st.just(["tuple", [["name", "i"], ["name", "j"]]])
        gens = st.lists(st.tuples(target, sub, st.lists(sub, max_size=2), st.just(False) if annotation_safe else st.booleans()).map(list), min_size=1, max_size=2)
        starred = sub | sub.map(lambda e: ["starred", e])
        slices = st.tuples(st.just("slice"), st.none() | sub, st.none() | sub, st.none() | sub).map(list)
        index = st.one_of(
            sub,
            slices,
            st.lists(st.one_of(sub, slices, starred), min_size=0, max_size=3).map(lambda es: ["tuple", es]),
        )
        fmt = st.tuples(st.just("fmt"), sub, st.sampled_from((-1, 115, 114, 97)), st.none() | st.sampled_from((">10", ".2f", "{w}"))).map(list)
        forms = [
            st.tuples(st.just("attr"), sub, st.sampled_from(ATTRS)).map(list),
            # dotted chains with two or three trailing names behind a head that is a call, a subscript, a parenthesised
            # operation, a string or a plain name: `f().A.x`, `x['s'].path.c`, `(a or b).path.real`
            st.tuples(
                st.one_of(
                    sub.map(lambda e: ["call", e, [], []]),
                    st.tuples(sub, sub).map(lambda t: ["subscript", t[0], t[1]]),
                    st.lists(sub, min_size=2, max_size=2).map(lambda es: ["boolop", 1, es]),
                    sub,
                ),
                st.lists(st.sampled_from(ATTRS), min_size=2, max_size=3),
            ).map(lambda t: _chain(t[0], t[1])),
            st.tuples(st.just("binop"), st.integers(0, len(BINOPS) - 1), sub, sub).map(list),
            st.tuples(st.just("boolop"), st.integers(0, 1), st.lists(sub, min_size=2, max_size=3)).map(list),
            st.tuples(st.just("unary"), st.integers(0, len(UNARYOPS) - 1), sub).map(list),
            st.tuples(st.just("compare"), sub, st.lists(st.tuples(st.integers(0, len(CMPOPS) - 1), sub).map(list), min_size=1, max_size=2)).map(list),
            st.tuples(
                st.just("call"),
                sub,
                st.lists(starred, max_size=2),
                st.lists(st.tuples(st.sampled_from(("k", "a", "maxsize")) | st.none(), sub).map(list), max_size=2).filter(lambda kws: len({k for k, _ in kws if k}) == len([k for k, _ in kws if k])),
            ).map(list),
            st.tuples(st.just("ifexp"), sub, sub, sub).map(list),
            st.tuples(st.just("lambda"), _lambda_params(sub), sub if annotation_safe else (sub | sub | leaf.map(lambda e: ["yield", e]) | st.just(["yield", None]) | leaf.map(lambda e: ["yieldfrom", e]))).map(list),
            st.lists(starred, max_size=3).map(lambda es: ["list", es]),
            st.lists(starred, max_size=3).map(lambda es: ["tuple", es]),
            st.lists(starred, min_size=1, max_size=3).map(lambda es: ["set", es]),
            st.lists(st.tuples(st.none() | sub, sub).map(list), max_size=3).map(lambda kv: ["dict", kv]),
            st.tuples(st.sampled_from(("listcomp", "setcomp", "genexp")), sub, gens).map(list),
            # a generator expression as the sole argument of a call is written without its own parentheses
            # (`sum(x for x in y)`, ExprGeneratorExp.parenthesized=False); with a second argument it keeps them
            st.tuples(sub, sub, gens, st.lists(st.tuples(st.just("k"), sub).map(list), max_size=1)).map(
                lambda t: ["call", t[0], [["genexp", t[1], t[2]]], t[3]],
            ),
            # calls with keyword arguments whose callee resolves to an object with another canonical path: aliased
            # from-import (P -> functools.partial), from-import (wraps), aliased module (ospath.join -> os.path.join),
            # module attribute chain (functools.partial), members of the module / class (f, A, C.f)
            st.tuples(
                st.sampled_from(CALLEES),
                st.lists(sub, max_size=1),
                st.lists(st.tuples(st.sampled_from(("k", "a", "maxsize")), sub).map(list), min_size=1, max_size=2, unique_by=lambda kv: kv[0]),
            ).map(lambda t: ["call", t[0], t[1], t[2]]),
            st.tuples(st.just("dictcomp"), sub, sub, gens).map(list),
            st.lists(st.sampled_from(("txt ", "it's", "{", "")) | fmt, min_size=1, max_size=3).map(lambda ps: ["joined", ps]),
            st.tuples(st.just("subscript"), sub, index).map(list),
        ]
        if not annotation_safe:
            # one alternative for the three wrappers (they consume no leaf, so they would otherwise pile up)
            forms.append(
                st.one_of(
                    st.tuples(st.just("named"), st.sampled_from(("w", "x")), sub).map(list),
                    (st.none() | leaf).map(lambda e: ["yield", e]),
                    leaf.map(lambda e: ["yieldfrom", e]),
                ),
            )
        return st.one_of(forms)

    return st.recursive(leaf, extend, max_leaves=max_leaves)


def safe_values(max_leaves: int = 5):
    """Expressions that evaluate without error at import time (no names except builtins called on literals)."""
    ints = _consts(INT_CONSTS)
    lits = _consts()
    types = st.sampled_from(
        (
            ["name", "int"],
            ["name", "str"],
            ["subscript", ["attr", ["name", "typing"], "List"], ["name", "int"]],
            ["subscript", ["name", "dict"], ["tuple", [["name", "str"], ["name", "int"]]]],
            ["call", ["name", "object"], [], []],
        ),
    )

    def extend(sub):
        hashable = lits
        return st.one_of(
            st.lists(sub, max_size=3).map(lambda es: ["list", es]),
            st.lists(sub, max_size=3).map(lambda es: ["tuple", es]),
            st.lists(hashable, min_size=1, max_size=3).map(lambda es: ["set", es]),
            st.lists(st.tuples(hashable, sub).map(list), max_size=2).map(lambda kv: ["dict", kv]),
            st.tuples(st.just("boolop"), st.integers(0, 1), st.lists(sub, min_size=2, max_size=3)).map(list),
            st.tuples(st.just("unary"), st.just(1), sub).map(list),  # not x
            st.tuples(st.just("ifexp"), sub, sub, sub).map(list),
            st.tuples(st.just("compare"), sub, st.lists(st.tuples(st.integers(0, 1), sub).map(list), min_size=1, max_size=1)).map(list),  # == / !=
            st.tuples(st.just("lambda"), _lambda_params(lits), full_exprs(3, annotation_safe=True)).map(list),
            st.tuples(st.just("binop"), st.sampled_from((0, 9, 12)), ints, ints).map(list),  # + * - on small ints
            st.tuples(st.just("call"), st.sampled_from(("dict", "list", "str", "object")).map(lambda n: ["name", n]), st.just([]), st.just([])).map(list),
            st.tuples(st.just("call"), st.just(["name", "dict"]), st.just([]), st.lists(st.tuples(st.sampled_from(("k", "a")), sub).map(list), min_size=1, max_size=2, unique_by=lambda kv: kv[0])).map(list),
            st.tuples(
                st.just("call"),
                st.sampled_from((["name", "P"], ["attr", ["name", "functools"], "partial"])),
                st.just([["name", "dict"]]),
                st.lists(st.tuples(st.sampled_from(("k", "a")), sub).map(list), min_size=1, max_size=2, unique_by=lambda kv: kv[0]),
            ).map(list),
            st.lists(st.sampled_from(("txt ", "it's")) | st.tuples(st.just("fmt"), lits, st.sampled_from((-1, 115, 114)), st.none()).map(list), min_size=1, max_size=2).map(lambda ps: ["joined", ps]),
            st.tuples(st.just("listcomp"), st.just(["name", "i"]), st.just([[["name", "i"], ["call", ["name", "range"], [["const", 2]], []], [], False]])).map(list),
            st.sampled_from(("list", "sorted", "tuple")).map(
                lambda f: ["call", ["name", f], [["genexp", ["name", "i"], [[["name", "i"], ["call", ["name", "range"], [["const", 2]], []], [], False]]]], []],
            ),
        )

    return st.recursive(lits | lits | types, extend, max_leaves=max_leaves)


# ============================================================================ expressions: rendering
# rendering context: parameter names of the function whose body is being rendered (for the "param" tag)
_CTX: dict = {"params": [], "steer": frozenset()}


def expr_ast(t) -> ast.AST:
    tag = t[0]
    if tag == "name":
        return ast.Name(t[1], ast.Load())
    if tag == "param":
        names = [] if "init-param-names" in _CTX["steer"] else _CTX["params"]
        return ast.Name(names[t[1] % len(names)] if names else "Missing", ast.Load())
    if tag == "const":
        return ast.Constant(CONSTS[t[1] % len(CONSTS)])
    if tag == "attr":
        return ast.Attribute(expr_ast(t[1]), t[2], ast.Load())
    if tag == "binop":
        return ast.BinOp(expr_ast(t[2]), BINOPS[t[1] % len(BINOPS)](), expr_ast(t[3]))
    if tag == "boolop":
        return ast.BoolOp(BOOLOPS[t[1] % 2](), [expr_ast(e) for e in t[2]])
    if tag == "unary":
        return ast.UnaryOp(UNARYOPS[t[1] % len(UNARYOPS)](), expr_ast(t[2]))
    if tag == "compare":
        return ast.Compare(expr_ast(t[1]), [CMPOPS[o % len(CMPOPS)]() for o, _ in t[2]], [expr_ast(e) for _, e in t[2]])
    if tag == "call":
        return ast.Call(expr_ast(t[1]), [expr_ast(a) for a in t[2]], [ast.keyword(k, expr_ast(v)) for k, v in t[3]])
    if tag == "starred":
        return ast.Starred(expr_ast(t[1]), ast.Load())
    if tag == "ifexp":
        return ast.IfExp(expr_ast(t[1]), expr_ast(t[2]), expr_ast(t[3]))
    if tag == "lambda":
        return ast.Lambda(_lambda_args(t[1]), expr_ast(t[2]))
    if tag == "list":
        return ast.List([expr_ast(e) for e in t[1]], ast.Load())
    if tag == "tuple":
        return ast.Tuple([expr_ast(e) for e in t[1]], ast.Load())
    if tag == "set":
        return ast.Set([expr_ast(e) for e in t[1]])
    if tag == "dict":
        return ast.Dict([None if k is None else expr_ast(k) for k, _ in t[1]], [expr_ast(v) for _, v in t[1]])
    if tag in ("listcomp", "setcomp", "genexp"):
        cls = {"listcomp": ast.ListComp, "setcomp": ast.SetComp, "genexp": ast.GeneratorExp}[tag]
        return cls(expr_ast(t[1]), [_comprehension(g) for g in t[2]])
    if tag == "dictcomp":
        return ast.DictComp(expr_ast(t[1]), expr_ast(t[2]), [_comprehension(g) for g in t[3]])
    if tag == "joined":
        values = []
        for part in t[1]:
            if isinstance(part, str):
                if part:
                    values.append(ast.Constant(part))
            else:
                spec = None
                if part[3] is not None:
                    if part[3] == "{w}":
                        spec = ast.JoinedStr([ast.FormattedValue(ast.Name("w", ast.Load()), -1, None)])
                    else:
                        spec = ast.JoinedStr([ast.Constant(part[3])])
                values.append(ast.FormattedValue(expr_ast(part[1]), part[2], spec))
        return ast.JoinedStr(values)
    if tag == "named":
        return ast.NamedExpr(ast.Name(t[1], ast.Store()), expr_ast(t[2]))
    if tag == "subscript":
        return ast.Subscript(expr_ast(t[1]), expr_ast(t[2]), ast.Load())
    if tag == "slice":
        return ast.Slice(*(None if e is None else expr_ast(e) for e in t[1:4]))
    if tag == "yield":
        return ast.Yield(None if t[1] is None else expr_ast(t[1]))
    if tag == "yieldfrom":
        return ast.YieldFrom(expr_ast(t[1]))
    raise ValueError(f"unknown expression tag {tag!r}")


def _comprehension(g) -> ast.comprehension:
    target, it, ifs, is_async = g
    return ast.comprehension(_store(expr_ast(target)), expr_ast(it), [expr_ast(c) for c in ifs], int(bool(is_async)))


def _store(node):
    for n in ast.walk(node):
        if hasattr(n, "ctx"):
            n.ctx = ast.Store()
    return node


def _lambda_args(p) -> ast.arguments:
    pos = list(p["po"]) + list(p["pk"])
    defaults = []
    seen = False
    for _, d in pos:
        if d is not None:
            seen = True
        if seen:
            defaults.append(ast.Constant(None) if d is None else expr_ast(d))
    return ast.arguments(
        posonlyargs=[ast.arg(n) for n, _ in p["po"]],
        args=[ast.arg(n) for n, _ in p["pk"]],
        vararg=ast.arg(p["va"]) if p["va"] else None,
        kwonlyargs=[ast.arg(n) for n, _ in p["ko"]],
        kw_defaults=[None if d is None else expr_ast(d) for _, d in p["ko"]],
        kwarg=ast.arg(p["vk"]) if p["vk"] else None,
        defaults=defaults,
    )


def expr_text(t) -> str:
    return ast.unparse(ast.fix_missing_locations(ast.Expression(expr_ast(t))))


def expr_depth(t) -> int:
    if not isinstance(t, (list, dict)):
        return 0
    if isinstance(t, dict):
        return max((expr_depth(v) for v in t.values()), default=0)
    if t and isinstance(t[0], str) and t[0] in ("name", "const"):
        return 1
    sub = max((expr_depth(e) for e in t), default=0)
    return sub + (1 if t and isinstance(t[0], str) else 0)


# ============================================================================ docstrings
def docstrings():
    # documented names include members that are aliases nobody can resolve (`thing`: import of a missing module, `P`,
    # `ospath`: prelude imports of modules that are not loaded)
    item = st.tuples(st.sampled_from(PARAM_NAMES + ("x", "A", "f", "thing", "P", "ospath", "P", "ospath", "wraps")), st.integers(0, len(DOC_ANNOTATIONS) - 1), st.integers(0, len(DOC_DESCS) - 1)).map(list)
    # parameters sections are drawn more often: the parsers look the documented parameters up in the signature of the
    # function, or of the class (`Class.parameters`: `__init__` of the class or of a base, through the MRO)
    kinds = st.sampled_from((0, 0, 0, 8, 8, *range(1, len(DOC_KINDS))))  # 8 = attributes
    section = st.tuples(kinds, st.lists(item, min_size=1, max_size=2)).map(list)
    # "lead": 0 text right after the quotes; 1 text on the next line; 2 next line and every further line indented deeper
    full = st.fixed_dictionaries(
        {"sum": st.integers(0, len(DOC_SUMMARIES) - 1), "sections": st.lists(section, max_size=3), "lead": st.sampled_from((0, 0, 1, 2))},
    )
    # empty and whitespace-only docstrings (`''''''`, `''' '''`): a docstring that is present but has no contents
    empty = st.fixed_dictionaries({"sum": st.sampled_from((-1, -2)), "sections": st.just([])})
    return st.one_of(full, full, full, empty)


def doc_text(doc, style: str | None) -> str:
    """Docstring text (no indentation) for a docstring model in `style` (google when None)."""
    style = style or "google"
    if doc["sum"] < 0:
        return "" if doc["sum"] == -1 else "  "
    out = [DOC_SUMMARIES[doc["sum"] % len(DOC_SUMMARIES)]]
    for kind_i, items in doc["sections"]:
        kind = DOC_KINDS[kind_i % len(DOC_KINDS)]
        rows = [(n, DOC_ANNOTATIONS[a % len(DOC_ANNOTATIONS)], DOC_DESCS[d % len(DOC_DESCS)]) for n, a, d in items]
        out.append("")
        out.extend({"google": _google, "numpy": _numpy, "sphinx": _sphinx}[style](kind, rows))
    return "\n".join(out)


_GOOGLE_TITLES = {
    "parameters": "Args", "other parameters": "Keyword Args", "raises": "Raises", "warns": "Warns", "returns": "Returns",
    "yields": "Yields", "receives": "Receives", "examples": "Examples", "attributes": "Attributes", "functions": "Functions",
    "classes": "Classes", "modules": "Modules", "deprecated": "Deprecated", "admonition": "Note",
}  # fmt: skip


def _google(kind, rows):
    if kind == "text":
        return ["Some more text about " + rows[0][0] + "."]
    lines = [_GOOGLE_TITLES[kind] + ":"]
    if kind == "examples":
        return lines + ["    Example text.", "", "    >>> print(" + rows[0][0] + ")", "    1"]
    if kind == "admonition":
        return lines + ["    " + rows[0][2]]
    if kind == "deprecated":
        return lines + ["    1.0: " + rows[0][2]]
    for name, ann, desc in rows:
        if kind == "attributes" and name in REEXPORTED:
            lines.append(f"    {name}: {desc}")  # untyped: the parser fetches the annotation from the member of that name
        elif kind in ("parameters", "other parameters", "attributes"):
            lines.append(f"    {name} ({ann}): {desc}" if ann else f"    {name}: {desc}")
        elif kind in ("raises", "warns"):
            lines.append(f"    {ann or 'ValueError'}: {desc}")
        elif kind in ("returns", "yields", "receives"):
            lines.append(f"    {name} ({ann}): {desc}" if ann and name in ("a", "b") else (f"    {ann}: {desc}" if ann else f"    {desc}"))
        elif kind in ("functions", "classes"):
            lines.append(f"    {name}(a, b=1): {desc}")
        else:
            lines.append(f"    {name}: {desc}")
    return lines


_NUMPY_TITLES = {
    "parameters": "Parameters", "other parameters": "Other Parameters", "raises": "Raises", "warns": "Warns", "returns": "Returns",
    "yields": "Yields", "receives": "Receives", "examples": "Examples", "attributes": "Attributes", "functions": "Functions",
    "classes": "Classes", "modules": "Modules",
}  # fmt: skip


def _numpy(kind, rows):
    if kind == "text":
        return ["Some more text about " + rows[0][0] + "."]
    if kind == "deprecated":
        return ["Deprecated", "----------", "1.0", "    " + rows[0][2].split("\n")[0]]
    if kind == "admonition":
        return ["Notes", "-----", rows[0][2].split("\n")[0]]
    title = _NUMPY_TITLES[kind]
    lines = [title, "-" * len(title)]
    if kind == "examples":
        return lines + ["Example text.", "", ">>> print(" + rows[0][0] + ")", "1"]
    for name, ann, desc in rows:
        desc = desc.replace("\n    ", "\n")
        desc_lines = ["    " + d for d in desc.split("\n")]
        if kind in ("parameters", "other parameters", "attributes", "returns", "yields", "receives"):
            lines.append(f"{name} : {ann}" if ann else name)
        elif kind in ("raises", "warns"):
            lines.append(ann or "ValueError")
        elif kind in ("functions", "classes"):
            lines.append(f"{name}(a, b=1)")
        else:
            lines.append(name)
        lines.extend(desc_lines)
    return lines


def _sphinx(kind, rows):
    lines = []
    for name, ann, desc in rows:
        desc = desc.split("\n")[0]
        if kind in ("parameters", "other parameters"):
            lines.append(f":param {ann} {name}: {desc}" if ann and " " not in ann and name == "a" else f":param {name}: {desc}")
            if ann and name != "a":
                lines.append(f":type {name}: {ann}")
        elif kind == "attributes":
            lines.append(f":var {name}: {desc}")
            if ann:
                lines.append(f":vartype {name}: {ann}")
        elif kind in ("raises", "warns"):
            lines.append(f":raises {ann or 'ValueError'}: {desc}")
        elif kind in ("returns", "yields", "receives"):
            lines.append(f":returns: {desc}")
            if ann:
                lines.append(f":rtype: {ann}")
        else:
            lines.append(f"Some more text about {name}.")
    return lines


# ============================================================================ statements: strategies
def _params(ann, default):
    """Function parameter lists: {"po","pk","ko": [[name, annotation|None, default|None]], "va","vk": [name, annotation|None]|None}."""

    @st.composite
    def build(draw):
        names = iter(draw(st.permutations(PARAM_NAMES)))
        n_po, n_pk, n_ko = draw(st.integers(0, 2)), draw(st.integers(0, 2)), draw(st.integers(0, 2))
        npos = n_po + n_pk
        first_default = draw(st.integers(0, npos))
        oann = st.none() | ann
        pos = [[next(names), draw(oann), draw(default) if i >= first_default else None] for i in range(npos)]
        va = [next(names), draw(oann)] if draw(st.booleans()) else None
        ko = [[next(names), draw(oann), draw(st.none() | default)] for _ in range(n_ko)]
        vk = [next(names), draw(oann)] if draw(st.booleans()) else None
        return {"po": pos[:n_po], "pk": pos[n_po:], "va": va, "ko": ko, "vk": vk}

    return build()


def _bodies(importable: bool, expr_leaves: int, eval_annotations: bool = False):
    ann = safe_values(expr_leaves) if eval_annotations else full_exprs(expr_leaves, annotation_safe=importable)
    value = safe_values(expr_leaves) if importable else full_exprs(expr_leaves)
    odoc = st.none() | docstrings()
    params = _params(ann, value)

    attr = st.tuples(st.just("attr"), st.sampled_from(ATTR_NAMES), st.none() | ann, st.none() | value, odoc).map(list)
    if importable:
        func_decos = st.lists(st.integers(0, len(FUNC_DECOS) - 1).map(lambda i: ["known", i]), max_size=2)
        class_decos = st.lists(st.integers(0, 1).map(lambda i: ["known", i]), max_size=1)
        bases = st.lists(st.integers(0, 5).map(lambda i: ["earlier", i]), max_size=1)
    else:
        func_decos = st.lists(st.integers(0, len(FUNC_DECOS) - 1).map(lambda i: ["known", i]) | value.map(lambda e: ["expr", e]), max_size=2)
        class_decos = st.lists(st.sampled_from((0, 1, 2, 2, 2)).map(lambda i: ["known", i]) | value.map(lambda e: ["expr", e]), max_size=2)
        bases = st.lists(st.integers(0, 5).map(lambda i: ["earlier", i]) | value.map(lambda e: ["expr", e]), max_size=2)
    # instance attributes assigned in `__init__`: half of the values mention a parameter of that `__init__`
    pref = st.integers(0, 7).map(lambda i: ["param", i])
    selfval = st.one_of(
        full_exprs(expr_leaves, annotation_safe=importable),
        pref,
        pref.map(lambda e: ["call", ["name", "int"], [e], []]),
        pref.map(lambda e: ["boolop", 1, [e, ["const", 17]]]),
    )
    selfattr = st.tuples(st.sampled_from(ATTR_NAMES + ("w",)), st.none() | ann | pref, selfval, odoc).map(list)

    def func(names, method: bool):
        return st.tuples(
            st.just("func"),
            st.sampled_from(names),
            st.fixed_dictionaries(
                {
                    "params": params,
                    "returns": st.none() | ann,
                    "decos": func_decos,
                    "doc": odoc,
                    "async": st.booleans(),
                    "overloads": st.lists(st.tuples(params, st.none() | ann).map(list), max_size=2),
                    # 0 plain, 1 property, 2 +setter, 3 +setter+deleter, 4 functools.cached_property  (methods only)
                    "prop": st.sampled_from((0, 0, 1, 2, 3, 4)) if method else st.just(0),
                    "selfattrs": st.lists(selfattr, max_size=2) if method else st.just([]),
                    # statements nested in the body of `__init__` (Griffe visits that body): a def or a class
                    "inner": st.lists(st.deferred(lambda: func(FUNC_NAMES, method=False) | cls(2)), max_size=1) if method else st.just([]),
                    # one-line form `def f(...): stmt` when the body renders as a single simple statement
                    "oneline": st.booleans(),
                },
            ),
        ).map(list)

    def cls(depth: int):
        # annotated (and mostly documented) class attributes: they become dataclass fields / documented parameters
        field = st.tuples(st.just("attr"), st.sampled_from(ATTR_NAMES), ann, st.none() | value, docstrings() | odoc).map(list)
        # `def __init__(self, p): self.x = p` on one line: an instance attribute on the `def` line itself
        init1 = func(("__init__",), method=True).map(
            lambda st_: [st_[0], st_[1], {**st_[2], "oneline": True, "selfattrs": st_[2]["selfattrs"] or [["x", None, ["param", 0], None]]}],
        )
        members = [attr, field, func(FUNC_NAMES + ("__init__", "__init__"), method=True), init1]
        if depth < 2:
            members.append(st.deferred(lambda: cls(depth + 1)))
        return st.tuples(
            st.just("class"),
            st.sampled_from(CLASS_NAMES),
            st.fixed_dictionaries(
                {
                    "bases": bases,
                    "kw": st.just([]) if importable else st.lists(st.tuples(st.sampled_from(("metaclass", "k")), value).map(list), max_size=1),
                    "decos": class_decos,
                    # a dataclass whose fields feed a synthesised `__init__` (documented parameters); static flavour only
                    "dc": st.just(False) if importable else st.integers(0, 3).map(lambda i: i == 0),
                    # dataclasses only: the first annotated field becomes a documented `dataclasses.InitVar[...]` pseudo-field
                    # (a parameter of the synthesised `__init__` that is not an attribute of the class)
                    "initvar": st.integers(0, 3).map(lambda i: i > 0),
                    # one-line form `class C: x = 1` when the body renders as a single simple statement
                    "oneline": st.booleans(),
                    "doc": odoc,
                    "body": st.lists(st.one_of(members), max_size=3),
                },
            ),
        ).map(list)

    imports = st.one_of(
        st.lists(st.integers(0, len(EXT_IMPORTS) - 1), min_size=1, max_size=2).map(lambda ix: ["import", ix]),
        st.tuples(st.just("from_ext"), st.integers(0, len(EXT_FROM) - 1), st.lists(st.integers(0, 3), min_size=1, max_size=2)).map(list),
        # import from an earlier module of the package: [tag, target index, names (indexes into its defined names) or "*", relative?, alias?]
        st.tuples(st.just("from_sib"), st.integers(0, 3), st.just("*") | st.lists(st.integers(0, 7), min_size=1, max_size=2), st.booleans(), st.booleans()).map(list),
        st.tuples(st.just("import_sib"), st.integers(0, 3), st.integers(0, 2)).map(list),
        st.tuples(st.just("from_missing"), st.sampled_from(("thing", "Missing", "A")), st.booleans()).map(list),
        st.tuples(st.just("all"), st.lists(st.integers(0, 7), max_size=3), st.just(False) if importable else st.booleans()).map(list),
        # a submodule built at import time (types.ModuleType registered in sys.modules, no __file__): the inspector
        # inspects it on the spot and gives it no file path
        st.tuples(st.just("runtime_submodule"), st.sampled_from(("gen", "plug"))).map(list),
    )
    klass = cls(0)
    stmt = st.sampled_from(("attr", "func", "class", "class", "import", "import")).flatmap({"attr": attr, "func": func(FUNC_NAMES, method=False), "class": klass, "import": imports}.__getitem__)
    return st.lists(stmt, max_size=4)


def modules(importable: bool, expr_leaves: int = 6):
    def build(future, body):
        return st.fixed_dictionaries({"doc": st.none() | docstrings(), "future": future, "body": body})

    if not importable:
        return build(st.booleans(), _bodies(False, expr_leaves))
    # importable: annotations are arbitrary under `from __future__ import annotations`, evaluable without it
    return st.one_of(build(st.just(True), _bodies(True, expr_leaves)), build(st.just(False), _bodies(True, expr_leaves, eval_annotations=True)))


def packages(importable: bool | None = None, expr_leaves: int = 6, layouts=("regular", "regular", "namespace")):
    """Package models. importable None -> both flavours."""

    def build(imp: bool):
        mod = modules(imp, expr_leaves)
        return st.fixed_dictionaries(
            {
                "importable": st.just(imp),
                "layout": st.sampled_from(layouts),
                "swap": st.booleans(),
                "mods": st.fixed_dictionaries({"": mod, "a": st.none() | mod, "b": st.none() | mod, "sub": st.none() | mod, "sub.c": st.none() | mod}),
            },
        )

    if importable is None:
        return st.one_of(build(False), build(True))
    return build(importable)


# ============================================================================ rendering
class _Src:
    def __init__(self) -> None:
        self.lines: list[str] = []

    def add(self, indent: int, text: str) -> None:
        pad = "    " * indent
        for line in text.split("\n"):
            self.lines.append((pad + line) if line else "")

    def doc(self, indent: int, doc, style) -> None:
        if doc is None:
            return
        text = doc_text(doc, style)
        body = text.split("\n")
        lead = doc.get("lead", 0)
        if lead and text.strip():
            deeper = "  " if lead == 2 else ""
            self.add(indent, "'''\n" + "\n".join((deeper if i and line else "") + line for i, line in enumerate(body)) + "\n'''")
        elif len(body) == 1:
            self.add(indent, "'''" + body[0] + "'''")
        else:
            self.add(indent, "'''" + "\n".join(body) + "\n'''")

    def join_single_statement(self, head: int) -> None:
        """`header:` + one simple statement on the next line -> `header: statement` on one line."""
        if len(self.lines) == head + 2:
            stmt = self.lines[-1].strip()
            if stmt and not stmt.startswith(("@", "def ", "class ", "async ")):
                self.lines.pop()
                self.lines[head] += " " + stmt

    def text(self) -> str:
        return "\n".join(self.lines) + "\n"


def _slot_path(slot: str, name: str = PKG) -> str:
    return name + ("." + slot if slot else "")


def _present_slots(pkg) -> list[str]:
    mods = pkg["mods"]
    present = [s for s in SLOTS if mods.get(s) is not None]
    if "sub.c" in present and "sub" not in present:
        present.remove("sub.c")
    if pkg["layout"] == "namespace":
        present = [s for s in present if s != ""]
    elif "" not in present:
        present.append("")
    return present


def _params_text(p, method_first: str | None) -> str:
    parts: list[str] = []
    if method_first:
        parts.append(method_first)

    def one(n, a, d):
        s = n
        if a is not None:
            s += ": " + expr_text(a)
        if d is not None:
            s += (" = " if a is not None else "=") + expr_text(d)
        return s

    seen_default = False
    pos = []
    for n, a, d in list(p["po"]) + list(p["pk"]):
        if d is not None:
            seen_default = True
        elif seen_default:
            d = ["const", 17]  # None: keep the list legal whatever the shrinker does
        pos.append((n, a, d))
    n_po = len(p["po"])
    for i, (n, a, d) in enumerate(pos):
        parts.append(one(n, a, d))
        if i == n_po - 1:
            parts.append("/")
    if p["va"]:
        parts.append("*" + one(p["va"][0], p["va"][1], None))
    elif p["ko"]:
        parts.append("*")
    for n, a, d in p["ko"]:
        parts.append(one(n, a, d))
    if p["vk"]:
        parts.append("**" + one(p["vk"][0], p["vk"][1], None))
    return ", ".join(parts)


class _ModRenderer:
    def __init__(self, pkg, slot: str, style, earlier: list[tuple[str, list[str]]], name: str = PKG) -> None:
        self.pkg = pkg
        self.name = name
        self.slot = slot
        self.style = style
        self.importable = pkg["importable"]
        self.earlier = earlier  # [(slot, defined names)] of modules rendered before (leaves first)
        self.src = _Src()
        self.classes: list[str] = []  # classes defined so far at module level (for `earlier` bases)
        self.names: list[str] = []  # names bound so far at module level

    def render(self, mod) -> str:
        s = self.src
        s.doc(0, mod["doc"], self.style)
        if mod["future"]:
            s.add(0, "from __future__ import annotations")
        s.add(0, "import typing, functools, abc, dataclasses")
        s.add(0, "import os.path as ospath")
        s.add(0, "from functools import partial as P, wraps")
        self.body(0, mod["body"], in_class=None)
        doc = mod["doc"]
        if doc and self.earlier and any(DOC_KINDS[k % len(DOC_KINDS)] == "attributes" and any(n in REEXPORTED for n, _, _ in items) for k, items in doc["sections"]):
            # a module that documents a re-exported name re-exports it: wildcard import of an earlier module, below the prelude
            s.add(0, f"from {_slot_path(self.earlier[0][0], self.name)} import *")
        return s.text()

    # -- helpers
    def _deco(self, d, table) -> str:
        if d[0] == "known":
            return table[d[1] % len(table)]
        return expr_text(d[1])

    def _base(self, b) -> str | None:
        if b[0] == "expr":
            return expr_text(b[1])
        # classes defined earlier in the module count double: a loaded base class is what makes MRO-dependent code run
        pool = self.classes * 2 + (["Exception", "dict"] if self.importable else ["Exception", "Missing", "typing.Generic[T]"])
        return pool[b[1] % len(pool)]

    def body(self, indent: int, stmts, in_class: str | None) -> None:
        for stmt in stmts:
            tag = stmt[0]
            if tag == "attr":
                self.attr(indent, stmt, target=stmt[1])
            elif tag == "func":
                self.func(indent, stmt, in_class)
            elif tag == "class":
                self.cls(indent, stmt, in_class)
            elif in_class is None:
                self.imp(stmt)

    def attr(self, indent: int, stmt, target: str) -> None:
        _, _name, ann, val, doc = stmt
        s = self.src
        if ann is None and val is None:
            return
        if ann is not None and val is not None:
            s.add(indent, f"{target}: {expr_text(ann)} = {expr_text(val)}")
        elif ann is not None:
            s.add(indent, f"{target}: {expr_text(ann)}")
        else:
            s.add(indent, f"{target} = {expr_text(val)}")
        s.doc(indent, doc, self.style)
        if indent == 0 and val is not None and target not in self.names:
            self.names.append(target)

    def func(self, indent: int, stmt, in_class: str | None) -> None:
        _, name, spec = stmt
        s = self.src
        if spec.get("oneline") and in_class is not None and name == "__init__" and spec["selfattrs"]:
            # `def __init__(self, p): self.x = p` - the body is the first assignment, on the `def` line itself
            first_attr = spec["selfattrs"][0]
            spec = {**spec, "doc": None, "inner": [], "selfattrs": [[first_attr[0], first_attr[1], first_attr[2], None]]}
        if in_class is not None and name == "__init__" and "init-param-names" in _CTX["steer"]:
            # known finding init-param-names: no `__init__` parameter shares its name with a name used in expressions
            def ren(entry):
                return [entry[0] + "_" if entry[0] in EXPR_NAMES else entry[0], *entry[1:]]

            p = spec["params"]
            spec = {**spec, "params": {"po": [ren(e) for e in p["po"]], "pk": [ren(e) for e in p["pk"]], "va": ren(p["va"]) if p["va"] else None, "ko": [ren(e) for e in p["ko"]], "vk": ren(p["vk"]) if p["vk"] else None}}
        decos = [self._deco(d, FUNC_DECOS) for d in spec["decos"]]
        prop = spec["prop"] if in_class is not None and name != "__init__" else 0
        if name == "__init__" or prop:
            decos = [d for d in decos if d not in ("staticmethod", "classmethod")]
        if self.importable and prop:
            decos = []
        if self.importable:
            # staticmethod / classmethod objects are not acceptable arguments of the other decorators: keep them outermost
            decos = sorted(dict.fromkeys(decos), key=lambda d: d not in ("staticmethod", "classmethod"))
            if "staticmethod" in decos and "classmethod" in decos:
                decos.remove("classmethod")
        first = None
        if in_class is not None:
            first = "cls" if "classmethod" in decos else (None if "staticmethod" in decos else "self")
        kw = "async def" if spec["async"] and not prop else "def"
        # (an overloaded def nested in `__init__` crashes the visitor - TypeError on Function.overloads - which is a loading
        # defect outside C08: nested functions get no overloads)
        nested = in_class is None and indent > 0
        for oparams, oret in spec["overloads"] if not (prop or nested) else []:
            s.add(indent, "@typing.overload")
            ret = f" -> {expr_text(oret)}" if oret is not None else ""
            s.add(indent, f"{kw} {name}({_params_text(oparams, first)}){ret}: ...")
        if prop:
            decos.append("functools.cached_property" if prop == 4 else "property")
        for d in decos:
            s.add(indent, "@" + d)
        ret = f" -> {expr_text(spec['returns'])}" if spec["returns"] is not None else ""
        ptxt = _params_text(spec["params"], first) if not prop else "self"
        s.add(indent, f"{kw} {name}({ptxt}){ret}:")
        head = len(s.lines) - 1
        s.doc(indent + 1, spec["doc"], self.style)
        wrote = spec["doc"] is not None
        if in_class is not None and name == "__init__":
            p = spec["params"]
            _CTX["params"] = [x[0] for x in list(p["po"]) + list(p["pk"]) + ([p["va"]] if p["va"] else []) + list(p["ko"]) + ([p["vk"]] if p["vk"] else [])]
            for sa in spec["selfattrs"]:
                mark = len(s.lines)
                # known finding init-forwarded-annotation: no name shared with a class-level (annotated) attribute
                suffix = "_i" if "init-forwarded-annotation" in _CTX["steer"] else ""
                sdoc = sa[3]
                if sdoc is not None and "parsed-annotation-scope" in _CTX["steer"]:
                    # known finding parsed-annotation-scope: docstrings of attributes assigned in `__init__` have no
                    # sections (a section item without type would borrow the annotation of the attribute)
                    sdoc = {**sdoc, "sections": []}
                self.attr(indent + 1, ["attr", sa[0], sa[1], sa[2], sdoc], target="self." + sa[0] + suffix)
                wrote = wrote or len(s.lines) > mark
            for inner in spec.get("inner", ()):
                if "init-param-names" in _CTX["steer"] and inner[1] in EXPR_NAMES:
                    inner = [inner[0], inner[1] + "_", inner[2]]  # known finding: names defined in `__init__` stay unmentioned
                if inner[0] == "func":
                    self.func(indent + 1, inner, None)
                else:
                    self.cls(indent + 1, inner, None)
                wrote = True
        if not wrote:
            s.add(indent + 1, "...")
        if spec.get("oneline"):
            s.join_single_statement(head)
        if prop in (2, 3):
            s.add(indent, f"@{name}.setter")
            s.add(indent, f"def {name}(self, value): ...")
        if prop == 3:
            s.add(indent, f"@{name}.deleter")
            s.add(indent, f"def {name}(self): ...")
        if indent == 0 and name not in self.names:
            self.names.append(name)

    def cls(self, indent: int, stmt, in_class: str | None) -> None:
        _, name, spec = stmt
        s = self.src
        if spec.get("oneline"):
            # `class C: x = 1` - the body is the first attribute statement, on the `class` line itself
            attrs = [st_ for st_ in spec["body"] if st_[0] == "attr" and (st_[2] is not None or st_[3] is not None)]
            if attrs:
                spec = {**spec, "doc": None, "body": [[*attrs[0][:4], None]]}
        if name == in_class and "init-param-names" in _CTX["steer"]:
            name += "_"  # known finding: inside `__init__` the class name designates the class, not its member of that name
        decos = [self._deco(d, CLASS_DECOS) for d in spec["decos"]]
        if self.importable:
            decos = [d for d in decos if d != "dataclasses.dataclass"]
        elif spec.get("dc"):
            decos = ["dataclasses.dataclass", *[d for d in decos if d != "dataclasses.dataclass"]]
            # the extension only synthesises `__init__` when the class does not define one
            spec = {**spec, "body": [(["func", "f", st_[2]] if st_[0] == "func" and st_[1] == "__init__" else st_) for st_ in spec["body"]]}
            if spec.get("initvar"):
                body, done = [], False
                for st_ in spec["body"]:
                    if not done and st_[0] == "attr" and st_[2] is not None:
                        st_ = ["attr", st_[1], ["subscript", ["attr", ["name", "dataclasses"], "InitVar"], st_[2]], st_[3], st_[4] or {"sum": 0, "sections": []}]
                        done = True
                    body.append(st_)
                if not done:
                    body.insert(0, ["attr", "x", ["subscript", ["attr", ["name", "dataclasses"], "InitVar"], ["name", "int"]], ["const", 0], {"sum": 0, "sections": []}])
                spec = {**spec, "body": body}
        if "init-forwarded-annotation" in _CTX["steer"]:
            # known finding: the scope of attributes assigned by an `__init__` that is redefined later cannot be recovered
            seen_init, body = False, []
            for st_ in spec["body"]:
                if st_[0] == "func" and st_[1] == "__init__":
                    if seen_init:
                        st_ = ["func", "g", st_[2]]
                    seen_init = True
                body.append(st_)
            spec = {**spec, "body": body}
        for d in decos:
            s.add(indent, "@" + d)
        args = [b for b in (self._base(b) for b in spec["bases"]) if b]
        if "dataclasses.dataclass" in decos and "dataclass-inherited-fields" in _CTX["steer"]:
            args = []  # known finding dataclass-inherited-fields: dataclasses do not inherit
        if self.importable:
            args = [a for a in dict.fromkeys(args) if a != name][:1]
        args += [f"{k}={expr_text(v)}" for k, v in spec["kw"]]
        s.add(indent, f"class {name}({', '.join(args)}):" if args else f"class {name}:")
        mark = len(s.lines)
        s.doc(indent + 1, spec["doc"], self.style)
        self.body(indent + 1, spec["body"], in_class=name)
        if len(s.lines) == mark:
            s.add(indent + 1, "pass")
        if spec.get("oneline"):
            s.join_single_statement(mark - 1)
        if indent == 0:
            if name not in self.classes:
                self.classes.append(name)
            if name not in self.names:
                self.names.append(name)

    def _guarded(self, line: str) -> None:
        s = self.src
        if self.importable:
            s.add(0, "if typing.TYPE_CHECKING:")
            s.add(1, line)
        else:
            s.add(0, line)

    def imp(self, stmt) -> None:
        s = self.src
        tag = stmt[0]
        if tag == "import":
            parts = []
            for i in stmt[1]:
                mod, asname = EXT_IMPORTS[i % len(EXT_IMPORTS)]
                parts.append(mod + (f" as {asname}" if asname else ""))
            s.add(0, "import " + ", ".join(dict.fromkeys(parts)))
        elif tag == "from_ext":
            mod, names = EXT_FROM[stmt[1] % len(EXT_FROM)]
            chosen = list(dict.fromkeys(names[i % len(names)] for i in stmt[2]))
            if any(n == "*" for n, _ in chosen):
                s.add(0, f"from {mod} import *")
            else:
                s.add(0, f"from {mod} import " + ", ".join(n + (f" as {a}" if a else "") for n, a in chosen))
                # names imported from the standard library are bound too: they can be listed in `__all__` and re-exported
                # through a wildcard import of a later module (alias -> alias -> object that is not loaded)
                for n, a in chosen:
                    if (a or n) not in self.names:
                        self.names.append(a or n)
        elif tag in ("from_sib", "import_sib"):
            if not self.earlier:
                return
            slot, defined = self.earlier[stmt[1] % len(self.earlier)]
            target = _slot_path(slot, self.name)
            if tag == "import_sib":
                rel = self._relative(slot)
                if stmt[2] == 2 and rel is not None and rel.count(".") == len(rel) - len(rel.lstrip(".")) and "." not in rel.lstrip("."):
                    s.add(0, f"from {rel[: len(rel) - len(rel.lstrip('.'))]} import {rel.lstrip('.')}")
                elif stmt[2] == 1:
                    s.add(0, f"import {target} as sibling")
                else:
                    s.add(0, f"import {target}")
                return
            _, _, names, relative, alias = stmt
            modref = self._relative(slot) if relative else target
            if modref is None:
                modref = target
            if names == "*":
                s.add(0, f"from {modref} import *")
                return
            if not defined:
                if self.importable:
                    return
                chosen = ["Missing"]
            else:
                chosen = list(dict.fromkeys(defined[i % len(defined)] for i in names))
            items = [n + (f" as {n}{n}" if alias and k == 0 else "") for k, n in enumerate(chosen)]
            s.add(0, f"from {modref} import " + ", ".join(items))
            for k, n in enumerate(chosen):
                bound = n + n if alias and k == 0 else n
                if bound not in self.names:
                    self.names.append(bound)
        elif tag == "from_missing":
            name = stmt[1]
            self._guarded(f"from missing_mod_zz import {name}" + (" as thing2" if stmt[2] else ""))
        elif tag == "runtime_submodule":
            n = stmt[1]
            s.add(0, "import sys as _sys, types as _types")
            s.add(0, f"{n} = _types.ModuleType(__name__ + '.{n}', 'Generated submodule.')")
            s.add(0, f"def _{n}_hello(a: int = 1) -> int:")
            s.add(1, "'''Say hello.'''")
            s.add(1, "return a")
            s.add(0, f"_{n}_hello.__module__ = {n}.__name__")
            s.add(0, f"_{n}_hello.__qualname__ = _{n}_hello.__name__ = 'hello'")
            s.add(0, f"{n}.hello = _{n}_hello")
            s.add(0, f"{n}.VALUE = 3")
            s.add(0, f"_sys.modules[{n}.__name__] = {n}")
            if n not in self.names:
                self.names.append(n)
        elif tag == "all":
            pool = self.names + ["P", "wraps"] if self.importable else self.names + ["P", "Missing", "x", "wraps"]
            chosen = list(dict.fromkeys(pool[i % len(pool)] for i in stmt[1])) if pool else []
            if stmt[2] and chosen:
                s.add(0, "__all__ = [" + ", ".join(repr(n) for n in chosen[:1]) + "]")
                s.add(0, "__all__ += [" + ", ".join(repr(n) for n in chosen[1:]) + "]")
            else:
                s.add(0, "__all__ = [" + ", ".join(repr(n) for n in chosen) + "]")

    def _relative(self, target_slot: str) -> str | None:
        """Relative module reference from this module to `target_slot` (None when not expressible simply)."""
        here_pkg = {"": "", "a": "", "b": "", "sub": "sub", "sub.c": "sub"}[self.slot]
        if here_pkg == "":
            return "." + target_slot if target_slot else None
        # inside sub: `..a`, `..b`, `.c`
        if target_slot.startswith("sub."):
            return "." + target_slot[4:]
        if target_slot in ("a", "b"):
            return ".." + target_slot
        return None


def render_package(pkg, root: Path, style: str | None = None, name: str = PKG, steer=()) -> dict:
    """Write the package under `root`. Returns {"search_paths": [...], "files": {relative path: text}, "name": PKG}."""
    root = Path(root)
    _CTX["steer"] = frozenset(steer)
    present = _present_slots(pkg)
    namespace = pkg["layout"] == "namespace"
    sp1, sp2 = root / "sp1", root / "sp2"
    files: dict[str, str] = {}
    earlier: list[tuple[str, list[str]]] = []
    for slot in present:  # SLOTS order = leaves first
        mod = pkg["mods"][slot] if pkg["mods"].get(slot) is not None else {"doc": None, "future": True, "body": []}
        r = _ModRenderer(pkg, slot, style, list(earlier), name)
        text = r.render(mod)
        base = sp2 if (namespace and slot == "b") else sp1
        if slot == "":
            rel = f"{name}/__init__.py"
        elif slot == "sub":
            rel = f"{name}/sub/__init__.py"
        elif slot == "sub.c":
            rel = f"{name}/sub/c.py"
        else:
            rel = f"{name}/{slot}.py"
        path = base / rel
        path.parent.mkdir(parents=True, exist_ok=True)
        path.write_text(text, encoding="utf8")
        files[str(path.relative_to(root))] = text
        earlier.append((slot, list(r.names)))
    if namespace:
        (sp1 / name).mkdir(parents=True, exist_ok=True)
        (sp2 / name).mkdir(parents=True, exist_ok=True)
        # the order of the search paths is drawn independently of the directory names (sp2 before sp1 when swapped)
        paths = [str(sp2), str(sp1)] if pkg.get("swap") else [str(sp1), str(sp2)]
    else:
        paths = [str(sp1)]
    return {"search_paths": paths, "files": files, "name": name}
