"""C16 — generators of member-mutation histories: Hypothesis strategies over operation lists, a real
RuleBasedStateMachine over the same operations, and the finite alphabet for the exhaustive short sequences."""

from __future__ import annotations

import itertools

from hypothesis import strategies as st

from vp.gen.c16_world import NAMES

# ----------------------------------------------------------------------------- random histories
APIS_SET = ("set_member", "setitem")
APIS_DEL = ("del_member", "delitem")
FORMS = ("str", "tuple", "list")
FPS = (None, None, "py", "pyi", "py2", "pyi2")


def _weighted(*pairs):
    out = []
    for weight, strat in pairs:
        out.extend([strat] * weight)
    return st.one_of(*out)


def op_strategies(n_names: int = 4, max_sel: int = 9):
    names = st.sampled_from(NAMES[:n_names])
    sel = st.integers(0, max_sel)
    literal = st.lists(names, min_size=0, max_size=3)
    literal1 = st.lists(names, min_size=1, max_size=3)
    cref = _weighted((7, sel), (1, literal))
    nref = _weighted((7, sel), (1, literal1))
    pk = st.booleans()
    klen = st.integers(1, 3)
    val = _weighted(
        (2, st.tuples(st.just("module"), st.sampled_from(FPS), pk)),
        (3, st.tuples(st.just("class"), pk)),
        (2, st.tuples(st.just("function"), pk)),
        (1, st.tuples(st.just("attribute"), pk)),
        (3, st.tuples(st.just("alias-path"), _weighted((5, sel), (1, literal1)), pk)),
        (2, st.tuples(st.just("alias-obj"), sel, pk)),
        (2, st.tuples(st.just("limbo"), st.integers(0, 2))),
    ).map(list)
    set_op = st.tuples(st.just("set"), st.sampled_from(APIS_SET), st.sampled_from(FORMS), cref, names, klen, val).map(list)
    tref = sel.map(lambda n: {"t": n})
    mref = sel.map(lambda n: {"kind": "module", "n": n})
    nref = _weighted((5, sel), (2, tref), (1, literal1))
    del_op = st.tuples(st.just("del"), st.sampled_from(APIS_DEL), st.sampled_from(FORMS), nref, klen).map(list)
    fresh = _weighted(
        (1, st.tuples(st.just("module"), st.sampled_from(FPS), pk)),
        (3, st.tuples(st.just("class"), pk)),
        (2, st.tuples(st.just("function"), pk)),
        (2, st.tuples(st.just("alias-path"), sel, pk)),
        (1, st.tuples(st.just("alias-obj"), sel, pk)),
        (1, st.tuples(st.just("limbo"), st.integers(0, 2))),
    ).map(list)
    set_at_op = st.tuples(
        st.just("set-at"), st.sampled_from(("set_member", "set_member", "setitem")), st.sampled_from(FORMS),
        _weighted((1, sel), (2, tref)), klen, fresh,
    ).map(list)
    resolve_op = st.tuples(st.just("resolve"), sel, st.sampled_from(("resolve_target", "target", "final_target"))).map(list)
    retarget_op = st.tuples(
        st.just("retarget"), sel, st.sampled_from(("obj", "obj", "obj", "self", "same-obj", "same-alias")), sel
    ).map(list)
    # composite: move = delete, then re-insert the detached subtree somewhere else
    move = st.tuples(
        del_op,
        st.tuples(st.just("set"), st.sampled_from(APIS_SET), st.sampled_from(FORMS), sel, names, klen, st.just(["limbo", 0])).map(list),
    ).map(list)
    # composite: an alias and its resolution
    alias_resolved = st.tuples(
        st.tuples(st.just("set"), st.sampled_from(APIS_SET), st.sampled_from(FORMS), sel, names, klen,
                  st.tuples(st.just("alias-path"), sel, pk).map(list)).map(list),
        st.tuples(st.just("resolve"), sel, st.sampled_from(("resolve_target", "target", "final_target"))).map(list),
    ).map(list)
    # replace a module by a module with another file path (regular/stubs merge), fresh or moved
    stub_op = st.tuples(
        st.just("set-at"), st.just("set_member"), st.sampled_from(FORMS), mref, klen,
        _weighted((3, st.tuples(st.just("module"), st.sampled_from(FPS[2:]), pk)), (1, st.tuples(st.just("limbo"), st.integers(0, 2)))).map(list),
    ).map(list)
    switch_op = st.just(["switch"])
    # move something (often a top-level module) into the other collection: delete, switch, re-insert at the top level
    rehome = st.tuples(
        st.tuples(st.just("del"), st.sampled_from(APIS_DEL), st.sampled_from(FORMS), _weighted((3, mref), (1, sel)), klen).map(list),
        switch_op,
        st.tuples(st.just("set"), st.sampled_from(APIS_SET), st.sampled_from(FORMS), st.just([]), names, st.just(1), st.just(["limbo", 0])).map(list),
    ).map(list)
    return {
        "switch": switch_op, "rehome": rehome,
        "stub": stub_op,
        "set": set_op, "set-at": set_at_op, "del": del_op, "resolve": resolve_op, "retarget": retarget_op,
        "move": move, "alias_resolved": alias_resolved,
    }


def history_strategy(max_len: int = 40, n_names: int = 4):
    ops = op_strategies(n_names)
    one = lambda s: s.map(lambda op: [op])  # noqa: E731
    chunk = _weighted(
        (7, one(ops["set"])), (3, one(ops["set-at"])), (3, one(ops["del"])), (3, one(ops["resolve"])), (2, one(ops["retarget"])),
        (2, ops["move"]), (2, ops["alias_resolved"]), (1, one(ops["stub"])), (1, one(ops["switch"])), (1, ops["rehome"]),
    )
    prelude = st.sampled_from(("empty", "populated", "rich", "rich", "rich"))
    return st.tuples(prelude, st.lists(chunk, min_size=3, max_size=max_len)).map(
        lambda pc: {"prelude": pc[0], "ops": [op for c in pc[1] for op in c][:max_len]}
    )


# ----------------------------------------------------------------------------- the state machine
def make_machine(n_names: int, known, on_done):
    """A RuleBasedStateMachine whose rules are the operations; the machine owns a World, checks the invariants
    after every rule (inside World.step) and hands the executed operation list to on_done(ops, fails, world)."""
    from hypothesis.stateful import RuleBasedStateMachine, initialize, precondition, rule

    from vp.gen.c16_world import World

    ops = op_strategies(n_names)

    class MemberHistory(RuleBasedStateMachine):
        def __init__(self):
            super().__init__()
            self.world = World(known)
            self.ops = []
            self.fails = []
            self.prelude = "empty"

        @initialize(name=st.sampled_from(("empty", "populated", "rich", "rich")))
        def start(self, name):
            self.prelude = name
            for op in PRELUDES[name]:
                if self.world.step(op, check=False):
                    raise AssertionError("prelude fails")

        def _do(self, op):
            if self.fails:  # model and tree have diverged: the history ends here (rules become no-ops)
                return
            self.ops.append(op)
            self.fails = self.world.step(op)

        @rule(op=ops["set"])
        def set_member(self, op):
            self._do(op)

        @rule(op=ops["del"])
        def delete_member(self, op):
            self._do(op)

        @precondition(lambda self: bool(self.world.nodes()))
        @rule(op=ops["set-at"])
        def replace_member(self, op):
            self._do(op)

        @precondition(lambda self: bool(self.world.tree_aliases()))
        @rule(op=ops["resolve"])
        def resolve(self, op):
            self._do(op)

        @precondition(lambda self: bool(self.world.tree_aliases()))
        @rule(op=ops["retarget"])
        def retarget(self, op):
            self._do(op)

        @precondition(lambda self: bool(self.world.limbo))
        @rule(pair=ops["move"])
        def reinsert_detached(self, pair):
            self._do(pair[1])

        @rule()
        def switch_collection(self):
            self._do(["switch"])

        def teardown(self):
            on_done(self.prelude, self.ops, self.fails, self.world)

    return MemberHistory


# ----------------------------------------------------------------------------- exhaustive short sequences
# Prelude: a small populated tree, built with the same operations (literal refs), over the universe {a, b, c}.
PRELUDE = [
    ["set", "set_member", "str", [], "a", 1, ["module", None, False]],
    ["set", "set_member", "str", [], "b", 1, ["module", None, False]],
    ["set", "set_member", "str", ["a"], "a", 1, ["class", False]],
    ["set", "set_member", "str", ["a", "a"], "a", 1, ["function", False]],
    ["set", "set_member", "str", ["a"], "b", 1, ["alias-path", ["a", "a"], False]],
    ["resolve", ["a", "b"], "resolve_target"],
    ["set", "set_member", "str", ["b"], "a", 1, ["alias-obj", ["a", "a", "a"], False]],
]
_S = lambda cont, name, val: ["set", "set_member", "str", cont, name, 1, val]  # noqa: E731
PRELUDE_RICH = [
    _S([], "a", ["module", "py", False]),
    _S(["a"], "a", ["class", False]),
    _S(["a", "a"], "a", ["function", False]),
    _S(["a", "a"], "b", ["attribute", False]),
    _S(["a"], "b", ["alias-path", ["a", "a"], False]),
    ["resolve", ["a", "b"], "resolve_target"],
    _S(["a"], "c", ["module", None, False]),
    _S(["a", "c"], "a", ["class", False]),
    _S([], "b", ["module", None, False]),
    _S(["b"], "a", ["alias-obj", ["a", "a", "a"], False]),
    _S(["b"], "b", ["class", False]),
    _S(["b", "b"], "a", ["alias-path", ["a", "c", "a"], False]),
    _S(["b"], "c", ["function", False]),
    _S(["b"], "d", ["alias-path", ["a", "b"], False]),
]
PRELUDES = {"empty": [], "populated": PRELUDE, "rich": PRELUDE_RICH}
EXHAUSTIVE_PRELUDES = ("empty", "populated")


def alphabet(level: int):
    """Finite operation alphabet over names {a,b,c}; level 0 (quick) is a subset of level 1 (thorough)."""
    ops = []
    tops = [["a"], ["b"]]
    inner = [["a", "a"], ["a", "b"], ["a", "c"], ["b", "a"], ["a", "a", "a"]]
    if level >= 1:
        tops.append(["c"])
        inner += [["a", "a", "b"]]
    apis = APIS_SET
    for path in tops:
        for api in apis:
            ops.append(["set", api, "str", [], path[0], 1, ["module", None, False]])
    for path in inner:
        cont, name = path[:-1], path[-1]
        vals = [["class", False], ["alias-path", ["a", "a"], False], ["alias-obj", ["a", "a"], False]]
        if level >= 1:
            vals += [["function", False], ["alias-path", ["a", "b"], True]]
        for val in vals:
            # by name on the parent through set_member; by dotted path / tuple from the collection through both APIs
            ops.append(["set", "set_member", "str", cont, name, 1, val])
            ops.append(["set", "setitem", "tuple", cont, name, len(path), val])
            if level >= 1:
                ops.append(["set", "set_member", "str", cont, name, len(path), val])
    # an alias whose target is another (possibly still lazy) alias: chain b.a -> a.c -> ...
    ops.append(["set", "set_member", "str", ["b"], "a", 1, ["alias-obj", ["a", "c"], False]])
    ops.append(["set", "setitem", "tuple", ["b"], "a", 2, ["alias-obj", ["a", "c"], False]])
    # moves: the detached subtree keeps its own name, so one operation per container
    conts = []
    for path in inner:
        if path[:-1] not in conts:
            conts.append(path[:-1])
    ops.append(["switch"])
    if level == 0:
        ops.append(["set", "set_member", "str", [], "a", 1, ["limbo", 0]])
    for cont in ([[]] if level >= 1 else []) + conts:
        ops.append(["set", "set_member", "str", cont, "a", 1, ["limbo", 0]])
        ops.append(["set", "setitem", "tuple", cont, "a", len(cont) + 1, ["limbo", 0]])
    for path in tops + inner:
        ops.append(["del", "del_member", "str", path, len(path)])
        ops.append(["del", "delitem", "tuple", path, 1])
        if level >= 1:
            ops.append(["del", "delitem", "str", path, len(path)])
    for apath in (["a", "b"], ["b", "a"], ["a", "c"]):
        ops.append(["resolve", apath, "resolve_target"])
        ops.append(["retarget", apath, "obj", ["a", "a"]])
        ops.append(["retarget", apath, "self", 0])
        ops.append(["retarget", apath, "same-obj", 0])
        if level >= 1:
            ops.append(["resolve", apath, "target"])
            ops.append(["retarget", apath, "obj", ["a", "a", "a"]])
            ops.append(["retarget", apath, "same-alias", 0])
    return ops


def sequences(alpha_len: int, max_len: int):
    """Index tuples of every sequence of length 1..max_len."""
    for n in range(1, max_len + 1):
        yield from itertools.product(range(alpha_len), repeat=n)
