"""O-REF for C01: a reference binder written from the property text and CPython's `ast` only.

It never imports Griffe. Input: module text, dotted module name, whether the file is an `__init__` module.
Output: a tree of `Scope`s (module, classes) holding, per bound name, the list of *acceptable surviving bindings*
(`Cand`); `None` inside that list means "absence is acceptable too".

Tie-break rules encoded (property statement + DESIGN 4/C01):
  * later definitions win: def / class / import always; Assign / AnnAssign when unconditional (directly in the scope
    body, or directly in the body of a try / for / with that is itself directly in the scope body);
  * a conditional re-assignment (every enclosing block between the scope and the assignment is an if-body, an
    else/elif-body or an except-handler) does not displace an existing *attribute*; over an existing function /
    class / alias the statement is silent: either binding is accepted;
  * any other nesting (if -> with -> assignment, try-else, finally, for-else ...): either binding is accepted;
  * unsupported binders (tuple / list / starred / subscript targets, walrus, for-targets, with-as, except-as,
    augmented assignment) bind nothing; `x.y = 1` binds nothing;
  * `self.<name> = ...` / `self.<name>: T [= ...]` anywhere in the statement tree of a class-level `__init__`
    (not inside nested functions/classes) binds an instance attribute on the class, same tie-break rules;
  * only an `__init__` defined in a class body contributes instance attributes: functions called `__init__` elsewhere, and
    `self.x = ...` in any other function, bind nothing; `__all__` below a class is an ordinary attribute;
  * functions decorated with typing.overload bind nothing by themselves (they are attached to the implementation that
    follows; the generator only emits complete groups);
  * a function whose decorators resolve to a property-labelled decorator is bound as an attribute;
  * `@x.setter` / `@x.deleter def x` when a binding of `x` already exists in the scope (of any kind): the existing binding, or
    the new definition as attribute or as function, are all accepted; an instance attribute assigned over a property of the
    same name: either;
  * `while` and `match` are not among the blocks the property names: whatever is bound inside them may or may not be
    extracted (names are "tainted": absence, or any of the bindings of that name, is accepted);
  * `exports` are those of the surviving `__all__` binding (a conditional re-assignment that does not displace the existing
    `__all__` attribute does not change them), extended by later unconditional `__all__ += [...]`.
"""

from __future__ import annotations

import ast
import inspect
from dataclasses import dataclass, field

LABEL_TABLE = {
    "property": {"property"},
    "staticmethod": {"staticmethod"},
    "classmethod": {"classmethod"},
    "abc.abstractmethod": {"abstractmethod"},
    "functools.cache": {"cached"},
    "functools.cached_property": {"cached", "property"},
    "cached_property.cached_property": {"cached", "property"},
    "functools.lru_cache": {"cached"},
    "dataclasses.dataclass": {"dataclass"},
}
DECORATOR_LABELS = {"property", "staticmethod", "classmethod", "abstractmethod", "cached", "dataclass"}
OVERLOADS = {"typing.overload", "typing_extensions.overload"}
TC_TESTS = {"TYPE_CHECKING", "typing.TYPE_CHECKING"}
UNKNOWN = object()


@dataclass
class Cand:
    """One acceptable surviving binding."""

    name: str
    kind: str  # function | class | attribute | alias
    node: ast.AST  # the binding statement
    mode: str  # wins | keeps | either  (how it was applied)
    guarded: bool | None  # lexically inside `if TYPE_CHECKING:` body (None: the source leaves it open)
    doc: ast.Constant | None = None  # own docstring literal
    labels: set | None = None  # decorator-derived labels (None: not decidable from the source)
    is_async: bool = False
    target: str | None = None  # alias target path (None: not decidable)
    child: "Scope | None" = None  # class scope
    via_init: ast.AST | None = None  # the __init__ def this instance attribute comes from
    has_value: bool = True
    nest: int = 0  # number of compound statements between the scope (or __init__) body and the statement
    is_setter: bool = False  # `@name.setter` / `@name.deleter` definition over an existing property

    @property
    def span(self) -> tuple[int, int]:
        return (self.node.lineno, self.node.end_lineno)


@dataclass
class Scope:
    kind: str  # module | class
    path: str
    node: ast.AST
    parent: "Scope | None" = None
    state: dict = field(default_factory=dict)  # name -> list[Cand | None]
    history: dict = field(default_factory=dict)  # name -> list[Cand] every binding ever applied, in order
    imports: dict = field(default_factory=dict)  # name -> path | None
    exports: object = None  # None | list | UNKNOWN
    wildcards: list = field(default_factory=list)
    tainted: set = field(default_factory=set)  # names whose presence/kind the text leaves open
    doc: ast.Constant | None = None
    inits: list = field(default_factory=list)  # __init__ defs walked for instance attributes

    @property
    def module(self) -> "Scope":
        s = self
        while s.parent is not None:
            s = s.parent
        return s


def literal_doc(body: list) -> ast.Constant | None:
    if body and isinstance(body[0], ast.Expr) and isinstance(body[0].value, ast.Constant) and isinstance(body[0].value.value, str):
        return body[0].value
    return None


def doc_texts(const: ast.Constant) -> set:
    """Acceptable cleaned texts of a docstring literal (CPython's cleaning; trailing whitespace of the literal may be dropped)."""
    v = const.value
    return {inspect.cleandoc(v), inspect.cleandoc(v.rstrip())}


def dotted(expr: ast.AST) -> str | None:
    parts = []
    while isinstance(expr, ast.Attribute):
        parts.append(expr.attr)
        expr = expr.value
    if isinstance(expr, ast.Name):
        parts.append(expr.id)
        return ".".join(reversed(parts))
    return None


def classify(path: list) -> str:
    """Mode of an Assign/AnnAssign given the blocks between the scope body and the statement."""
    if not path:
        return "wins"
    if len(path) == 1 and path[0] in ("try.body", "for.body", "with.body"):
        return "wins"
    if all(p in ("if.body", "if.orelse", "except.body") for p in path):
        return "keeps"
    return "either"


class Binder:
    def __init__(self, text: str, modname: str, is_init: bool = False):
        self.text = text
        self.tree = ast.parse(text)
        self.modname = modname
        self.is_init = is_init
        self._open = 0  # >0 while inside a while / match block (blocks the property does not name)
        self.root = Scope("module", modname, self.tree, doc=literal_doc(self.tree.body))
        self.block(self.root, self.tree.body, [], False)
        self._finish(self.root)

    # ------------------------------------------------------------------ state transitions
    def bind(self, scope: Scope, c: Cand) -> None:
        cur = scope.state.get(c.name)
        scope.history.setdefault(c.name, []).append(c)
        if self._open:
            scope.tainted.add(c.name)  # bound inside while/match: the statement does not say whether it is extracted
        if not cur:
            scope.state[c.name] = [c]
            return
        if c.mode == "wins":
            new = [c]
        elif c.mode == "either":
            new = list(cur) + [c]
        else:  # keeps: an existing attribute stays; absence -> bound; other kinds -> either
            new = []
            for old in cur:
                if old is None:
                    new.append(c)
                elif old.kind == "attribute":
                    new.append(old)
                else:
                    new.extend([old, c])
        out = []
        for x in new:
            if not any(x is y for y in out):
                out.append(x)
        scope.state[c.name] = out

    # ------------------------------------------------------------------ name resolution (Python scoping)
    def resolve(self, scope: Scope, name: str) -> str | None | object:
        """Resolved dotted path of `name` seen from `scope` *now*; UNKNOWN if the text leaves it open."""
        first, _, rest = name.partition(".")
        chain = [scope] if scope.kind == "module" else [scope, scope.module]
        for s in chain:
            cands = s.state.get(first)
            if not cands:
                continue
            if len(cands) != 1 or cands[0] is None:
                return UNKNOWN
            c = cands[0]
            if c.kind == "alias":
                if c.target is None:
                    return UNKNOWN
                base = c.target
            else:
                base = f"{s.path}.{first}"
            return base + ("." + rest if rest else "")
        return name

    def dec_info(self, scope: Scope, node) -> tuple[set | None, bool | None]:
        """(decorator-derived labels or None, is-overload or None)."""
        labels: set | None = set()
        overload: bool | None = False
        for d in node.decorator_list:
            target = d.func if isinstance(d, ast.Call) else d
            name = dotted(target)
            if name is None:
                continue
            path = self.resolve(scope, name)
            if path is UNKNOWN:
                return None, None
            if path in OVERLOADS:
                overload = True
            if labels is not None:
                labels |= LABEL_TABLE.get(path, set())
        return labels, overload

    def setter_over_property(self, scope: Scope, node) -> bool:
        """`node` carries `@<its own name>.setter|deleter|getter` and a binding of that name already exists in this very scope
        (whatever its kind: the statement says nothing about what such a definition does to it)."""
        hit = False
        for d in node.decorator_list:
            name = dotted(d.func if isinstance(d, ast.Call) else d)
            if name in (f"{node.name}.setter", f"{node.name}.deleter", f"{node.name}.getter"):
                hit = True
        if not hit:
            return False
        return bool(scope.state.get(node.name)) or node.name in scope.tainted

    # ------------------------------------------------------------------ walk
    def block(self, scope: Scope, stmts: list, path: list, guarded) -> None:
        for i, st in enumerate(stmts):
            nxt = stmts[i + 1] if i + 1 < len(stmts) else None
            self.stmt(scope, st, nxt, path, guarded)

    @staticmethod
    def attr_doc(nxt) -> ast.Constant | None:
        if isinstance(nxt, ast.Expr) and isinstance(nxt.value, ast.Constant) and isinstance(nxt.value.value, str):
            return nxt.value
        return None

    def stmt(self, scope: Scope, st: ast.stmt, nxt, path: list, guarded) -> None:
        if isinstance(st, (ast.FunctionDef, ast.AsyncFunctionDef)) and self.setter_over_property(scope, st):
            # `@x.setter def x` over an existing member x: Python re-binds x (to the extended property if x was one), Griffe
            # attaches the definition to an existing property-labelled member or lets it win as a function; the statement
            # is silent: the existing binding, or this definition as attribute or as function, are all accepted
            for kind in ("attribute", "function"):
                self.bind(scope, Cand(st.name, kind, st, "either", guarded, doc=literal_doc(st.body), labels=None,
                                      is_async=isinstance(st, ast.AsyncFunctionDef), nest=len(path), is_setter=True))
        elif isinstance(st, (ast.FunctionDef, ast.AsyncFunctionDef)):
            labels, overload = self.dec_info(scope, st)
            if overload is None:
                # a decorator name cannot be resolved from the text alone: kind (function / property attribute / overload
                # stub) is open; record both possible bindings and leave presence open
                scope.tainted.add(st.name)
                for kind in ("function", "attribute"):
                    scope.history.setdefault(st.name, []).append(
                        Cand(st.name, kind, st, "either", guarded, doc=literal_doc(st.body), labels=None, is_async=isinstance(st, ast.AsyncFunctionDef), nest=len(path))
                    )
                return
            if overload:
                return
            is_async = isinstance(st, ast.AsyncFunctionDef)
            kind = "attribute" if labels and "property" in labels else "function"
            c = Cand(st.name, kind, st, "wins", guarded, doc=literal_doc(st.body), labels=labels, is_async=is_async, nest=len(path))
            self.bind(scope, c)
            if scope.kind == "class" and st.name == "__init__" and kind == "function":
                scope.inits.append((st, path))
                self.init_block(scope, st, st.body, [], guarded, bool(path))
        elif isinstance(st, ast.ClassDef):
            labels, _ = self.dec_info(scope, st)
            child = Scope("class", f"{scope.path}.{st.name}", st, parent=scope, doc=literal_doc(st.body))
            c = Cand(st.name, "class", st, "wins", guarded, doc=child.doc, labels=labels, child=child, nest=len(path))
            self.bind(scope, c)
            saved, self._open = self._open, 0
            self.block(child, st.body, [], guarded)
            self._open = saved
        elif isinstance(st, ast.Assign):
            names = self.assign_names(st.targets)
            for n in names:
                self.bind(scope, Cand(n, "attribute", st, classify(path), guarded, doc=self.attr_doc(nxt), nest=len(path)))
            if "__all__" in names and scope.kind == "module":
                self.set_exports(scope, st, classify(path))
        elif isinstance(st, ast.AnnAssign):
            names = self.assign_names([st.target])
            for n in names:
                self.bind(scope, Cand(n, "attribute", st, classify(path), guarded, doc=self.attr_doc(nxt), has_value=st.value is not None, nest=len(path)))
            if "__all__" in names and scope.kind == "module":
                self.set_exports(scope, st, classify(path))
        elif isinstance(st, ast.AugAssign):
            if isinstance(st.target, ast.Name) and st.target.id == "__all__" and scope.kind == "module" and isinstance(st.op, ast.Add):
                items = self.all_items(st.value)
                if scope.exports is None or scope.exports is UNKNOWN or items is UNKNOWN or path:
                    scope.exports = UNKNOWN
                else:
                    scope.exports = scope.exports + items
        elif isinstance(st, ast.Import):
            for a in st.names:
                if a.asname:
                    name, target = a.asname, a.name
                else:
                    name = target = a.name.split(".", 1)[0]
                scope.imports[name] = None if self._open else target
                self.bind(scope, Cand(name, "alias", st, "wins", guarded, target=target, nest=len(path)))
        elif isinstance(st, ast.ImportFrom):
            base = self.import_base(st)
            for a in st.names:
                if a.name == "*":
                    scope.wildcards.append(base)
                    continue
                name = a.asname or a.name
                target = None if base is None else f"{base}.{a.name}"
                if self.is_init and st.level == 1 and not st.module and not a.asname:
                    # `from . import sub` inside a package __init__: the name is the submodule itself; the statement
                    # does not say whether an alias is recorded for it.
                    scope.tainted.add(name)
                    scope.imports[name] = None
                    continue
                if target == f"{scope.path}.{name}":
                    # importing an object under its own path: no alias can be expected, presence is left open
                    scope.tainted.add(name)
                    scope.imports[name] = None
                    continue
                scope.imports[name] = None if self._open else target
                self.bind(scope, Cand(name, "alias", st, "wins", guarded, target=target, nest=len(path)))
        elif isinstance(st, ast.If):
            body_guard = guarded
            test = dotted(st.test)
            if test in TC_TESTS:
                # directly in a module/class body: the body is type-guarded; deeper: the statement leaves it open
                body_guard = True if not path else (True if guarded else None)
            self.block(scope, st.body, path + ["if.body"], body_guard)
            self.block(scope, st.orelse, path + ["if.orelse"], guarded)
        elif isinstance(st, (ast.Try, getattr(ast, "TryStar", ast.Try))):
            self.block(scope, st.body, path + ["try.body"], guarded)
            for h in st.handlers:
                self.block(scope, h.body, path + ["except.body"], guarded)
            self.block(scope, st.orelse, path + ["try.orelse"], guarded)
            self.block(scope, st.finalbody, path + ["try.final"], guarded)
        elif isinstance(st, (ast.For, ast.AsyncFor)):
            self.block(scope, st.body, path + ["for.body"], guarded)
            self.block(scope, st.orelse, path + ["for.orelse"], guarded)
        elif isinstance(st, ast.While):
            self._open += 1
            self.block(scope, st.body, path + ["while.body"], guarded)
            self.block(scope, st.orelse, path + ["while.orelse"], guarded)
            self._open -= 1
        elif isinstance(st, ast.Match):
            self._open += 1
            for case in st.cases:
                self.block(scope, case.body, path + ["match.case"], guarded)
            self._open -= 1
        elif isinstance(st, (ast.With, ast.AsyncWith)):
            self.block(scope, st.body, path + ["with.body"], guarded)
        # every other statement binds nothing the property speaks about

    @staticmethod
    def assign_names(targets: list) -> list:
        """Names bound by an assignment: only when every target is a plain name or a dotted attribute chain."""
        names = []
        for t in targets:
            if isinstance(t, ast.Name):
                names.append(t.id)
            elif isinstance(t, ast.Attribute) and dotted(t) is not None:
                continue  # `x.y = ...` binds no name in this scope
            else:
                return []
        return names

    def import_base(self, st: ast.ImportFrom) -> str | None:
        if st.level == 0:
            return st.module
        parts = self.modname.split(".")
        package = parts if self.is_init else parts[:-1]
        keep = len(package) - (st.level - 1)
        if keep <= 0:
            return None  # beyond the top-level package: not importable, nothing to expect
        return ".".join(package[:keep] + ([st.module] if st.module else []))

    # ------------------------------------------------------------------ __all__
    def all_items(self, value):
        if value is None:
            return []
        if isinstance(value, (ast.List, ast.Tuple, ast.Set)):
            out = []
            for e in value.elts:
                sub = self.all_items(e)
                if sub is UNKNOWN:
                    return UNKNOWN
                out.extend(sub)
            return out
        if isinstance(value, ast.Constant) and isinstance(value.value, str):
            return [value.value]
        if isinstance(value, ast.Starred):
            return self.all_items(value.value)
        if isinstance(value, ast.BinOp) and isinstance(value.op, ast.Add):
            left, right = self.all_items(value.left), self.all_items(value.right)
            if left is UNKNOWN or right is UNKNOWN:
                return UNKNOWN
            return left + right
        name = dotted(value)
        if name is not None:
            return [("name", name)]
        return UNKNOWN

    def set_exports(self, scope: Scope, st, mode: str) -> None:
        """Exports are those of the `__all__` binding that survives (called right after the binding was applied)."""
        cands = scope.state.get("__all__", [])
        if self._open or len(cands) != 1 or cands[0] is None:
            scope.exports = UNKNOWN  # the text leaves the surviving binding open
            return
        if cands[0].node is not st:
            return  # conditional re-assignment that did not displace the existing attribute: exports unchanged
        scope.exports = self.all_items(st.value)

    # ------------------------------------------------------------------ __init__ bodies
    def init_block(self, scope: Scope, init, stmts: list, path: list, guarded, init_conditional: bool) -> None:
        for i, st in enumerate(stmts):
            nxt = stmts[i + 1] if i + 1 < len(stmts) else None
            if isinstance(st, (ast.Assign, ast.AnnAssign)):
                targets = st.targets if isinstance(st, ast.Assign) else [st.target]
                names = []
                ok = True
                for t in targets:
                    d = dotted(t) if isinstance(t, (ast.Name, ast.Attribute)) else None
                    if d is None:
                        ok = False
                        break
                    parts = d.split(".")
                    if parts[0] == "self" and len(parts) == 2:
                        names.append(parts[1])
                if not ok:
                    continue
                for n in names:
                    mode = "either" if init_conditional else classify(path)
                    # an instance attribute over a property (or setter) of the same name: left open by the statement
                    if any(c is not None and c.kind == "attribute" and isinstance(c.node, (ast.FunctionDef, ast.AsyncFunctionDef)) for c in scope.state.get(n, [])):
                        mode = "either"
                    has_value = True if isinstance(st, ast.Assign) else st.value is not None
                    self.bind(scope, Cand(n, "attribute", st, mode, guarded, doc=self.attr_doc(nxt), via_init=init, has_value=has_value, nest=len(path)))
            elif isinstance(st, ast.If):
                self.init_block(scope, init, st.body, path + ["if.body"], guarded, init_conditional)
                self.init_block(scope, init, st.orelse, path + ["if.orelse"], guarded, init_conditional)
            elif isinstance(st, ast.Try):
                self.init_block(scope, init, st.body, path + ["try.body"], guarded, init_conditional)
                for h in st.handlers:
                    self.init_block(scope, init, h.body, path + ["except.body"], guarded, init_conditional)
                self.init_block(scope, init, st.orelse, path + ["try.orelse"], guarded, init_conditional)
                self.init_block(scope, init, st.finalbody, path + ["try.final"], guarded, init_conditional)
            elif isinstance(st, (ast.For, ast.While)):
                self.init_block(scope, init, st.body, path + ["for.body"], guarded, init_conditional)
                self.init_block(scope, init, st.orelse, path + ["for.orelse"], guarded, init_conditional)
            elif isinstance(st, ast.With):
                self.init_block(scope, init, st.body, path + ["with.body"], guarded, init_conditional)
            elif isinstance(st, (ast.FunctionDef, ast.AsyncFunctionDef, ast.ClassDef)):
                # definitions nested in __init__ are not module/class-level bindings; the property is silent about
                # where (if anywhere) they are recorded
                continue

    # ------------------------------------------------------------------ post-processing
    def _finish(self, scope: Scope) -> None:
        # instance attributes of an __init__ that is not the surviving definition: presence is left open
        if scope.kind == "class":
            final = scope.state.get("__init__", [])
            surviving = final[0].node if len(final) == 1 and final[0] is not None else None
            for name, hist in scope.history.items():
                if any(c.via_init is not None and c.via_init is not surviving for c in hist):
                    scope.tainted.add(name)
        for cands in scope.state.values():
            for c in cands:
                if c is not None and c.child is not None:
                    self._finish(c.child)
        for hist in scope.history.values():
            for c in hist:
                if c.child is not None and not any(c is x for x in scope.state.get(c.name, [])):
                    self._finish(c.child)
