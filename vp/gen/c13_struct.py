"""C13 generator: docstring *structures*, their well-formed rendering per style, and the sections they must parse back to.

A case is a JSON model

    {"style": "google|numpy|sphinx", "opts": {...}, "parent": "function|init|class|module|property|none",
     "retsig": bool, "iterator": bool, "margin": int, "indent": int,
     "sections": [ {"kind": ..., ...}, ... ]}

`render(case)` gives the docstring text in the syntax documented in docs/reference/docstrings.md (and nothing else),
`parent_source(case)` the Python snippet whose object carries the annotations/defaults the docstring omits, and
`expected(case)` the list of normalised sections the parse must be equal to.

Section models
    text        {"kind": "text", "lines": [..]}                               (blank lines allowed inside)
    admonition  {"kind": "admonition", "head": "See also", "title": str|None, "lines": [..]}
    examples    {"kind": "examples", "head", "title", "blocks": [{"kind": "text"|"examples", "lines": [..]}]}
    parameters / other parameters
                {"kind", "head", "title", "items": [{"name", "ann": str|None, "sig": None|{"ann": str|None, "default": str|None},
                                                     "desc": [..], "nl": bool}]}
    attributes  {... "items": [{"name", "ann", "sig": None|{"ann": str|None}, "desc", "nl"}]}
    returns / yields / receives
                {... "items": [{"name": str|None, "ann": str|None, "sig_ann": str, "desc": [..]}]}
    raises / warns
                {... "items": [{"ann": "ValueError", "desc": [..]}]}
    functions / classes / modules
                {... "items": [{"name", "sig": None|"(baz=1)", "desc": [..]}]}

The generator is a deterministic decoder from bytes (Hypothesis `st.binary`), see vp/gen/c12_soup.Src.
"""

from __future__ import annotations

from vp.gen.c12_soup import Src

STYLES = ("google", "numpy", "sphinx")
STYLE_OPTS = {
    "google": ("ignore_init_summary", "trim_doctest_flags", "returns_multiple_items", "returns_named_value",
               "returns_type_in_property_summary", "receives_multiple_items", "receives_named_value", "warn_unknown_params"),  # fmt: skip
    "numpy": ("ignore_init_summary", "trim_doctest_flags", "warn_unknown_params"),
    "sphinx": ("warn_unknown_params",),
}
DEFAULT_TRUE = {"trim_doctest_flags", "returns_multiple_items", "returns_named_value", "receives_multiple_items", "receives_named_value", "warn_unknown_params"}

# pools whose str() through Griffe's expression builder is the text itself (checked once per process by the property module)
TYPES = ("int", "str", "bool", "float", "bytes", "list[int]", "dict[str, int]", "tuple[int, str]", "int | None", "Foo", "mod.Bar",
         "Optional[int]", "Callable[[int], str]", "set[str]", "type[Foo]",
         # annotations that contain parentheses themselves (the Google `name (type): text` syntax wraps them in another pair)
         "tuple[()]", "Annotated[int, Field(gt=0)]", "Callable[..., tuple[()]]")  # fmt: skip
DEFAULTS = ("0", "1", "None", "True", "'x'", "[]", "1.5", "-1", "(1, 2)", "{}", "Foo()", "mod.CONST", "...")
EXCEPTIONS = ("ValueError", "KeyError", "TypeError", "mod.CustomError", "OSError", "RuntimeError")
WARNINGS = ("UserWarning", "DeprecationWarning", "mod.CustomWarning", "RuntimeWarning")
PARAM_NAMES = ("a", "b", "c", "d", "x", "y", "path", "value", "flag", "items", "_private", "name2", "callback", "n")
RET_NAMES = ("success", "precision", "result", "x", "y", "t", "mode", "flag", "data", "count", "x1", "_hidden", "Result", "partial_result")
ATTR_NAMES = ("foo", "bar", "baz", "count", "name", "_cache", "size", "mode")
OBJ_NAMES = ("foo", "bar", "Baz", "Qux", "run", "helper", "_impl", "Main")
SIGS = ("()", "(baz=1)", "(a, b)", "(*args, **kwargs)", "(x, /, y)")
WORDS = ("Here's", "the", "value", "Whether", "it", "succeeded", "Final", "precision", "Some", "mode", "A", "longer", "description", "of",
         "details", "and", "other", "information", "Integers", "from", "0", "to", "9", "When", "less", "than")  # fmt: skip
TAILS = (".", ".", ".", "", "!", " (see below).", ", e.g. `code`.", " - dashed.", "; semicolon.", "?")
COLON_TAILS = (": more.", " (note: this).", ": `x: int`.", " see: there.", " (optional): yes.", " [a]: b")

G_HEADS = {
    "parameters": ("Parameters", "Args", "Arguments", "Params"),
    "other parameters": ("Other Parameters", "Keyword Args", "Keyword Arguments", "Other Args", "Other Arguments", "Other Params"),
    "raises": ("Raises", "Exceptions"),
    "warns": ("Warns", "Warnings"),
    "returns": ("Returns",),
    "yields": ("Yields",),
    "receives": ("Receives",),
    "examples": ("Examples",),
    "attributes": ("Attributes",),
    "functions": ("Functions", "Methods"),
    "classes": ("Classes",),
    "modules": ("Modules",),
}
# Numpy: canonical identifiers; the aliases that docs/reference/docstrings.md lists for the Numpydoc Parameters / Other Parameters /
# Raises sections are only generated when the known finding `numpy-documented-aliases` is not listed (they are not recognised).
N_HEADS = {
    "parameters": ("Parameters",),
    "other parameters": ("Other Parameters",),
    "raises": ("Raises",),
    "warns": ("Warns",),
    "returns": ("Returns",),
    "yields": ("Yields",),
    "receives": ("Receives",),
    "examples": ("Examples",),
    "attributes": ("Attributes",),
    "functions": ("Functions", "Methods"),
    "classes": ("Classes",),
    "modules": ("Modules",),
}
N_ALIASES = {
    "parameters": ("Args", "Arguments", "Params"),
    "other parameters": ("Keyword Args", "Keyword Arguments", "Other Args", "Other Arguments", "Other Params"),
    "raises": ("Exceptions",),
}
ADMONITIONS = ("Note", "Warning", "Tip", "See also", "Danger", "Example", "Important", "Todo", "My custom thing", "Notes", "Warnings")
TITLES = ("Check this out:", "A title", "Parameters of the returned callable:", "title with (parens)", "x")
CAPS = (lambda s: s, lambda s: s, lambda s: s, str.lower, str.upper, str.title)

ITEM_KINDS = ("parameters", "other parameters", "attributes", "returns", "yields", "receives", "raises", "warns", "functions", "classes", "modules")
ONCE = {"parameters", "other parameters", "attributes", "returns", "yields", "receives", "raises", "warns", "functions", "classes", "modules"}
KINDS_BY_PARENT = {
    "function": ("parameters", "other parameters", "returns", "yields", "receives", "raises", "warns", "examples", "admonition", "text",
                 "parameters", "returns", "yields", "receives"),  # fmt: skip
    "init": ("parameters", "other parameters", "raises", "warns", "examples", "admonition", "text", "parameters"),
    "class": ("attributes", "functions", "classes", "parameters", "examples", "admonition", "text", "attributes"),
    "module": ("attributes", "functions", "classes", "modules", "examples", "admonition", "text", "attributes"),
    # a property's "signature" is its getter's return annotation: Returns / Yields items take their types from it
    # (Receives is left out: a generator-typed property that is sent values is not a documented use)
    "property": ("returns", "yields", "raises", "warns", "examples", "admonition", "text", "returns", "returns"),
    "none": ("parameters", "other parameters", "attributes", "returns", "yields", "receives", "raises", "warns", "functions", "classes",
             "modules", "examples", "admonition", "text"),  # fmt: skip
}
SPHINX_KINDS = ("parameters", "attributes", "returns", "raises")
PARENTS = ("function", "function", "function", "function", "class", "module", "init", "none", "property", "function", "property")


# ----------------------------------------------------------------------------------------------- decoder
class _Tok:
    def __init__(self):
        self.n = 0

    def next(self) -> str:
        self.n += 1
        return f"q{self.n}z"


ROLES = (":class:`Foo`", ":func:`mod.bar`", ":data:`DEFAULT_RETRY`", ":emphasis:`really`", ":py:meth:`Baz.run`", ":ref:`a label <lbl>`")


# characters str.splitlines() breaks at although they are not "\n": a docstring line is what lies between two "\n"
LINE_INTERNAL = ("\x0b", "\x0c", "\x1c", "\x1d", "\x1e", "\x85", "\u2028", "\u2029", "\r")


def _line(src: Src, tok: _Tok, colon_ok: bool) -> str:
    words = " ".join(src.pick(WORDS) for _ in range(1 + src.below(3)))
    if src.below(8) == 0:
        # one of those characters inside the line (never at an end, where white-space stripping would take it)
        ch = src.pick(LINE_INTERNAL)
        words = words.replace(" ", ch, 1) if " " in words else f"{words}{ch}x"
    tail = src.pick(COLON_TAILS) if (colon_ok and src.below(6) == 0) else src.pick(TAILS)
    # a line may begin with an inline role (ordinary in Sphinx/RST prose, harmless markup in the other styles)
    lead = (src.pick(ROLES) + " ") if (colon_ok and src.below(5) == 0) else ""
    return f"{lead}{words} {tok.next()}{tail}"


def _desc(src: Src, tok: _Tok, multi: bool = True, first_colon: bool = False) -> list[str]:
    """Description lines: first line without colon unless `first_colon`; later lines may be blank (never first/last) or
    carry extra indentation."""
    lines = [_line(src, tok, colon_ok=first_colon)]
    if not multi:
        return lines
    n = src.pick((0, 0, 1, 2, 3, 0, 1))
    for _ in range(n):
        how = src.below(6)
        if how == 0 and lines[-1] != "":
            lines.append("")
            lines.append(_line(src, tok, colon_ok=True))
        elif how == 1:
            lines.append("  " * (1 + src.below(2)) + _line(src, tok, colon_ok=True))
        else:
            lines.append(_line(src, tok, colon_ok=True))
    return lines


def _text_lines(src: Src, tok: _Tok, summary_first: bool) -> list[str]:
    lines = [_line(src, tok, colon_ok=False)]
    for k in range(src.pick((0, 0, 1, 2, 3))):
        how = src.below(5)
        if (how == 0 or (summary_first and k == 0)) and lines[-1] != "":
            lines += ["", _line(src, tok, colon_ok=False)]
        else:
            lines.append(_line(src, tok, colon_ok=False))
    return lines


def _unique(src: Src, pool, used: set) -> str | None:
    start = src.below(len(pool))
    for k in range(len(pool)):
        name = pool[(start + k) % len(pool)]
        if name not in used:
            used.add(name)
            return name
    return None


def decode(data: bytes, known: frozenset = frozenset()) -> dict:
    src = Src(data)
    tok = _Tok()
    style = src.pick(("google", "numpy", "google", "numpy", "sphinx", "google", "numpy"))
    parent = src.pick(PARENTS)
    mask = src.byte()
    flip = src.below(4)  # 0: documented defaults; else: options from the mask
    names = STYLE_OPTS[style]
    opts = {n: (n in DEFAULT_TRUE) if flip == 0 else bool((mask >> i) & 1) for i, n in enumerate(names)}
    if flip == 0 and "ignore_init_summary" in opts:
        opts["ignore_init_summary"] = False
    case: dict = {
        "style": style,
        "opts": opts,
        "parent": parent,
        "retsig": bool(src.below(4)),
        "iterator": bool(src.below(2)),
        "margin": src.pick((0, 0, 0, 4, 8)),
        "indent": src.pick((4, 4, 4, 2)),
        "inherit": bool(src.below(2)),  # class parents: the documented attributes are declared in a base class
    }
    allowed = SPHINX_KINDS if style == "sphinx" else KINDS_BY_PARENT[parent]
    if style == "sphinx" and parent == "property":
        allowed = ("raises", "returns", "returns")
    sections: list = []
    steered: set = set()
    used_kinds: set = set()
    used_params: set = set()
    used_attrs: set = set()
    used_objs: set = set()
    used_ret: set = set()
    # leading text: always for init/property parents (summary line), usually otherwise
    lead_text = parent in ("init", "property") or src.below(5) != 0
    if lead_text:
        sec = {"kind": "text", "lines": _text_lines(src, tok, summary_first=parent in ("init", "property") or src.below(2) == 0)}
        if parent == "property" and style == "google" and src.below(2):
            sec["rtype"] = src.pick(TYPES)  # first line is rendered as "<type>: <summary>"
        sections.append(sec)
    for _ in range(src.pick((1, 2, 3, 4, 5, 3, 2, 1, 0, 2))):
        kind = src.pick(allowed)
        if kind in ONCE:
            if kind in used_kinds:
                continue
            used_kinds.add(kind)
        if kind == "text":
            if style != "google" or (sections and sections[-1]["kind"] == "text"):
                continue  # Numpy/Sphinx: free text only before the first section; no two adjacent text sections
            sections.append({"kind": "text", "lines": _text_lines(src, tok, summary_first=False)})
            continue
        if kind == "admonition":
            head = src.pick(ADMONITIONS)
            if style == "google" and head.lower() == "warnings":
                head = "Warning"  # `Warnings:` is an alias of the Google Warns section
            sec = {"kind": "admonition", "head": src.pick(CAPS)(head), "title": None, "lines": _desc(src, tok)}
            if style == "google" and src.below(3) == 0:
                sec["title"] = src.pick(TITLES)
            sections.append(sec)
            continue
        heads = (G_HEADS if style == "google" else N_HEADS)[kind]
        head = src.pick(heads)
        if style == "numpy" and kind in N_ALIASES and src.below(8) == 0:
            if "numpy-documented-aliases" in known:
                steered.add("numpy-documented-aliases")
            else:
                head = src.pick(N_ALIASES[kind])
        sec = {"kind": kind, "head": src.pick(CAPS)(head), "title": None}
        if style == "google" and src.below(5) == 0:
            sec["title"] = src.pick(TITLES)
        if kind == "examples":
            blocks = []
            for _ in range(1 + src.below(4)):
                if src.below(2) and not (blocks and blocks[-1]["kind"] == "text"):
                    blocks.append({"kind": "text", "lines": [_line(src, tok, False) for _ in range(1 + src.below(2))]})
                else:
                    lines = []
                    for _ in range(1 + src.below(3)):
                        flag = src.pick(("", "", "  # doctest: +SKIP", "  # doctest: +ELLIPSIS, +NORMALIZE_WHITESPACE"))
                        lines.append(f">>> print({tok.next()!r}){flag}")
                        if src.below(2):
                            lines.append(src.pick((tok.next(), tok.next(), "<BLANKLINE>")) if len(lines) > 0 else tok.next())
                    blocks.append({"kind": "examples", "lines": lines})
            sec["blocks"] = blocks
            sections.append(sec)
            continue
        nitems = src.pick((1, 2, 3, 2, 1, 4))
        items: list = []
        for _ in range(nitems):
            if kind in ("parameters", "other parameters"):
                name = _unique(src, PARAM_NAMES, used_params)
                if name is None:
                    break
                sig = None
                if parent in ("function", "init", "class") and src.below(5) != 0:
                    sig = {"ann": src.pick(TYPES) if src.below(3) else None, "default": src.pick(DEFAULTS) if src.below(2) else None}
                items.append({"name": name, "ann": src.pick(TYPES) if src.below(2) else None, "sig": sig, "desc": _desc(src, tok, first_colon=True), "nl": src.below(6) == 0, "v": src.byte()})
            elif kind == "attributes":
                name = _unique(src, ATTR_NAMES, used_attrs)
                if name is None:
                    break
                sig = None
                if parent in ("class", "module") and src.below(5) != 0:
                    sig = {"ann": src.pick(TYPES) if src.below(4) else None}
                items.append({"name": name, "ann": src.pick(TYPES) if src.below(2) else None, "sig": sig, "desc": _desc(src, tok, first_colon=True), "nl": src.below(6) == 0, "v": src.byte()})
            elif kind in ("returns", "yields", "receives"):
                name = _unique(src, RET_NAMES, used_ret) if src.below(3) else None
                ann = src.pick(TYPES) if src.below(2) else None
                # without a `(type):` / `type:` prefix a colon on the first line would read as `name: description`
                items.append({"name": name, "ann": ann, "sig_ann": src.pick(TYPES), "desc": _desc(src, tok, first_colon=style != "google" or ann is not None), "v": src.byte()})
            elif kind in ("raises", "warns"):
                items.append({"ann": src.pick(EXCEPTIONS if kind == "raises" else WARNINGS), "desc": _desc(src, tok, first_colon=True), "v": src.byte()})
            else:
                name = _unique(src, OBJ_NAMES, used_objs)
                if name is None:
                    break
                items.append({"name": name, "sig": src.pick(SIGS) if (kind != "modules" and src.below(3) == 0) else None, "desc": _desc(src, tok, first_colon=True)})
        if not items:
            continue
        sec["items"] = items
        sections.append(sec)
    case["sections"] = sections
    _wellform(case)
    # generator switches for listed known findings (the model itself is changed, so a case replays the same everywhere)
    if style == "numpy" and "numpy-returns-bare-name" in known:
        for sec in sections:
            if sec["kind"] in ("returns", "yields", "receives"):
                for it in sec["items"]:
                    if it["name"] and not it["ann"] and it.get("v", 0) & 4:
                        it["v"] &= ~4
                        steered.add("numpy-returns-bare-name")
    if style == "google" and "google-single-item-splitlines" in known:
        for sec in sections:
            if sec["kind"] in ("returns", "yields", "receives"):
                multi = opts["receives_multiple_items" if sec["kind"] == "receives" else "returns_multiple_items"]
                if not multi:
                    for it in sec["items"]:
                        if any(ch in ln for ln in it["desc"] for ch in LINE_INTERNAL):
                            it["desc"] = ["".join(" " if ch in LINE_INTERNAL else ch for ch in ln) for ln in it["desc"]]
                            steered.add("google-single-item-splitlines")
    if steered:
        case["steered"] = sorted(steered)
    return case


def _wellform(case: dict) -> None:
    """Make the structure fit the documented syntax of the chosen style/options (done on the model, so replays see it)."""
    style, opts = case["style"], case["opts"]
    if case["parent"] == "property" and any(sec["kind"] == "returns" for sec in case["sections"]):
        for sec in case["sections"]:
            sec.pop("rtype", None)  # `type: summary` on the first line and a Returns section would document the value twice
    for sec in case["sections"]:
        kind = sec["kind"]
        if style == "google" and kind in ("returns", "yields", "receives"):
            multi = opts["receives_multiple_items" if kind == "receives" else "returns_multiple_items"]
            named = opts["receives_named_value" if kind == "receives" else "returns_named_value"]
            if not multi:
                del sec["items"][1:]  # "single item"
            if not named:
                for it in sec["items"]:
                    it["name"] = None  # "the items cannot be named"
        if style == "sphinx":
            if kind == "returns":
                del sec["items"][1:]
                sec["items"][0]["name"] = None
            if kind != "text":
                sec["title"] = None
                for it in sec.get("items", ()):
                    # one physical line plus (sometimes) one continuation line; blank lines would end an RST field list
                    it["desc"] = [ln.strip() for ln in it["desc"] if ln.strip()][:2]
                    it["nl"] = False
        if style == "numpy":
            sec["title"] = None if kind != "admonition" else sec.get("title")


# ----------------------------------------------------------------------------------------------- parent
def return_annotation(case: dict) -> str | None:
    if not case.get("retsig") or case["parent"] not in ("function", "property"):
        return None
    comp = {}
    for sec in case["sections"]:
        if sec["kind"] in ("returns", "yields", "receives"):
            anns = [it["sig_ann"] for it in sec["items"]]
            comp[sec["kind"]] = anns[0] if len(anns) == 1 else "tuple[" + ", ".join(anns) + "]"
    if not comp:
        return None
    if "yields" in comp or "receives" in comp:
        if case.get("iterator") and "receives" not in comp and "returns" not in comp:
            return f"Iterator[{comp['yields']}]"
        return f"Generator[{comp.get('yields', 'None')}, {comp.get('receives', 'None')}, {comp.get('returns', 'None')}]"
    return comp["returns"]


def _params_src(case: dict) -> str:
    parts = []
    req, opt = [], []
    for sec in case["sections"]:
        if sec["kind"] in ("parameters", "other parameters"):
            for it in sec["items"]:
                if it.get("sig"):
                    s = it["name"] + (f": {it['sig']['ann']}" if it["sig"]["ann"] else "")
                    if it["sig"]["default"] is not None:
                        opt.append(s + (" = " if it["sig"]["ann"] else "=") + it["sig"]["default"])
                    else:
                        req.append(s)
    parts = req + opt
    return ", ".join(parts)


def parent_source(case: dict) -> tuple[str, str] | None:
    """(source, object path) of the documented object, or None for no parent."""
    kind = case["parent"]
    if kind == "none":
        return None
    head = "from typing import Callable, Generator, Iterator, Optional\n\n"
    params = _params_src(case)
    if kind == "function":
        ret = return_annotation(case)
        return head + f"def func({params}){' -> ' + ret if ret else ''}: ...\n", "func"
    attrs = []
    for sec in case["sections"]:
        if sec["kind"] == "attributes":
            for it in sec["items"]:
                if it.get("sig"):
                    attrs.append(f"{it['name']}: {it['sig']['ann']} = ..." if it["sig"]["ann"] else f"{it['name']} = ...")
    if kind == "module":
        return head + "\n".join(attrs) + "\n", ""
    body = "".join(f"    {a}\n" for a in attrs)
    if kind == "class":
        init = f"    def __init__(self{', ' + params if params else ''}): ...\n"
        if case.get("inherit") and attrs:
            return head + f"class Base:\n{body}\n\nclass Klass(Base):\n{init}", "Klass"
        return head + f"class Klass:\n{body}{init}", "Klass"
    if kind == "init":
        return head + f"class Klass:\n    def __init__(self{', ' + params if params else ''}): ...\n", "Klass.__init__"
    if kind == "property":
        ret = return_annotation(case)
        if ret is None and not any(sec["kind"] in ("returns", "yields", "receives") for sec in case["sections"]):
            ret = "int"
        return head + f"class Klass:\n    @property\n    def prop(self){' -> ' + ret if ret else ''}: ...\n", "Klass.prop"
    raise ValueError(kind)


# ----------------------------------------------------------------------------------------------- rendering
def _google_items(sec: dict, case: dict, ind: str) -> list[str]:
    kind = sec["kind"]
    opts = case["opts"]
    out = []
    for it in sec["items"]:
        desc = it["desc"]
        cont = ind * 2
        if kind in ("parameters", "other parameters", "attributes"):
            prefix = it["name"] + (f" ({it['ann']})" if it["ann"] else "") + ":"
        elif kind in ("raises", "warns"):
            prefix = it["ann"] + ":"
        elif kind in ("functions", "classes", "modules"):
            prefix = it["name"] + (it.get("sig") or "") + ":"
        else:
            multi = opts["receives_multiple_items" if kind == "receives" else "returns_multiple_items"]
            named = opts["receives_named_value" if kind == "receives" else "returns_named_value"]
            if not multi:
                cont = ind  # "When false (single item), no further indentation is required"
            if named:
                if it["name"] and it["ann"]:
                    prefix = f"{it['name']} ({it['ann']}):"
                elif it["name"]:
                    prefix = f"{it['name']}:"
                elif it["ann"]:
                    prefix = f"({it['ann']}):"
                else:
                    prefix = ""
            else:
                prefix = (f"({it['ann']}):" if it.get("v", 0) & 1 else f"{it['ann']}:") if it["ann"] else ""
        if it.get("nl") and prefix:
            out.append(ind + prefix)
            out += [(cont + ln) if ln else "" for ln in desc]
        else:
            out.append(ind + (prefix + " " if prefix else "") + desc[0])
            out += [(cont + ln) if ln else "" for ln in desc[1:]]
    return out


def _examples_lines(sec: dict, ind: str) -> list[str]:
    out = []
    for i, b in enumerate(sec["blocks"]):
        if i:
            out.append("")
        out += [ind + ln for ln in b["lines"]]
    return out


def render_google(case: dict) -> str:
    ind = " " * case["indent"]
    out: list[str] = []
    for sec in case["sections"]:
        if out:
            out.append("")
        kind = sec["kind"]
        if kind == "text":
            lines = list(sec["lines"])
            if sec.get("rtype"):
                lines[0] = f"{sec['rtype']}: {lines[0]}"
            out += lines
            continue
        out.append(sec["head"] + ":" + (f" {sec['title']}" if sec.get("title") else ""))
        if kind == "admonition":
            out += [(ind + ln) if ln else "" for ln in sec["lines"]]
        elif kind == "examples":
            out += _examples_lines(sec, ind)
        else:
            out += _google_items(sec, case, ind)
    return "\n".join(out)


def _numpy_first(sec: dict, it: dict) -> str:
    kind = sec["kind"]
    if kind in ("parameters", "other parameters", "attributes"):
        if it["ann"]:
            return f"{it['name']} : {it['ann']}"
        return it["name"] if not it.get("v", 0) & 2 else f"{it['name']} :"
    if kind in ("raises", "warns"):
        return it["ann"]
    if kind in ("functions", "classes", "modules"):
        return it["name"] + (it.get("sig") or "")
    # returns / yields / receives: `name : type`, `name` or `name :`, `: type`, `:`
    if it["name"] and it["ann"]:
        return f"{it['name']} : {it['ann']}"
    if it["name"]:
        # docs: "specifying just the name: `name` or `name :`"; the bare form is a listed finding (parsed as a type)
        return it["name"] if (it.get("v", 0) & 4) else f"{it['name']} :"
    if it["ann"]:
        return f": {it['ann']}"
    return ":"


def render_numpy(case: dict) -> str:
    out: list[str] = []
    for sec in case["sections"]:
        if out:
            out.append("")
        kind = sec["kind"]
        if kind == "text":
            out += sec["lines"]
            continue
        out.append(sec["head"])
        out.append("-" * len(sec["head"]))
        if kind == "admonition":
            out += sec["lines"]
        elif kind == "examples":
            out += _examples_lines(sec, "")
        else:
            for it in sec["items"]:
                out.append(_numpy_first(sec, it))
                out += [("    " + ln) if ln else "" for ln in it["desc"]]
    return "\n".join(out)


SPHINX_PARAM = ("param", "parameter", "arg", "argument", "key", "keyword")
SPHINX_VAR = ("var", "ivar", "cvar")
SPHINX_RET = ("returns", "return")
SPHINX_EXC = ("raises", "raise", "except", "exception")


def render_sphinx(case: dict) -> str:
    out: list[str] = []
    for sec in case["sections"]:
        kind = sec["kind"]
        if kind == "text":
            out += sec["lines"]
            out.append("")
            continue
        for i, it in enumerate(sec["items"]):
            field = it.get("v", 0) >> 3
            cont = ["    " + ln for ln in it["desc"][1:]]
            if kind == "parameters":
                tline = [f":type {it['name']}: {it['ann']}"] if it["ann"] else []
                pname = it["name"]
                if it["ann"] and " " not in it["ann"] and it.get("v", 0) & 2:
                    # in-line type (Sphinx info field lists: `:param type name: description`), only for types without blanks
                    tline, pname = [], f"{it['ann']} {it['name']}"
                pline = [f":{SPHINX_PARAM[field % len(SPHINX_PARAM)]} {pname}: {it['desc'][0]}", *cont]
                out += (tline + pline) if it.get("v", 0) & 1 else (pline + tline)
            elif kind == "attributes":
                tline = [f":vartype {it['name']}: {it['ann']}"] if it["ann"] else []
                pline = [f":{SPHINX_VAR[field % len(SPHINX_VAR)]} {it['name']}: {it['desc'][0]}", *cont]
                out += (tline + pline) if it.get("v", 0) & 1 else (pline + tline)
            elif kind == "returns":
                tline = [f":rtype: {it['ann']}"] if it["ann"] else []
                pline = [f":{SPHINX_RET[field % len(SPHINX_RET)]}: {it['desc'][0]}", *cont]
                out += (tline + pline) if it.get("v", 0) & 1 else (pline + tline)
            else:
                out += [f":{SPHINX_EXC[field % len(SPHINX_EXC)]} {it['ann']}: {it['desc'][0]}", *cont]
    while out and out[-1] == "":
        out.pop()
    return "\n".join(out)


def render(case: dict) -> str:
    style = case["style"]
    text = render_google(case) if style == "google" else render_numpy(case) if style == "numpy" else render_sphinx(case)
    margin = case.get("margin", 0)
    lines = text.split("\n")
    if case["sections"] and case["sections"][0]["kind"] != "text":
        # a docstring that starts with a section starts on the line after the quotes (docs: `"""\nFunctions:\n    foo(): ...`);
        # on the first line inspect.cleandoc would take the contents' indentation for the docstring's margin
        lines.insert(0, "")
    text = "\n".join([lines[0]] + [(" " * margin + ln) if ln else "" for ln in lines[1:]])
    return text


# ----------------------------------------------------------------------------------------------- expectation
def _join(lines) -> str:
    return "\n".join(lines).strip()


def admonition_kind(head: str, style: str) -> str:
    kind = head.lower().replace(" ", "-")
    if style == "numpy" and kind in ("warnings", "notes"):
        kind = kind[:-1]  # documented: "singular and plural forms are distinct, except for notes and warnings"
    return kind


def expected(case: dict) -> list[dict]:
    """Normalised sections: {"kind", "title", "value"}; title None means "no title" ("*" = not asserted)."""
    style, opts, parent = case["style"], case["opts"], case["parent"]
    retsig = bool(return_annotation(case))
    out: list[dict] = []
    appended_returns = None
    for idx, sec in enumerate(case["sections"]):
        kind = sec["kind"]
        if kind == "text":
            lines = list(sec["lines"])
            if idx == 0 and sec.get("rtype"):
                if opts.get("returns_type_in_property_summary") and parent == "property":
                    appended_returns = sec["rtype"]
                else:
                    lines[0] = f"{sec['rtype']}: {lines[0]}"
            if idx == 0 and opts.get("ignore_init_summary") and parent == "init":
                lines = lines[2:]  # documented: the summary (first line, and the blank line after it) is ignored
            if _join(lines):
                out.append({"kind": "text", "title": None, "value": _join(lines)})
            continue
        if kind == "admonition":
            title = sec.get("title") if style == "google" and sec.get("title") else "*"
            out.append({"kind": "admonition", "title": title, "value": {"annotation": admonition_kind(sec["head"], style), "description": _join(sec["lines"])}})
            continue
        title = sec.get("title") or None
        if kind == "examples":
            value = []
            trim = opts.get("trim_doctest_flags", True)
            for b in sec["blocks"]:
                if b["kind"] == "text":
                    if value and value[-1][0] == "text":
                        value[-1] = ("text", value[-1][1] + "\n\n" + "\n".join(b["lines"]))
                    else:
                        value.append(("text", "\n".join(b["lines"])))
                else:
                    lines = []
                    for ln in b["lines"]:
                        if trim:
                            if "  # doctest:" in ln:
                                ln = ln[: ln.index("  # doctest:")]
                            if ln.strip() == "<BLANKLINE>":
                                ln = ""
                        lines.append(ln)
                    value.append(("examples", "\n".join(lines)))
            out.append({"kind": "examples", "title": title, "value": [list(v) for v in value]})
            continue
        items = []
        for i, it in enumerate(sec["items"]):
            d = {"description": _join(it["desc"]) if style != "sphinx" else " ".join(ln.strip() for ln in it["desc"])}
            if kind in ("parameters", "other parameters"):
                sig = it.get("sig") if parent in ("function", "init", "class") else None
                d["name"] = it["name"]
                d["annotation"] = it["ann"] if it["ann"] else (sig["ann"] if sig else None)
                d["value"] = sig["default"] if sig else None
            elif kind == "attributes":
                sig = it.get("sig") if parent in ("class", "module") else None
                d["name"] = it["name"]
                d["annotation"] = it["ann"] if it["ann"] else (sig["ann"] if sig else None)
                if style == "sphinx" and not it["ann"]:
                    d["annotation"] = "*"  # docs: annotations from the parent are not supported for Sphinx attributes
            elif kind in ("returns", "yields", "receives"):
                d["name"] = it["name"] or ""
                d["annotation"] = it["ann"] if it["ann"] else (it["sig_ann"] if retsig else None)
                if style == "sphinx" and kind == "returns" and not it["ann"] and retsig:
                    d["annotation"] = return_annotation(case)
            elif kind in ("raises", "warns"):
                d["annotation"] = it["ann"]
            else:
                d["name"] = it["name"]
                d["annotation"] = (it["name"] + it["sig"]) if it.get("sig") else None
            items.append(d)
        out.append({"kind": kind, "title": title, "value": items})
    if appended_returns:
        out.append({"kind": "returns", "title": None, "value": [{"name": "", "annotation": appended_returns, "description": ""}]})
    if style == "sphinx":
        order = {"text": 0, "parameters": 1, "attributes": 2, "returns": 3, "raises": 4}
        out.sort(key=lambda s: order[s["kind"]])
    return out


def nontrivial(case: dict) -> bool:
    secs = case["sections"]
    if len(secs) >= 3:
        return True
    for a, b in zip(secs, secs[1:]):
        if a["kind"] != "text" and b["kind"] != "text":
            return True
    for s in secs:
        for it in s.get("items", ()):
            if "" in it["desc"]:
                return True
    return False


def cases(known: frozenset = frozenset()):
    from hypothesis import strategies as st

    return st.binary(min_size=64, max_size=640).map(lambda d: decode(d, known))
