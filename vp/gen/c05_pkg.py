"""G-PKG, profile `importable`: generated multi-module packages that CPython can import (shared by C05 and C04).

Model (JSON-serialisable; this is what Hypothesis shrinks and what replay files store)::

    {"mods": [                                   # in IMPORT ORDER: a module imports only from modules listed before it
        {"path": "m1.m3",                        # dotted path below the top-level package ("" = the top-level package)
         "pkg": false,                           # True -> rendered as <path>/__init__.py
         "body": [stmt, ...]},
     ...]}

    stmt :=
      {"t": "class", "name": N, "serial": k, "body": [stmt...]}        class with a docstring "<module>.<qualname>#k"
      {"t": "def",   "name": N, "serial": k, "params": "a, b=1"}       function with the same kind of docstring
      {"t": "val",   "name": N, "serial": k}                           N = ("<module>.<qualname>", k)
      {"t": "from",  "mod": P, "level": L, "names": [[n, as|None]..]}  from-import of module path P (L = 0: absolute)
      {"t": "from",  "mod": P, "level": L, "names": "*"}               wildcard import
      {"t": "import","mod": P, "as": z|None}                           import <top>.P [as z]
      {"t": "all",   "op": "="|"+=", "seq": "list"|"tuple"|"set", "ann": bool,
                     "items": ["x", ["star", "n_all"], ["plus", "m1.__all__"], ...]}

    optional keys understood by the renderer (used by C04): "join" (render on the previous line after ';'),
    class "bases"/"decos", def "decos"/"returns"/"defaults", val "ann"/"value", and {"t": "raw", "text": ...}.

Soundness of the generated programs (why CPython can always import them, in any order):
  rule R  - a module M imports from a module Y only if Y, and every proper ancestor package of Y that is not M or an
            ancestor of M, comes before M in the import order.  By induction nothing is ever imported from a partially
            initialised module (each link of an import stack goes strictly backwards in the order).
  names   - object names, module names and `*_all` helper names come from three disjoint pools and module names are
            unique in the package, so "a sub-module name never collides with a member name of its package" (the
            documented precondition, docs/guide/users/recommendations/python-code.md) holds by construction.
  exists  - explicit imports and `__all__` items only mention names that the simulated namespace (`simulate`) knows to
            be bound at the end of the source module; names whose presence depends on import history (sub-modules of a
            wildcard source package) are never mentioned and are reported separately as `uncertain`.
"""

from __future__ import annotations

import importlib
import os
import shutil
import sys
import types
from pathlib import Path

from hypothesis import strategies as st

OBJ_NAMES = ("a", "b", "c", "_p", "A", "B", "_Q", "__v__")
PARAMS = ("", "x", "x, y=1", "*args, k=None", "x, /, y, *, z=0", "**kw")

_counter = [0]


def unique_pkg_name(prefix: str = "vq") -> str:
    _counter[0] += 1
    return f"{prefix}{os.getpid()}x{_counter[0]}"


# --------------------------------------------------------------------------------------------- tree helpers
def mod_index(case) -> dict:
    return {m["path"]: i for i, m in enumerate(case["mods"])}


def parent_path(path: str) -> str | None:
    if path == "":
        return None
    return path.rsplit(".", 1)[0] if "." in path else ""


def ancestors(path: str) -> list[str]:
    """Proper ancestors, nearest first, ending with the top-level package ""."""
    out = []
    p = parent_path(path)
    while p is not None:
        out.append(p)
        p = parent_path(p)
    return out


def base_name(path: str) -> str:
    return path.rsplit(".", 1)[-1]


def dotted(top: str, path: str) -> str:
    return top if path == "" else f"{top}.{path}"


def children(case, path: str) -> list[str]:
    return [m["path"] for m in case["mods"] if m["path"] != "" and parent_path(m["path"]) == path]


def allowed_sources(paths_in_order: list[str], i: int) -> list[str]:
    """Rule R: modules that module number i may import from."""
    me = paths_in_order[i]
    before = set(paths_in_order[:i])
    mine = {me, *ancestors(me)}
    out = []
    for y in paths_in_order[:i]:
        if all(a in before or a in mine for a in ancestors(y)):
            out.append(y)
    return out


def rel_levels(importer: str, importer_is_pkg: bool, target: str) -> list[int]:
    """Relative-import levels (>=1) with which `importer` can name module `target` (or a member of it)."""
    pkg = importer if importer_is_pkg else parent_path(importer)
    chain = [pkg, *ancestors(pkg)]
    out = []
    for k, base in enumerate(chain, start=1):
        if target == base or base == "" or target.startswith(base + "."):
            out.append(k)
    return out


def rel_module_text(importer: str, importer_is_pkg: bool, target: str, level: int) -> str:
    pkg = importer if importer_is_pkg else parent_path(importer)
    chain = [pkg, *ancestors(pkg)]
    base = chain[level - 1]
    if target == base:
        rest = ""
    elif base == "":
        rest = target
    else:
        assert target.startswith(base + "."), (importer, target, level)
        rest = target[len(base) + 1 :]
    return "." * level + rest


# --------------------------------------------------------------------------------------------- rendering
def _seq(kind: str, parts: list[str]) -> str:
    if kind == "tuple":
        return "(" + ", ".join(parts) + ("," if len(parts) == 1 else "") + ")"
    if kind == "set":
        return "{" + ", ".join(parts) + "}" if parts else "set()"
    return "[" + ", ".join(parts) + "]"


def render_all(stmt) -> str:
    lits, tail = [], []
    for it in stmt["items"]:
        if isinstance(it, str):
            lits.append(repr(it))
        elif it[0] == "star":
            lits.append("*" + it[1])
        else:  # plus
            tail.append(it[1])
    if tail and not lits and stmt["op"] == "+=":
        text = " + ".join(tail)
    else:
        text = " + ".join([_seq(stmt["seq"], lits), *tail])
    if stmt["op"] == "+=":
        return f"__all__ += {text}"
    if stmt.get("ann"):
        return f"__all__: list = {text}"
    return f"__all__ = {text}"


def render_stmt(stmt, top: str, mod, scope: str, ind: str) -> list[str]:
    """Lines of one statement. `scope` is the dotted runtime path of the enclosing module/class."""
    t = stmt["t"]
    if t == "class":
        qual = f"{scope}.{stmt['name']}"
        lines = [f"{ind}@{d}" for d in stmt.get("decos", ())]
        bases = ", ".join(stmt.get("bases", ()))
        lines.append(f"{ind}class {stmt['name']}" + (f"({bases})" if bases else "") + ":")
        lines.append(f'{ind}    """{qual}#{stmt.get("serial", 0)}"""')
        for sub in stmt.get("body", ()):
            lines += render_stmt(sub, top, mod, qual, ind + "    ")
        return lines
    if t == "def":
        qual = f"{scope}.{stmt['name']}"
        lines = [f"{ind}@{d}" for d in stmt.get("decos", ())]
        ret = f" -> {stmt['returns']}" if stmt.get("returns") else ""
        lines.append(f"{ind}def {stmt['name']}({stmt.get('params', '')}){ret}:")
        lines.append(f'{ind}    """{qual}#{stmt.get("serial", 0)}"""')
        return lines
    if t == "val":
        qual = f"{scope}.{stmt['name']}"
        value = stmt.get("value") or f"({qual!r}, {stmt.get('serial', 0)})"
        ann = f": {stmt['ann']}" if stmt.get("ann") else ""
        return [f"{ind}{stmt['name']}{ann} = {value}"]
    if t == "from":
        if stmt["level"] == 0:
            modtext = dotted(top, stmt["mod"])
        else:
            modtext = rel_module_text(mod["path"], mod["pkg"], stmt["mod"], stmt["level"])
        if stmt["names"] == "*":
            names = "*"
        else:
            names = ", ".join(n if not a else f"{n} as {a}" for n, a in stmt["names"])
        return [f"{ind}from {modtext} import {names}"]
    if t == "import":
        return [f"{ind}import {dotted(top, stmt['mod'])}" + (f" as {stmt['as']}" if stmt.get("as") else "")]
    if t == "all":
        return [ind + render_all(stmt).replace("$TOP", top)]
    if t == "raw":
        return [ind + line for line in stmt["text"].replace("$TOP", top).splitlines()]
    raise ValueError(f"unknown statement {stmt!r}")


def render_module(mod, top: str) -> str:
    scope = dotted(top, mod["path"])
    lines: list[str] = list(mod.get("header", ()))
    for stmt in mod["body"]:
        new = render_stmt(stmt, top, mod, scope, "")
        if stmt.get("join") and lines and len(new) == 1:
            lines[-1] = lines[-1] + "; " + new[0]
        else:
            lines += new
    return "\n".join(lines) + "\n"


def render(case, top: str) -> dict[str, str]:
    """{relative file name: text} below the search path."""
    files = {}
    for mod in case["mods"]:
        rel = top + ("/" + mod["path"].replace(".", "/") if mod["path"] else "")
        rel += "/__init__.py" if mod["pkg"] else ".py"
        files[rel] = render_module(mod, top)
    return files


def write_files(root: Path, files: dict[str, str]) -> None:
    for rel, text in files.items():
        p = root / rel
        p.parent.mkdir(parents=True, exist_ok=True)
        p.write_text(text)


def show(case, top: str = "P") -> str:
    return "\n".join(f"# --- {rel}\n{text}" for rel, text in render(case, top).items())


# --------------------------------------------------------------------------------------------- CPython oracle
class CPythonImportError(Exception):
    """The generated package could not be imported: a bug of the generator, never a verdict."""


def cpython_import(root: Path, top: str, case) -> dict[str, types.ModuleType]:
    """Import every module of the package in-process and return {model path: module object}; interpreter state
    (sys.modules, sys.path, importer caches) is restored. Module objects stay usable (their dicts are kept)."""
    root_s = str(root)
    sys.path.insert(0, root_s)
    importlib.invalidate_caches()
    old_dont = sys.dont_write_bytecode
    sys.dont_write_bytecode = True
    try:
        out = {}
        for mod in case["mods"]:
            out[mod["path"]] = importlib.import_module(dotted(top, mod["path"]))
        return out
    except Exception as exc:  # noqa: BLE001
        raise CPythonImportError(f"{type(exc).__name__}: {exc}\n{show(case, top)}") from exc
    finally:
        sys.dont_write_bytecode = old_dont
        for k in [k for k in sys.modules if k == top or k.startswith(top + ".")]:
            del sys.modules[k]
        if root_s in sys.path:
            sys.path.remove(root_s)
        for k in [k for k in sys.path_importer_cache if k == root_s or k.startswith(root_s + os.sep)]:
            del sys.path_importer_cache[k]
        importlib.invalidate_caches()


MODULE_DUNDERS = frozenset(
    ("__name__", "__doc__", "__package__", "__loader__", "__spec__", "__path__", "__file__", "__cached__", "__builtins__",
     "__annotations__")
)


def fresh_dir(base: Path, top: str) -> Path:
    d = base / top
    shutil.rmtree(d, ignore_errors=True)
    d.mkdir(parents=True)
    return d


# --------------------------------------------------------------------------------------------- simulation
def simulate(case) -> dict:
    """Static bookkeeping over the model (used by the generator for validity and by `describe` for class labels).

    Returns {path: {"ns": {name: info}, "exports": [names] | None, "uncertain": set(names), "explicit": set(names)}}
    where info = {"depth": re-export chain length, "wild": bound by a wildcard, "origin": (module path, name)}.
    This is NOT the oracle (CPython is); it only ever decides which names the generator may mention.
    """
    out: dict = {}
    pkgs = {m["path"] for m in case["mods"] if m["pkg"]}
    for mod in case["mods"]:
        ns: dict = {}
        uncertain: set = set()
        explicit: set = set()
        events: list = []
        has_all = False
        all_items: list = []

        def bind(name, info, how):
            old = ns.get(name)
            if old is not None:
                events.append(f"{how}-over-{'wild' if old['wild'] else old['how']}")
            ns[name] = {**info, "how": how}

        for stmt in mod["body"]:
            t = stmt["t"]
            if t in ("class", "def", "val"):
                bind(stmt["name"], {"depth": 0, "wild": False, "origin": (mod["path"], stmt["name"])}, "local")
            elif t == "import":
                name = stmt.get("as") or "$TOP"
                target = stmt["mod"] if stmt.get("as") else ""
                bind(name, {"depth": 1, "wild": False, "origin": (target, None)}, "import")
                explicit.add(name)
            elif t == "from":
                src = out.get(stmt["mod"])
                if stmt["names"] == "*":
                    if src is None:
                        continue
                    exported = src["exports"] if src["exports"] is not None else [n for n in src["ns"] if not n.startswith("_")]
                    for n in exported:
                        si = src["ns"].get(n)
                        if si is None:
                            continue
                        bind(n, {"depth": si["depth"] + 1, "wild": True, "origin": si["origin"], "via": stmt["mod"]}, "wild")
                    # names whose presence depends on import history: sub-modules of a wildcard source package
                    if src["exports"] is None:
                        uncertain |= {base_name(c) for c in children(case, stmt["mod"]) if not base_name(c).startswith("_")}
                        uncertain |= src["uncertain"]
                else:
                    for n, asname in stmt["names"]:
                        bound = asname or n
                        sub = f"{stmt['mod']}.{n}" if stmt["mod"] else n
                        if src is not None and n in src["ns"]:
                            si = src["ns"][n]
                            bind(bound, {"depth": si["depth"] + 1, "wild": False, "origin": si["origin"], "via": stmt["mod"]}, "from")
                        elif stmt["mod"] in pkgs and sub in {m["path"] for m in case["mods"]}:
                            bind(bound, {"depth": 1, "wild": False, "origin": (sub, None)}, "from")
                        elif n == "__all__":
                            bind(bound, {"depth": 1, "wild": False, "origin": (stmt["mod"], "__all__")}, "from")
                        explicit.add(bound)
            elif t == "all":
                if stmt["op"] == "=":
                    has_all = True
                    all_items = []
                    bind("__all__", {"depth": 0, "wild": False, "origin": (mod["path"], "__all__")}, "local")
                for it in stmt["items"]:
                    if isinstance(it, str):
                        all_items.append(it)
                    else:
                        ref = it[1]
                        origin = None
                        if ref.endswith(".__all__"):
                            head = ref[: -len(".__all__")]
                            if head.startswith("$TOP"):
                                origin = head[5:] if head != "$TOP" else ""
                            elif head in ns:
                                origin = ns[head]["origin"][0]
                        elif ref in ns:
                            origin = ns[ref]["origin"][0]
                        if origin is not None and out.get(origin) and out[origin]["exports"] is not None:
                            all_items += out[origin]["exports"]
        out[mod["path"]] = {
            "ns": ns,
            "exports": list(dict.fromkeys(all_items)) if has_all else None,
            "uncertain": uncertain,
            "explicit": explicit,
            "events": events,
        }
    return out


def describe_labels(case, sim=None) -> tuple[bool, list[str]]:
    """(non-trivial?, class labels). Non-trivial (DESIGN 4/C05): at least one wildcard import and (a re-export chain of
    length >= 2 or an `__all__`)."""
    sim = sim or simulate(case)
    labels = set()
    n_wild = 0
    max_depth = 0
    any_all = False
    for mod in case["mods"]:
        s = sim[mod["path"]]
        wilds = [st_ for st_ in mod["body"] if st_["t"] == "from" and st_["names"] == "*"]
        n_wild += len(wilds)
        if len(wilds) >= 2:
            labels.add("module-with>=2-wildcards")
        for st_ in wilds:
            src = sim.get(st_["mod"])
            if src and src["exports"] is not None:
                labels.add("wildcard-from-module-with-__all__")
            if st_["mod"] in ancestors(mod["path"]):
                labels.add("wildcard-from-ancestor-package")
            if mod["path"] in ancestors(st_["mod"]):
                labels.add("wildcard-from-descendant")
        for ev in s["events"]:
            labels.add("rebind:" + ev)
        for info in s["ns"].values():
            max_depth = max(max_depth, info["depth"])
        if s["exports"] is not None:
            any_all = True
            if not s["exports"]:
                labels.add("__all__-empty")
            if any(n.startswith("_") for n in s["exports"]):
                labels.add("__all__-with-private-name")
        for st_ in mod["body"]:
            if st_["t"] == "all":
                for it in st_["items"]:
                    if not isinstance(it, str):
                        labels.add(f"__all__-splice:{it[0]}{'-attr' if it[1].endswith('.__all__') else ''}")
                if st_["op"] == "+=":
                    labels.add("__all__-augassign")
                if st_["seq"] != "list":
                    labels.add(f"__all__-{st_['seq']}")
            if st_["t"] == "from" and st_["level"] > 0:
                labels.add("relative-import" + (f"-level{st_['level']}" if st_["level"] > 1 else ""))
            if st_["t"] == "from" and st_["names"] != "*" and any(a for _, a in st_["names"]):
                labels.add("from-import-as")
            if st_["t"] == "import":
                labels.add("import-as" if st_.get("as") else "import-dotted")
            if st_.get("join"):
                labels.add("semicolon-joined")
        if s["uncertain"]:
            labels.add("tolerance:submodule-of-wildcard-source")
    if n_wild:
        labels.add("has-wildcard")
    labels.add(f"chain-depth={min(max_depth, 4)}{'+' if max_depth >= 4 else ''}")
    labels.add(f"modules={len(case['mods'])}")
    if any(m["path"].count(".") >= 1 for m in case["mods"]):
        labels.add("has-subpackage")
    nontrivial = n_wild >= 1 and (max_depth >= 2 or any_all)
    return nontrivial, sorted(labels)


# --------------------------------------------------------------------------------------------- strategies
@st.composite
def trees(draw, min_mods: int = 2, max_mods: int = 6):
    """[(path, is_pkg)] with the top-level package first; depth <= 3 components; unique base names."""
    n = draw(st.integers(min_mods, max_mods))
    nodes = [["", True]]
    for i in range(1, n):
        cands = [k for k, (p, _) in enumerate(nodes) if p.count(".") < 1 or p == ""]
        # prefer the top-level package, sometimes nest
        k = draw(st.sampled_from(cands)) if draw(st.integers(0, 2)) == 0 else 0
        nodes[k][1] = True
        pp = nodes[k][0]
        name = ("_m" if draw(st.integers(0, 7)) == 0 else "m") + str(i)
        nodes.append([f"{pp}.{name}" if pp else name, draw(st.integers(0, 5)) == 0])
    return [(p, bool(k)) for p, k in nodes]


@st.composite
def orders(draw, n: int):
    kind = draw(st.sampled_from(("children-first", "children-first", "random", "parents-first")))
    if kind == "children-first":
        return list(range(n - 1, -1, -1))
    if kind == "parents-first":
        return list(range(n))
    return list(draw(st.permutations(range(n))))


def _pick_level(draw, importer: str, is_pkg: bool, target: str) -> int:
    levels = rel_levels(importer, is_pkg, target)
    c = draw(st.integers(0, 3))
    if c == 0 or not levels:
        return 0
    if c == 3:
        return draw(st.sampled_from(levels))
    return levels[0]


@st.composite
def packages(draw, max_mods: int = 6, max_stmts: int = 6, allow_join: bool = False, all_forms: bool = True,
             class_bodies: bool = True):
    """Package models of profile `importable`."""
    tree = draw(trees(2, max_mods))
    order = draw(orders(len(tree)))
    paths = [tree[i][0] for i in order]
    is_pkg = {tree[i][0]: tree[i][1] for i in order}
    case = {"mods": []}
    sim: dict = {}
    for i, path in enumerate(paths):
        mod = {"path": path, "pkg": is_pkg[path], "body": []}
        case["mods"].append(mod)
        sources = allowed_sources(paths, i)
        body = mod["body"]
        serial = [0]

        def local_stmt():
            serial[0] += 1
            name = draw(st.sampled_from(OBJ_NAMES))
            kind = draw(st.sampled_from(("class", "def", "val", "val")))
            if kind == "class":
                sub = []
                if class_bodies and draw(st.booleans()):
                    for j in range(draw(st.integers(1, 3))):
                        sk = draw(st.sampled_from(("def", "val", "class")))
                        sn = draw(st.sampled_from(("m", "n", "_o", "__init__" if sk == "def" else "K")))
                        one = {"t": sk, "name": sn, "serial": j}
                        if sk == "def":
                            one["params"] = "self" + draw(st.sampled_from(("", ", x", ", x, *, y=2", ", *a, **k")))
                        if sk == "class":
                            one["body"] = [{"t": "val", "name": "z", "serial": 0}] if draw(st.booleans()) else []
                        sub.append(one)
                return {"t": "class", "name": name, "serial": serial[0], "body": sub}
            if kind == "def":
                return {"t": "def", "name": name, "serial": serial[0], "params": draw(st.sampled_from(PARAMS))}
            return {"t": "val", "name": name, "serial": serial[0]}

        def importable(src: str) -> list[str]:
            s = sim[src]
            return sorted(n for n in s["ns"] if n not in ("$TOP", "__all__"))

        n_stmts = draw(st.integers(0, max_stmts))
        for _ in range(n_stmts):
            roll = draw(st.integers(0, 9)) if sources else 9
            if roll <= 2:  # wildcard
                src = draw(st.sampled_from(sources))
                body.append({"t": "from", "mod": src, "level": _pick_level(draw, path, is_pkg[path], src), "names": "*"})
            elif roll <= 4:  # explicit from-import of objects
                src = draw(st.sampled_from(sources))
                names = importable(src)
                if not names:
                    body.append(local_stmt())
                    continue
                chosen = draw(st.lists(st.sampled_from(names), min_size=1, max_size=3, unique=True))
                pairs = [[n, draw(st.sampled_from(OBJ_NAMES)) if draw(st.integers(0, 2)) == 0 else None] for n in chosen]
                body.append({"t": "from", "mod": src, "level": _pick_level(draw, path, is_pkg[path], src), "names": pairs})
            elif roll == 5:  # from <package> import <submodule> [as z]
                subs = [s for s in sources if s != ""]
                if not subs:
                    body.append(local_stmt())
                    continue
                sub = draw(st.sampled_from(subs))
                pkg = parent_path(sub)
                asname = draw(st.sampled_from(OBJ_NAMES)) if draw(st.integers(0, 2)) == 0 else None
                body.append(
                    {"t": "from", "mod": pkg, "level": _pick_level(draw, path, is_pkg[path], pkg), "names": [[base_name(sub), asname]]}
                )
            elif roll == 6:  # import a.b [as z]
                src = draw(st.sampled_from(sources))
                asname = draw(st.sampled_from(OBJ_NAMES)) if draw(st.booleans()) else None
                body.append({"t": "import", "mod": src, "as": asname})
            else:
                body.append(local_stmt())
            sim = simulate(case)

        # ---- __all__ (decided last: its items must exist at the end of the module)
        sim = simulate(case)
        if draw(st.integers(0, 9)) < 4:
            _add_all(draw, case, mod, sim, sources, all_forms)
            sim = simulate(case)
        body = mod["body"]
        if allow_join:
            for k in range(1, len(body)):
                if body[k]["t"] in ("val", "from", "import", "all") and body[k - 1]["t"] in ("val", "from", "import", "all"):
                    if draw(st.integers(0, 9)) == 0:
                        body[k]["join"] = True
    return case


def _add_all(draw, case, mod, sim, sources, all_forms: bool) -> None:
    body = mod["body"]
    path = mod["path"]
    me = sim[path]
    names = sorted(n for n in me["ns"] if n not in ("$TOP", "__all__"))
    seq = draw(st.sampled_from(("list",) * 4 + ("tuple",))) if all_forms else "list"
    items: list = list(draw(st.lists(st.sampled_from(names), max_size=4, unique=True))) if names else []
    assign_pos = draw(st.integers(0, len(body)))
    splices = []
    spliceable = [s for s in sources if sim[s]["exports"] is not None]
    if all_forms and spliceable and draw(st.booleans()):
        for src in draw(st.lists(st.sampled_from(spliceable), min_size=1, max_size=2, unique=True)):
            form = draw(st.sampled_from(("star", "plus", "aug", "star-attr", "plus-attr")))
            splices.append((src, form))
    pre: list = []  # binding statements that must precede the __all__ statement
    post: list = []  # __all__ += ... statements
    src_seq = {m["path"]: next((s["seq"] for s in m["body"] if s["t"] == "all" and s["op"] == "="), "list") for m in case["mods"]}
    for src, form in splices:
        level = _pick_level(draw, path, mod["pkg"], src)
        if form.endswith("-attr"):
            # `<top>.a.b.__all__` reads attributes of packages: `a` must be fully imported, so it must not be
            # this module or one of its ancestors (which may still be initialising)
            shares_branch = src != "" and path != "" and src.split(".")[0] == path.split(".")[0]
            if src != "" and (shares_branch or draw(st.booleans())):
                # module bound by `from <pkg> import <mod>`
                pkg = parent_path(src)
                pre.append({"t": "from", "mod": pkg, "level": _pick_level(draw, path, mod["pkg"], pkg), "names": [[base_name(src), None]]})
                ref = f"{base_name(src)}.__all__"
            else:
                pre.append({"t": "import", "mod": src, "as": None})
                ref = "$TOP" + (f".{src}" if src else "") + ".__all__"
        else:
            helper = (base_name(src) or "top") + "_all"
            pre.append({"t": "from", "mod": src, "level": level, "names": [["__all__", helper]]})
            ref = helper
        same_type = src_seq.get(src, "list") == seq and seq != "set"
        kind = form.split("-")[0]
        if kind == "star" or not same_type:
            if kind == "aug" and seq != "set":
                post.append({"t": "all", "op": "+=", "seq": seq, "ann": False, "items": [["star", ref]]})
            else:
                items.append(["star", ref])
        elif kind == "plus":
            items.append(["plus", ref])
        else:
            post.append({"t": "all", "op": "+=", "seq": seq, "ann": False, "items": [["plus", ref]]})
        # every name of the spliced list must exist in this module when somebody wildcard-imports it
        missing = [n for n in sim[src]["exports"] if n not in me["ns"]]
        if missing:
            pre.append({"t": "from", "mod": src, "level": level, "names": [[n, None] for n in missing]})
    if seq != "set" and items and draw(st.integers(0, 3)) == 0:
        lit = [it for it in items if isinstance(it, str)]
        if lit:
            moved = lit[-1]
            items.remove(moved)
            post.append({"t": "all", "op": "+=", "seq": seq, "ann": False, "items": [moved]})
    assign = {"t": "all", "op": "=", "seq": seq, "ann": draw(st.integers(0, 5)) == 0, "items": items}
    # `pre` statements re-bind names: put them first so that they cannot override what the body bound later
    # (imports of names that are missing are new names; helper names come from their own pool).
    new_body = body[:assign_pos] + pre + [assign] + body[assign_pos:]
    for p in post:
        at = draw(st.integers(assign_pos + len(pre) + 1, len(new_body)))
        new_body.insert(at, p)
    mod["body"] = new_body
