"""G-PKG, profile `importable`: generated multi-module packages that CPython can import (shared by C05 and C04).

Model (JSON-serialisable; this is what Hypothesis shrinks and what replay files store)::

    {"mods": [                                   # in IMPORT ORDER: a module imports only from modules listed before it
        {"path": "m1.m3",                        # dotted path below the top-level package ("" = the top-level package)
         "pkg": false,                           # True -> rendered as <path>/__init__.py
         "body": [stmt, ...]},
     ...]}

    stmt :=
      {"t": "class", "name": N, "serial": k, "body": [stmt...]}        class with a docstring "<module>.<qualname>#k"
      {"t": "def",   "name": N, "serial": k, "params": "a, b=1"}       function with the same kind of docstring
      {"t": "val",   "name": N, "serial": k}                           N = ("<module>.<qualname>", k)
      {"t": "from",  "mod": P, "level": L, "names": [[n, as|None]..]}  from-import of module path P (L = 0: absolute)
      {"t": "from",  "mod": P, "level": L, "names": "*"}               wildcard import
      {"t": "import","mod": P, "as": z|None}                           import <top>.P [as z]
      {"t": "all",   "op": "="|"+=", "seq": "list"|"tuple", "ann": bool,
                     "items": ["x", ["star", "n_all"], ["plus", "m1.__all__"], ...]}

    optional keys understood by the renderer (used by C04): "join" (render on the previous line after ';'),
    class "bases"/"decos", def "decos"/"returns"/"deco" (identity decorator leaving a tag), val "ann"/"value",
    {"t": "raw", "text": ...}; the placeholder $TOP stands for the top-level package name everywhere.

Soundness of the generated programs (why CPython can always import them, in any order):
  rule R  - a module M imports from a module Y only if Y, and every proper ancestor package of Y that is not M or an
            ancestor of M, comes before M in the import order.  By induction nothing is ever imported from a partially
            initialised module (each link of an import stack goes strictly backwards in the order).
  names   - object names, module names and `*_all` helper names come from three disjoint pools and module names are
            unique in the package; nothing imported into a package (also through a wildcard) carries the name of one of
            its own sub-modules except the sub-module itself imported directly, so "a sub-module name never collides
            with a member name of its package" (the documented precondition,
            docs/guide/users/recommendations/python-code.md) holds by construction.
  exists  - explicit imports and `__all__` items only mention names that the simulated namespace (`simulate`) knows to
            be bound at the end of the source module; names whose presence depends on import history (sub-modules of a
            wildcard source package) are never mentioned and are reported separately as `uncertain`.
"""

from __future__ import annotations

import importlib
import os
import shutil
import sys
import types
from pathlib import Path

from hypothesis import strategies as st

OBJ_NAMES = ("a", "b", "c", "_p", "A", "B", "_Q", "__v__")
PARAMS = ("", "x", "x, y=1", "*args, k=None", "x, /, y, *, z=0", "**kw")

_counter = [0]


def unique_pkg_name(prefix: str = "vq") -> str:
    _counter[0] += 1
    return f"{prefix}{os.getpid()}x{_counter[0]}"


# --------------------------------------------------------------------------------------------- tree helpers
def mod_index(case) -> dict:
    return {m["path"]: i for i, m in enumerate(case["mods"])}


def parent_path(path: str) -> str | None:
    if path == "":
        return None
    return path.rsplit(".", 1)[0] if "." in path else ""


def ancestors(path: str) -> list[str]:
    """Proper ancestors, nearest first, ending with the top-level package ""."""
    out = []
    p = parent_path(path)
    while p is not None:
        out.append(p)
        p = parent_path(p)
    return out


def base_name(path: str) -> str:
    return path.rsplit(".", 1)[-1]


def dotted(top: str, path: str) -> str:
    return top if path == "" else f"{top}.{path}"


def children(case, path: str) -> list[str]:
    return [m["path"] for m in case["mods"] if m["path"] != "" and parent_path(m["path"]) == path]


def allowed_sources(paths_in_order: list[str], i: int) -> list[str]:
    """Rule R: modules that module number i may import from."""
    me = paths_in_order[i]
    before = set(paths_in_order[:i])
    mine = {me, *ancestors(me)}
    out = []
    for y in paths_in_order[:i]:
        if all(a in before or a in mine for a in ancestors(y)):
            out.append(y)
    return out


def rel_levels(importer: str, importer_is_pkg: bool, target: str) -> list[int]:
    """Relative-import levels (>=1) with which `importer` can name module `target` (or a member of it)."""
    pkg = importer if importer_is_pkg else parent_path(importer)
    chain = [pkg, *ancestors(pkg)]
    out = []
    for k, base in enumerate(chain, start=1):
        if target == base or base == "" or target.startswith(base + "."):
            out.append(k)
    return out


def rel_module_text(importer: str, importer_is_pkg: bool, target: str, level: int) -> str:
    pkg = importer if importer_is_pkg else parent_path(importer)
    chain = [pkg, *ancestors(pkg)]
    base = chain[level - 1]
    if target == base:
        rest = ""
    elif base == "":
        rest = target
    else:
        assert target.startswith(base + "."), (importer, target, level)
        rest = target[len(base) + 1 :]
    return "." * level + rest


# --------------------------------------------------------------------------------------------- rendering
def _seq(kind: str, parts: list[str]) -> str:
    if kind == "tuple":
        return "(" + ", ".join(parts) + ("," if len(parts) == 1 else "") + ")"
    if kind == "set":
        return "{" + ", ".join(parts) + "}" if parts else "set()"
    return "[" + ", ".join(parts) + "]"


def render_all(stmt) -> str:
    lits, tail = [], []
    for it in stmt["items"]:
        if isinstance(it, str):
            lits.append(repr(it))
        elif it[0] == "star":
            lits.append("*" + it[1])
        else:  # plus
            tail.append(it[1])
    if tail and not lits and stmt["op"] == "+=":
        text = " + ".join(tail)
    else:
        text = " + ".join([_seq(stmt["seq"], lits), *tail])
    if stmt["op"] == "+=":
        return f"__all__ += {text}"
    if stmt.get("ann"):
        return f"__all__: list = {text}"
    return f"__all__ = {text}"


def render_stmt(stmt, top: str, mod, scope: str, ind: str) -> list[str]:
    """Lines of one statement. `scope` is the dotted runtime path of the enclosing module/class."""
    t = stmt["t"]
    if t == "class":
        qual = f"{scope}.{stmt['name']}"
        lines = [f"{ind}@{d}" for d in stmt.get("decos", ())]
        bases = ", ".join(stmt.get("bases", ()))
        lines.append(f"{ind}class {stmt['name']}" + (f"({bases})" if bases else "") + ":")
        lines.append(f'{ind}    """{qual}#{stmt.get("serial", 0)}"""')
        for sub in stmt.get("body", ()):
            lines += render_stmt(sub, top, mod, qual, ind + "    ")
        return lines
    if t == "def":
        qual = f"{scope}.{stmt['name']}"
        tag = f"{qual}#{stmt.get('serial', 0)}"
        lines = [f"{ind}@{d}" for d in stmt.get("decos", ())]
        ret = f" -> {stmt['returns']}" if stmt.get("returns") else ""
        if stmt.get("deco"):
            # an identity decorator that leaves its own tag on whatever it decorates
            lines.append(f"{ind}def {stmt['name']}(o):")
            lines.append(f'{ind}    """{tag}"""')
            lines.append(f"{ind}    o._decos = getattr(o, '_decos', ()) + ({tag!r},)")
            lines.append(f"{ind}    return o")
            return lines
        lines.append(f"{ind}def {stmt['name']}({stmt.get('params', '')}){ret}:")
        lines.append(f'{ind}    """{tag}"""')
        lines += [f"{ind}    {line}" for line in stmt.get("body_lines", ())]
        return lines
    if t == "val":
        qual = f"{scope}.{stmt['name']}"
        value = stmt.get("value") or f"({qual!r}, {stmt.get('serial', 0)})"
        ann = f": {stmt['ann']}" if stmt.get("ann") else ""
        return [f"{ind}{stmt['name']}{ann} = {value}"]
    if t == "from":
        if stmt["level"] == 0:
            modtext = dotted(top, stmt["mod"])
        else:
            modtext = rel_module_text(mod["path"], mod["pkg"], stmt["mod"], stmt["level"])
        if stmt["names"] == "*":
            names = "*"
        else:
            names = ", ".join(n if not a else f"{n} as {a}" for n, a in stmt["names"])
        return [f"{ind}from {modtext} import {names}"]
    if t == "import":
        return [f"{ind}import {dotted(top, stmt['mod'])}" + (f" as {stmt['as']}" if stmt.get("as") else "")]
    if t == "all":
        return [ind + render_all(stmt).replace("$TOP", top)]
    if t == "raw":
        return [ind + line for line in stmt["text"].replace("$TOP", top).splitlines()]
    raise ValueError(f"unknown statement {stmt!r}")


def render_module(mod, top: str) -> str:
    scope = dotted(top, mod["path"])
    lines: list[str] = list(mod.get("header", ()))
    for stmt in mod["body"]:
        new = render_stmt(stmt, top, mod, scope, "")
        if stmt.get("join") and lines and len(new) == 1:
            lines[-1] = lines[-1] + "; " + new[0]
        else:
            lines += new
    return ("\n".join(lines) + "\n").replace("$TOP", top)


def render(case, top: str, stubs=()) -> dict[str, str]:
    """{relative file name: text} below the search path. Modules whose path is in `stubs` are written as `.pyi`
    (stub-only modules / `__init__.pyi` packages: same text; CPython cannot import them, Griffe loads them)."""
    files = {}
    for mod in case["mods"]:
        rel = top + ("/" + mod["path"].replace(".", "/") if mod["path"] else "")
        ext = ".pyi" if mod["path"] in stubs else ".py"
        rel += "/__init__" + ext if mod["pkg"] else ext
        files[rel] = render_module(mod, top)
    return files


def write_files(root: Path, files: dict[str, str]) -> None:
    for rel, text in files.items():
        p = root / rel
        p.parent.mkdir(parents=True, exist_ok=True)
        p.write_text(text)


def show(case, top: str = "P") -> str:
    return "\n".join(f"# --- {rel}\n{text}" for rel, text in render(case, top).items())


# --------------------------------------------------------------------------------------------- CPython oracle
class CPythonImportError(Exception):
    """The generated package could not be imported: a bug of the generator, never a verdict."""


def cpython_import(root: Path, top: str, case, after=None) -> dict[str, types.ModuleType]:
    """Import every module of the package in-process and return {model path: module object}; interpreter state
    (sys.modules, sys.path, importer caches) is restored. Module objects stay usable (their dicts are kept).
    `after(modules)`, if given, runs while the package is still importable (e.g. to call functions whose bodies
    import); its result is stored under the key "$after"."""
    root_s = str(root)
    sys.path.insert(0, root_s)
    importlib.invalidate_caches()
    old_dont = sys.dont_write_bytecode
    sys.dont_write_bytecode = True
    try:
        out = {}
        for mod in case["mods"]:
            out[mod["path"]] = importlib.import_module(dotted(top, mod["path"]))
        if after is not None:
            out["$after"] = after(out)
        return out
    except CPythonImportError:
        raise
    except Exception as exc:  # noqa: BLE001
        raise CPythonImportError(f"{type(exc).__name__}: {exc}\n{show(case, top)}") from exc
    finally:
        sys.dont_write_bytecode = old_dont
        for k in [k for k in sys.modules if k == top or k.startswith(top + ".")]:
            del sys.modules[k]
        if root_s in sys.path:
            sys.path.remove(root_s)
        for k in [k for k in sys.path_importer_cache if k == root_s or k.startswith(root_s + os.sep)]:
            del sys.path_importer_cache[k]
        importlib.invalidate_caches()


MODULE_DUNDERS = frozenset(
    ("__name__", "__doc__", "__package__", "__loader__", "__spec__", "__path__", "__file__", "__cached__", "__builtins__",
     "__annotations__")
)


def fresh_dir(base: Path, top: str) -> Path:
    d = base / top
    shutil.rmtree(d, ignore_errors=True)
    d.mkdir(parents=True)
    return d


# --------------------------------------------------------------------------------------------- simulation
def _sim_module(case, mod, out: dict, paths: set, pkgs: set) -> dict:
    ns: dict = {}
    uncertain: set = set()
    explicit: set = set()
    events: list = []
    has_all = False
    all_items: list = []
    nbinds: dict = {}
    dot_imported: set = set()
    same_module: set = set()

    def bind(name, info, how):
        nbinds[name] = nbinds.get(name, 0) + 1
        old = ns.get(name)
        if old is not None:
            events.append(f"{how}-over-{old['how']}")
        # modules this name has been bound to so far in this module (by any statement)
        mod_origins = set(old["mod_origins"]) if old else set()
        is_module_binding = info.get("origin") is not None and not info.get("helper")
        if how == "wild":
            # `static`: how the name was bound before any wildcard expansion; `nwild`: wildcard re-bindings since then
            static = old["static"] if old else None
            nwild = (old["nwild"] if old else 0) + 1
            if is_module_binding and info["origin"] in mod_origins:
                same_module.add(name)  # a wildcard re-binds the name to a module it was already bound to
        else:
            static = how
            nwild = 0
        if is_module_binding:
            mod_origins.add(info["origin"])
        ns[name] = {**info, "how": how, "static": static, "mod_origins": mod_origins, "nwild": nwild}

    carried = ("origin", "helper", "kind", "node", "defmod")
    line_bound: set = set()  # names bound so far on the current physical line (statements joined with ';')
    same_line: set = set()
    for index, stmt in enumerate(mod["body"]):
        t = stmt["t"]
        if not stmt.get("join"):
            line_bound = set()
        before = {k: v["index"] for k, v in ns.items() if "index" in v}
        if t in ("class", "def", "val"):
            kind = "deco" if stmt.get("deco") else t
            bind(stmt["name"], {"depth": 0, "chain": [], "kind": kind, "node": stmt, "defmod": mod["path"], "index": index}, "local")
        elif t == "import":
            name = stmt.get("as") or "$TOP"
            origin = stmt["mod"] if stmt.get("as") else ""
            bind(name, {"depth": 1, "chain": [], "origin": origin, "kind": "module", "index": index, "stmt": stmt}, "import")
            explicit.add(name)
        elif t == "from":
            src = out.get(stmt["mod"])
            if stmt["names"] == "*":
                if src is None:
                    continue
                exported = src["exports"] if src["exports"] is not None else [n for n in src["ns"] if not n.startswith("_")]
                for n in exported:
                    si = src["ns"].get(n)
                    if si is None:
                        sub = f"{stmt['mod']}.{n}" if stmt["mod"] else n
                        if sub in paths:  # a sub-module listed in the package's __all__
                            bind(n, {"depth": 1, "chain": [], "origin": sub, "kind": "module", "index": index}, "wild")
                        continue
                    info = {"depth": si["depth"] + 1, "chain": [(stmt["mod"], n), *si["chain"]], "via": stmt["mod"], "index": index}
                    for k in carried:
                        if k in si:
                            info[k] = si[k]
                    bind(n, info, "wild")
                # names whose presence depends on import history: sub-modules of a wildcard source package that the
                # package does not itself import explicitly (documented special case of is_wildcard_exposed)
                if src["exports"] is None:
                    uncertain |= {
                        base_name(c)
                        for c in children(case, stmt["mod"])
                        if not base_name(c).startswith("_") and base_name(c) not in src["explicit"]
                    }
                    uncertain |= src["uncertain"]
            else:
                for n, asname in stmt["names"]:
                    bound = asname or n
                    explicit.add(bound)
                    if mod["pkg"] and stmt["mod"] == mod["path"] and stmt["level"] == 1 and not asname:
                        dot_imported.add(n)  # `from . import sub` in an __init__ module
                    sub = f"{stmt['mod']}.{n}" if stmt["mod"] else n
                    if n == "__all__":
                        bind(bound, {"depth": 1, "chain": [], "origin": stmt["mod"], "helper": True, "kind": "val", "index": index, "stmt": stmt}, "from")
                    elif src is not None and n in src["ns"]:
                        si = src["ns"][n]
                        info = {"depth": si["depth"] + 1, "chain": [(stmt["mod"], n), *si["chain"]], "via": stmt["mod"], "index": index, "stmt": stmt}
                        for k in carried:
                            if k in si:
                                info[k] = si[k]
                        bind(bound, info, "from")
                    elif stmt["mod"] in pkgs and sub in paths:
                        bind(bound, {"depth": 1, "chain": [], "origin": sub, "kind": "module", "index": index, "stmt": stmt}, "from")
        if t == "from" and stmt["names"] == "*" and stmt.get("join"):
            # a wildcard that is not the first statement of its line re-binds names bound earlier on that line
            same_line |= {k for k, v in ns.items() if v.get("index") == index and v["how"] == "wild" and k in line_bound}
        line_bound |= {k for k, v in ns.items() if v.get("index") == index and before.get(k) != index}
        if t == "all":
            if stmt["op"] == "=":
                has_all = True
                all_items = []
                bind("__all__", {"depth": 0, "chain": [], "kind": "val", "index": index}, "local")
            for it in stmt["items"]:
                if isinstance(it, str):
                    all_items.append(it)
                else:
                    ref = it[1]
                    origin = None
                    if ref.endswith(".__all__"):
                        head = ref[: -len(".__all__")]
                        if head.startswith("$TOP"):
                            origin = head[5:] if head != "$TOP" else ""
                        elif head in ns:
                            origin = ns[head].get("origin")
                    elif ref in ns:
                        origin = ns[ref].get("origin")
                    if origin is not None and out.get(origin) and out[origin]["exports"] is not None:
                        all_items += out[origin]["exports"]
    # names whose member object is replaced by wildcard expansion in a way that leaves already-resolved aliases stale:
    # bound by an import statement and re-bound by a later wildcard, or defined locally and re-bound by two later
    # wildcards (see known finding `stale-alias-after-wildcard-override`)
    tainted = {
        n
        for n, i in ns.items()
        if i["how"] == "wild" and (i["static"] in ("from", "import") or (i["static"] == "local" and i["nwild"] >= 2))
    }
    return {
        "ns": ns,
        "exports": list(dict.fromkeys(all_items)) if has_all else None,
        "uncertain": uncertain,
        "explicit": explicit,
        "events": events,
        "tainted": tainted,
        # stricter variant used by C04: also a local definition re-bound by a single later wildcard (aliases resolved
        # before the expansion are re-pointed correctly, but their target_path is rewritten to the short-cut)
        "tainted_strict": {n for n, i in ns.items() if i["how"] == "wild" and i["static"] in ("from", "import", "local")},
        "dot_imported": dot_imported,
        "same_module_rebound": same_module,
        "same_line_rebound": same_line,
        # `__all__` helper names (`from m import __all__ as h`) that are bound more than once, or not directly
        "helper_rebound": {h for h, i in ns.items() if i.get("helper") and (nbinds[h] > 1 or i["how"] != "from" or i["chain"])},
    }


def simulate(case) -> dict:
    """Static bookkeeping over the model (used by the generator for validity and by `describe` for class labels).

    Returns {path: {"ns": {name: info}, "exports": [names] | None, "uncertain": set, "explicit": set, ...}} where
    info = {"how": local|from|import|wild, "depth": re-export chain length, "chain": [(module, name), ...], ...}.
    This is NOT the oracle (CPython is); it only decides which names the generator may mention, which names fall
    under the documented sub-module tolerance, and the class labels.
    """
    out: dict = {}
    paths = {m["path"] for m in case["mods"]}
    pkgs = {m["path"] for m in case["mods"] if m["pkg"]}
    for mod in case["mods"]:
        out[mod["path"]] = _sim_module(case, mod, out, paths, pkgs)
    return out


def tolerated_names(case, sim, path: str) -> set:
    s = sim[path]
    own = {base_name(c) for c in children(case, path)}
    return {n for n in s["uncertain"] if n not in s["explicit"] and n not in own}


def mentionable(case, sim, path: str) -> list[str]:
    """Names of module `path` that other modules may import explicitly / that may be listed in its `__all__`."""
    tol = tolerated_names(case, sim, path)
    return sorted(n for n in sim[path]["ns"] if n not in ("$TOP", "__all__") and n not in tol)


def describe_labels(case, sim=None) -> tuple[bool, list[str]]:
    """(non-trivial?, class labels). Non-trivial (DESIGN 4/C05): at least one wildcard import and (a re-export chain of
    length >= 2 or an `__all__`)."""
    sim = sim or simulate(case)
    labels = set()
    n_wild = 0
    max_depth = 0
    any_all = False
    for mod in case["mods"]:
        s = sim[mod["path"]]
        wilds = [st_ for st_ in mod["body"] if st_["t"] == "from" and st_["names"] == "*"]
        n_wild += len(wilds)
        if len(wilds) >= 2:
            labels.add("module-with>=2-wildcards")
        for st_ in wilds:
            src = sim.get(st_["mod"])
            if src and src["exports"] is not None:
                labels.add("wildcard-from-module-with-__all__")
            if st_["mod"] in ancestors(mod["path"]):
                labels.add("wildcard-from-ancestor-package")
            if mod["path"] in ancestors(st_["mod"]):
                labels.add("wildcard-from-descendant")
        for ev in s["events"]:
            labels.add("rebind:" + ev)
        for info in s["ns"].values():
            max_depth = max(max_depth, info["depth"])
        if s["exports"] is not None:
            any_all = True
            if not s["exports"]:
                labels.add("__all__-empty")
            if any(n.startswith("_") for n in s["exports"]):
                labels.add("__all__-with-private-name")
        for st_ in mod["body"]:
            if st_["t"] == "all":
                for it in st_["items"]:
                    if not isinstance(it, str):
                        labels.add(f"__all__-splice:{it[0]}{'-attr' if it[1].endswith('.__all__') else ''}")
                        if len(it) > 2:
                            labels.add("__all__-splice-through-module-alias")
                if st_["op"] == "+=":
                    labels.add("__all__-augassign")
                if st_["seq"] != "list":
                    labels.add(f"__all__-{st_['seq']}")
            if st_["t"] == "from" and st_["level"] > 0:
                labels.add("relative-import" + (f"-level{st_['level']}" if st_["level"] > 1 else ""))
            if st_["t"] == "from" and st_["names"] != "*" and any(a for _, a in st_["names"]):
                labels.add("from-import-as")
            if st_["t"] == "import":
                labels.add("import-as" if st_.get("as") else "import-dotted")
            if st_.get("join"):
                labels.add("semicolon-joined")
                if st_["t"] == "from" and st_["names"] == "*":
                    labels.add("semicolon-joined-wildcard")
            if st_["t"] == "class" and any(x["t"] in ("from", "import") for x in st_.get("body", ())):
                labels.add("class-body-import")
        if s["uncertain"]:
            labels.add("tolerance:submodule-of-wildcard-source")
    if n_wild:
        labels.add("has-wildcard")
    labels.add(f"chain-depth={min(max_depth, 4)}{'+' if max_depth >= 4 else ''}")
    labels.add(f"modules={len(case['mods'])}")
    if any(m["path"].count(".") >= 1 for m in case["mods"]):
        labels.add("has-subpackage")
    nontrivial = n_wild >= 1 and (max_depth >= 2 or any_all)
    return nontrivial, sorted(labels)


# --------------------------------------------------------------------------------------------- strategies
@st.composite
def trees(draw, min_mods: int = 2, max_mods: int = 6):
    """[(path, is_pkg)] with the top-level package first; depth <= 3 components; unique base names."""
    n = draw(st.integers(min_mods, max_mods))
    nodes = [["", True]]
    for i in range(1, n):
        cands = [k for k, (p, _) in enumerate(nodes) if p.count(".") < 1 or p == ""]
        # prefer the top-level package, sometimes nest
        k = draw(st.sampled_from(cands)) if draw(st.integers(0, 2)) == 2 else 0
        nodes[k][1] = True
        pp = nodes[k][0]
        name = ("_m" if draw(st.integers(0, 7)) == 7 else "m") + str(i)
        nodes.append([f"{pp}.{name}" if pp else name, draw(st.integers(0, 5)) == 5])
    return [(p, bool(k)) for p, k in nodes]


@st.composite
def orders(draw, n: int):
    kind = draw(st.sampled_from(("children-first", "children-first", "random", "parents-first")))
    if kind == "children-first":
        return list(range(n - 1, -1, -1))
    if kind == "parents-first":
        return list(range(n))
    return list(draw(st.permutations(range(n))))


def _pick_level(draw, importer: str, is_pkg: bool, target: str) -> int:
    levels = rel_levels(importer, is_pkg, target)
    c = draw(st.integers(0, 3))
    if c == 0 or not levels:
        return 0
    if c == 3:
        return draw(st.sampled_from(levels))
    return levels[0]


def _pick_recent(draw, items: list):
    """Biased towards the end of the list (the most recent modules: longer re-export chains)."""
    a = draw(st.integers(0, len(items) - 1))
    b = draw(st.integers(0, len(items) - 1))
    return items[max(a, b)]


KNOWN_STEERING = ("stale-alias-after-wildcard-override", "dot-import-submodule-not-exposed", "wildcard-rebinding-same-module-skipped",
                  "same-line-wildcard-override")


@st.composite
def packages(draw, max_mods: int = 6, max_stmts: int = 6, allow_join: bool = False, all_forms: bool = True,
             class_bodies: bool = True, avoid: frozenset = frozenset(), on_excluded=None, wild_plain_only: bool = False,
             deco_defs: bool = False, weights: tuple = (4, 7, 9, 10, 11), strict_taint: bool = False,
             self_names: bool = False, class_imports: bool = False, extra_names: tuple = ()):
    """Package models of profile `importable`. `avoid`: slugs of known findings to steer away from (by construction);
    `on_excluded(slug)` is called each time a choice is restricted because of one."""
    tree = draw(trees(2, max_mods))
    order = draw(orders(len(tree)))
    paths = [tree[i][0] for i in order]
    is_pkg = {tree[i][0]: tree[i][1] for i in order}
    path_set = set(paths)
    pkg_set = {p for p in paths if is_pkg[p]}
    case = {"mods": []}
    sim: dict = {}
    avoid_stale = "stale-alias-after-wildcard-override" in avoid
    taint_key = "tainted_strict" if strict_taint else "tainted"
    avoid_helper = False
    avoid_dot = "dot-import-submodule-not-exposed" in avoid
    avoid_same = "wildcard-rebinding-same-module-skipped" in avoid

    def excluded(slug):
        if on_excluded is not None:
            on_excluded(slug)

    def resim(mod):
        sim[mod["path"]] = _sim_module(case, mod, sim, path_set, pkg_set)

    for i, path in enumerate(paths):
        mod = {"path": path, "pkg": is_pkg[path], "body": []}
        case["mods"].append(mod)
        sources = allowed_sources(paths, i)
        body = mod["body"]
        serial = [0]

        # self_names (C04): a module also binds - by definition or by `import ... as` - its own module name and the
        # name of its parent package (`app/logging.py` doing `import logging`). The guards below keep such a name out of
        # every package that has a sub-module of that name.
        self_pool = []
        if self_names and path != "":
            self_pool.append(base_name(path))
            if parent_path(path):
                self_pool.append(base_name(parent_path(path)))

        def pick_name():
            if self_pool and draw(st.integers(0, 3)) == 3:
                return draw(st.sampled_from(self_pool))
            if extra_names and draw(st.integers(0, 3)) == 3:
                return draw(st.sampled_from(extra_names))  # e.g. `annotations`: `from .m import x as annotations`
            return draw(st.sampled_from(OBJ_NAMES))

        def local_stmt():
            serial[0] += 1
            name = pick_name()
            kind = draw(st.sampled_from(("val", "val", "def", "class")))
            if kind == "class":
                sub = []
                if class_bodies and draw(st.booleans()):
                    for j in range(draw(st.integers(1, 3))):
                        sk = draw(st.sampled_from(("val", "def", "class", "imp") if class_imports and sources else ("val", "def", "class")))
                        if sk == "imp":
                            # an import statement in the class body binds class attributes (explicit forms only:
                            # `import *` is a SyntaxError outside module level)
                            src = draw(st.sampled_from(sources))
                            names = importable(src)
                            asname = draw(st.sampled_from((None, "m", "n", "_o", "K")))
                            if names and draw(st.integers(0, 3)) > 0:
                                n = draw(st.sampled_from(names))
                                sub.append({"t": "from", "mod": src, "level": _pick_level(draw, path, is_pkg[path], src), "names": [[n, asname]]})
                            else:
                                sub.append({"t": "import", "mod": src, "as": asname})
                            continue
                        sn = draw(st.sampled_from(("m", "n", "_o", "__init__" if sk == "def" else "K")))
                        one = {"t": sk, "name": sn, "serial": j}
                        if sk == "def":
                            one["params"] = "self" + draw(st.sampled_from(("", ", x", ", x, *, y=2", ", *a, **k")))
                        if sk == "class":
                            one["body"] = [{"t": "val", "name": "z", "serial": 0}] if draw(st.booleans()) else []
                        sub.append(one)
                return {"t": "class", "name": name, "serial": serial[0], "body": sub}
            if kind == "def":
                if deco_defs and draw(st.booleans()):
                    return {"t": "def", "name": name, "serial": serial[0], "deco": True}
                return {"t": "def", "name": name, "serial": serial[0], "params": draw(st.sampled_from(PARAMS))}
            return {"t": "val", "name": name, "serial": serial[0]}

        own_children = {base_name(p) for p in paths if p != "" and parent_path(p) == path}

        def exported_names(src: str) -> list[str]:
            s_ = sim[src]
            return s_["exports"] if s_["exports"] is not None else [n for n in s_["ns"] if not n.startswith("_")]

        def importable(src: str) -> list[str]:
            # (documented precondition) nothing imported into a package may carry the name of one of its sub-modules,
            # except the sub-module itself imported directly (`from . import sub`, handled below)
            names = [n for n in mentionable(case, sim, src) if n not in own_children]
            if avoid_stale and sim[src][taint_key]:
                kept = [n for n in names if n not in sim[src][taint_key]]
                if len(kept) != len(names):
                    excluded("stale-alias-after-wildcard-override")
                names = kept
            if avoid_helper:
                names = [n for n in names if not sim[src]["ns"][n].get("helper")]
            return names

        def wildcard_sources() -> list[str]:
            out = []
            cur = _sim_module(case, mod, sim, path_set, pkg_set)["ns"] if avoid_same else {}
            for src in sources:
                if wild_plain_only and is_pkg[src]:
                    continue
                exported = set(exported_names(src))
                if exported & own_children:
                    continue
                if avoid_same and any(
                    n in cur and not sim[src]["ns"].get(n, {}).get("helper")
                    and sim[src]["ns"].get(n, {}).get("origin") in cur[n]["mod_origins"]
                    for n in exported
                ):
                    excluded("wildcard-rebinding-same-module-skipped")
                    continue
                if avoid_stale and sim[src][taint_key] & exported:
                    excluded("stale-alias-after-wildcard-override")
                    continue
                out.append(src)
            return out

        n_stmts = draw(st.integers(0, max_stmts))
        for _ in range(n_stmts):
            # weights: cumulative thresholds for (local definition, wildcard, from-import, from-import of a sub-module,
            # import a.b [as c])
            if "$TOP" in extra_names and sources and body:
                last = body[-1]
                as_top = (last["t"] == "import" and last.get("as") == "$TOP") or (
                    last["t"] == "from" and last["names"] != "*" and any(a_ == "$TOP" for _, a_ in last["names"])
                )
                if as_top and draw(st.booleans()):
                    # the name of the top-level package was just bound by an aliased / from import: re-bind it with a
                    # plain `import <top>.m`
                    body.append({"t": "import", "mod": draw(st.sampled_from(sources)), "as": None})
                    continue
            roll = draw(st.integers(0, weights[4] - 1)) if sources else 0
            if weights[0] <= roll < weights[1]:  # wildcard
                wsrc = wildcard_sources()
                if not wsrc:
                    body.append(local_stmt())
                    continue
                src = _pick_recent(draw, wsrc)
                body.append({"t": "from", "mod": src, "level": _pick_level(draw, path, is_pkg[path], src), "names": "*"})
            elif weights[1] <= roll < weights[2]:  # explicit from-import of objects
                src = _pick_recent(draw, sources)
                names = importable(src)
                if not names:
                    body.append(local_stmt())
                    continue
                chosen = draw(st.lists(st.sampled_from(names), min_size=1, max_size=3, unique=True))
                pairs = [[n, pick_name() if draw(st.integers(0, 2)) == 2 else None] for n in chosen]
                body.append({"t": "from", "mod": src, "level": _pick_level(draw, path, is_pkg[path], src), "names": pairs})
            elif weights[2] <= roll < weights[3]:  # from <package> import <submodule> [as z]
                subs = [s for s in sources if s != ""]
                if not subs:
                    body.append(local_stmt())
                    continue
                sub = draw(st.sampled_from(subs))
                pkg = parent_path(sub)
                asname = pick_name() if draw(st.integers(0, 2)) == 2 else None
                level = _pick_level(draw, path, is_pkg[path], pkg)
                if avoid_dot and pkg == path and level == 1 and not asname:
                    excluded("dot-import-submodule-not-exposed")
                    level = 0
                body.append({"t": "from", "mod": pkg, "level": level, "names": [[base_name(sub), asname]]})
            elif weights[3] <= roll < weights[4]:  # import a.b [as z]
                src = draw(st.sampled_from(sources))
                asname = pick_name() if draw(st.booleans()) else None
                body.append({"t": "import", "mod": src, "as": asname})
            else:
                body.append(local_stmt())

        # ---- __all__ (decided last: its items must exist at the end of the module)
        resim(mod)
        if draw(st.integers(0, 9)) >= 6:
            _add_all(draw, case, mod, sim, sources, all_forms, avoid_helper, i, avoid_stale, own_children, paths[:i], avoid_dot)
            resim(mod)
        body = mod["body"]
        if allow_join:
            for k in range(1, len(body)):
                if body[k]["t"] in ("val", "from", "import", "all") and body[k - 1]["t"] in ("val", "from", "import", "all"):
                    if draw(st.integers(0, 9)) == 9:
                        if "same-line-wildcard-override" in avoid and body[k]["t"] == "from" and body[k]["names"] == "*":
                            excluded("same-line-wildcard-override")  # a wildcard import always starts its line
                            continue
                        body[k]["join"] = True
            if any(st_.get("join") for st_ in body):
                resim(mod)
    return case


def _add_all(draw, case, mod, sim, sources, all_forms: bool, unique_helpers: bool, index: int, avoid_stale: bool = False,
             own_children: frozenset = frozenset(), earlier: tuple = (), avoid_dot: bool = False) -> None:
    body = mod["body"]
    path = mod["path"]
    me = sim[path]
    names = mentionable(case, sim, path)
    # own sub-modules may be listed too (`__all__ = ["submodule"]`); CPython then imports them on `import *`, which is
    # only safe for sub-modules that come earlier in the import order
    names += sorted(base_name(c) for c in children(case, path) if c in earlier and base_name(c) not in names)
    seq = draw(st.sampled_from(("list",) * 4 + ("tuple",))) if all_forms else "list"
    items: list = [n for n in names if draw(st.booleans())]
    assign_pos = draw(st.integers(0, len(body)))
    splices = []
    spliceable = [s for s in sources if sim[s]["exports"] is not None]
    spliceable = [s for s in spliceable if not (set(sim[s]["exports"]) & set(own_children))]
    if avoid_stale:
        spliceable = [s for s in spliceable if not (sim[s]["tainted"] & set(sim[s]["exports"]))]
    # sources that some earlier module holds a direct module alias of (`from . import impl as core`): splicing through
    # such an alias is rare by chance, so it is preferred whenever it is possible
    aliased = []
    if all_forms:
        for s_ in spliceable:
            if any(
                zi.get("kind") == "module" and zi.get("origin") == s_ and zi["how"] in ("from", "import") and not zi["chain"]
                and not zi.get("helper") and z not in me["ns"]
                for y in sources if y != s_ for z, zi in sim[y]["ns"].items()
            ):
                aliased.append(s_)
    if aliased and draw(st.integers(0, 2)) > 0:
        splices.append((draw(st.sampled_from(aliased)), draw(st.sampled_from(("star-alias", "plus-alias", "aug-alias")))))
    elif all_forms and spliceable and draw(st.booleans()):
        for src in draw(st.lists(st.sampled_from(spliceable), min_size=1, max_size=2, unique=True)):
            form = draw(st.sampled_from(("star", "plus", "aug", "star-attr", "plus-attr", "aug-attr", "star-alias", "plus-alias", "aug-alias")))
            splices.append((src, form))
    pre: list = []  # binding statements that must precede the __all__ statement
    post: list = []  # __all__ += ... statements
    src_seq = {m["path"]: next((s["seq"] for s in m["body"] if s["t"] == "all" and s["op"] == "="), "list") for m in case["mods"]}
    used: set = set()
    spliced_exports = set().union(*[set(sim[s_]["exports"]) for s_, _ in splices]) if splices else set()
    for src, form in splices:
        level = _pick_level(draw, path, mod["pkg"], src)
        via_alias = False
        if form.endswith("-alias"):
            # `from <other module> import z` where z is that module's alias of module `src` (`from . import impl as core`,
            # `import p.impl as core`), then `z.__all__`: the lookup of the spliced list goes THROUGH an alias member
            cands = []
            for y in sources:
                if y == src:
                    continue
                bad = sim[y]["tainted"] if avoid_stale else set()
                for z in mentionable(case, sim, y):
                    zi = sim[y]["ns"][z]
                    # the other module binds z by a direct module import (exports are expanded before wildcards, so a
                    # name that only arrives through a wildcard cannot be used to splice: documented forms only)
                    if (zi.get("kind") == "module" and zi.get("origin") == src and zi["how"] in ("from", "import") and not zi["chain"]
                            and not zi.get("helper") and z not in me["ns"]
                            and z not in own_children and z not in used and z not in spliced_exports and z not in bad):
                        cands.append((y, z))
            if cands:
                y, z = draw(st.sampled_from(cands))
                used.add(z)
                pre.append({"t": "from", "mod": y, "level": _pick_level(draw, path, mod["pkg"], y), "names": [[z, None]]})
                ref = f"{z}.__all__"
                via_alias = True
            else:
                form = form.replace("-alias", "-attr")
        tag = ["alias"] if via_alias else []
        if via_alias:
            pass
        elif form.endswith("-attr"):
            # `<top>.a.b.__all__` reads attributes of packages: `a` must be fully imported, so it must not be
            # this module or one of its ancestors (which may still be initialising)
            shares_branch = src != "" and path != "" and src.split(".")[0] == path.split(".")[0]
            # names used to splice an `__all__` are bound exactly once in the module (documented forms): if the body
            # already binds the module's name some other way, fall back to a helper name
            if src != "" and base_name(src) in me["ns"]:
                if shares_branch:
                    form = form.split("-")[0]
                    pre_len = None
                else:
                    pre.append({"t": "import", "mod": src, "as": None})
                    ref = "$TOP" + (f".{src}" if src else "") + ".__all__"
                    pre_len = len(pre)
            else:
                pre_len = None
            if pre_len is not None:
                pass
            elif not form.endswith("-attr"):
                helper = (base_name(src) or "top") + "_all"
                if unique_helpers or helper in me["ns"]:
                    helper += f"_i{index}"
                pre.append({"t": "from", "mod": src, "level": level, "names": [["__all__", helper]]})
                ref = helper
            elif src != "" and (shares_branch or draw(st.booleans())):
                # module bound by `from <pkg> import <mod>`
                pkg = parent_path(src)
                lvl = _pick_level(draw, path, mod["pkg"], pkg)
                if avoid_dot and pkg == path and lvl == 1:
                    lvl = 0
                pre.append({"t": "from", "mod": pkg, "level": lvl, "names": [[base_name(src), None]]})
                ref = f"{base_name(src)}.__all__"
            else:
                pre.append({"t": "import", "mod": src, "as": None})
                ref = "$TOP" + (f".{src}" if src else "") + ".__all__"
        else:
            helper = (base_name(src) or "top") + "_all"
            if unique_helpers or helper in me["ns"]:
                helper += f"_i{index}"
            pre.append({"t": "from", "mod": src, "level": level, "names": [["__all__", helper]]})
            ref = helper
        same_type = src_seq.get(src, "list") == seq
        kind = form.split("-")[0]
        if kind == "star" or not same_type:
            if kind == "aug":
                post.append({"t": "all", "op": "+=", "seq": seq, "ann": False, "items": [["star", ref, *tag]]})
            else:
                items.append(["star", ref, *tag])
        elif kind == "plus":
            items.append(["plus", ref, *tag])
        else:
            post.append({"t": "all", "op": "+=", "seq": seq, "ann": False, "items": [["plus", ref, *tag]]})
        # every name of the spliced list must exist in this module when somebody wildcard-imports it
        missing = [n for n in sim[src]["exports"] if n not in me["ns"]]
        if missing:
            pre.append({"t": "from", "mod": src, "level": level, "names": [[n, None] for n in missing]})
    lit = [it for it in items if isinstance(it, str)]
    if lit and draw(st.integers(0, 3)) == 3:
        moved = lit[-1]
        items.remove(moved)
        post.append({"t": "all", "op": "+=", "seq": seq, "ann": False, "items": [moved]})
    assign = {"t": "all", "op": "=", "seq": seq, "ann": draw(st.integers(0, 5)) == 5, "items": items}
    # `pre` statements bind new names only (missing names are new; helper and module names come from their own pools)
    new_body = body[:assign_pos] + pre + [assign] + body[assign_pos:]
    for p in post:
        at = draw(st.integers(assign_pos + len(pre) + 1, len(new_body)))
        new_body.insert(at, p)
    mod["body"] = new_body
