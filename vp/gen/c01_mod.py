"""G-MOD for C01: structural model of one Python module (JSON-able), Hypothesis strategy and deterministic renderer.

The model is a tree of statement dicts. Only the *text* produced by `render` is handed to Griffe and to the
reference binder (vp/gen/c01_ref.py works from `ast.parse(text)` alone), so the model carries no expectations:
it exists so that failing cases shrink structurally and replay from JSON.

Model
-----
case = {"kind": "mod", "entry": "visit"|"load", "layout": "top" (module m) | "sub" (module p.m) | "init" (p/__init__.py) | "deep" (p.q.m) | "subinit" (p/q/__init__.py),
        "doc": docspec|None,
        "ptry": bool,                     # wrap the derived import prelude in try/except ImportError
        "body": [stmt, ...]}

stmt (field "k"):
  def     name, async, decs[dec], sig, ret, doc, tail, init[istmt]     (init only used for __init__ in a class)
  class   name, decs[dec], bases, doc, body[stmt]
  ovl     name, n, via, impl(def)                     n @overload stubs immediately followed by the implementation
  assign  targets[name], value
  ann     target, ann, value|None
  import  names[[dotted, asname|None]]
  from    module, level, names[[name, asname|None]] | "*", ml
  all     form, items[name]                           (module level only)
  allaug  items[name]
  str     doc                                         a string-expression statement (docstring candidate)
  expr    form                                        an expression statement that is not a docstring
  unsup   form, names[name]                           binders that must not create members
  if      test, body, elifs[[stmt]], orelse|None
  try     body, handlers[[stmt]], orelse|None, final|None
  for     var, body, orelse|None
  with    var|None, body
  while   body, orelse|None ; match cases[[stmt]]   (not among the blocks the property names: what they bind is left open)
  prop    name, getter, via, doc, parts             property getter followed by @name.setter / @name.deleter definitions
istmt (inside __init__): sassign attrs[name], value | sann attr, ann, value|None | local | sdeep | other | stuple |
  idef form (def / overload group / class / import / property+setter / decorated def+class nested in __init__), attrs |
  str | if | try | for | with (same shapes, bodies made of istmt)
"""

from __future__ import annotations

from hypothesis import strategies as st

# --------------------------------------------------------------------------------------------- alphabets
# the full grid of 0/1/2 leading x 0/1/2 trailing underscores (special / private / class-private are decided by both ends),
# plus a few plain duplicates-prone names; used for module members, class members and instance attributes alike
NAMES = ["a", "r_", "s__", "_p", "_t_", "_u__", "__q", "__v_", "__d__", "b", "A", "_C"]

# values: list of lines; the first goes after "= ", the others are emitted verbatim after the statement indent
VALUES = [
    ["1"],
    ["'s'"],
    ["None"],
    ["fn(1, k=2)"],
    ["(", "    1", "    + 2", ")"],
    ["[", "    1,", "    2,", "]"],
    ["{'k': (", "    0),", "}"],
    ['"""multi', 'line value"""'],
    ["lambda q: q"],
    ["a"],
    ["b if c else 0"],
    ["1  # trailing comment"],
    ["1 + \\", "    2"],
    ["[i for i in range(3)]"],
]
ANNS = ["int", "'Fwd'", "ClassVar[int]", "typing.ClassVar[int]", "list[int]", "int | None"]
SIGS = ["", "u", "u, v=1", "*args, **kw", "u: int = 2, /, v: 'T' = None, *, w"]
SIGS_ML = [["", "    u,", "    v=1,", ""], ["", "    *args,", ""]]  # rendered as "(" + lines + ")"
RETS = [None, "int", "'T'"]
TAILS = ["pass", "...", "return 1", "local", "nested", "inline", "nested_ovl", "selfattr", "nested_init"]
BASES = ["", "()", "(Base)", "(pkg.Base, metaclass=Meta)", "ML"]
CONDS = ["cond", "sys.version_info >= (3, 9)", "not flag", "a"]
IMPORT_MODULES = ["os", "sys", "os.path", "pkg.sub", "pkg.sub.deep", "collections.abc", "json"]
FROM_MODULES = ["os", "os.path", "pkg", "pkg.sub", "collections", "functools", "typing"]
REL_MODULES = ["", "sib", "sib.deep"]
FROM_NAMES = ["path", "join", "Thing", "other", "a", "b", "_p", "A"]
DOC_LINES = ["Summary.", "", "    indented more", "odd", "Args:", "    u: thing", "trailing   ", "Last line."]
EXPR_FORMS = ['f"{a}"', 'b"bytes"', "1", "...", "a", "fn()", "a.b"]
UNSUP_FORMS = ["tuple", "list", "starred", "subscript", "attr", "attrmix", "walrus", "aug", "call_attr"]

# decorators: name -> (module path or None for builtins, attribute, primary?, callable args or None)
DECOS = {
    "property": (None, "property", True, None),
    "staticmethod": (None, "staticmethod", True, None),
    "classmethod": (None, "classmethod", True, None),
    "abstractmethod": ("abc", "abstractmethod", True, None),
    "cache": ("functools", "cache", True, None),
    "lru_cache": ("functools", "lru_cache", True, "maxsize=None"),
    "cached_property": ("functools", "cached_property", True, None),
    "cp_cached_property": ("cached_property", "cached_property", False, None),
    "dataclass": ("dataclasses", "dataclass", True, "frozen=True"),
    "overload": ("typing", "overload", True, None),
    "te_overload": ("typing_extensions", "overload", False, None),
    "unk": ("ext", "deco", True, "1, k=2"),
    "unkattr": ("ext", "reg", True, None),  # used as reg.ister
}
FUNC_DECOS_ANY = ["cache", "lru_cache", "unk", "unkattr"]
FUNC_DECOS_CLASS = ["property", "staticmethod", "classmethod", "abstractmethod", "cached_property", "cp_cached_property"]
SELF_DECOS = ["selfsetter", "selfdeleter"]  # rendered as @<name of the def>.setter / .deleter
CLASS_DECOS = ["dataclass", "unk", "unkattr"]


# --------------------------------------------------------------------------------------------- strategies
def _names():
    return st.sampled_from(NAMES)


def _doc():
    return st.fixed_dictionaries(
        {
            "style": st.integers(0, 7),
            "text": st.lists(st.integers(0, len(DOC_LINES) - 1), min_size=0, max_size=4),
            "trail": st.integers(0, 2),
            "close": st.booleans(),
        }
    )


def _opt(s, p_none=2):
    return st.one_of(*([st.none()] * p_none), s) if p_none > 1 else st.one_of(st.none(), s)


def _value():
    return st.integers(0, len(VALUES) - 1)


def _dec(pool):
    return st.fixed_dictionaries({"d": st.sampled_from(pool), "via": st.integers(0, 3), "call": st.booleans(), "ml": st.booleans()})


def _decs(pool):
    return st.one_of(st.just([]), st.just([]), st.lists(_dec(pool), min_size=1, max_size=2))


def _assign():
    return st.fixed_dictionaries({"k": st.just("assign"), "targets": st.lists(_names(), min_size=1, max_size=2), "value": _value()})


def _ann():
    return st.fixed_dictionaries(
        {"k": st.just("ann"), "target": _names(), "ann": st.integers(0, len(ANNS) - 1), "value": st.one_of(st.none(), _value())}
    )


def _import():
    item = st.tuples(st.sampled_from(IMPORT_MODULES), st.one_of(st.none(), st.none(), _names())).map(list)
    return st.fixed_dictionaries({"k": st.just("import"), "names": st.lists(item, min_size=1, max_size=2)})


def _from(rel: int):
    item = st.tuples(st.sampled_from(FROM_NAMES), st.one_of(st.none(), st.none(), _names())).map(list)
    names = st.one_of(st.lists(item, min_size=1, max_size=3), st.lists(item, min_size=1, max_size=3), st.just("*"))
    absolute = st.fixed_dictionaries(
        {"k": st.just("from"), "module": st.sampled_from(FROM_MODULES), "level": st.just(0), "names": names, "ml": st.booleans()}
    )
    if not rel:
        return absolute
    relative = st.fixed_dictionaries(
        {"k": st.just("from"), "module": st.sampled_from(REL_MODULES), "level": st.integers(1, rel), "names": st.lists(item, min_size=1, max_size=2), "ml": st.booleans()}
    )
    return st.one_of(absolute, relative)


def _str():
    return st.fixed_dictionaries({"k": st.just("str"), "doc": _doc()})


def _expr():
    return st.fixed_dictionaries({"k": st.just("expr"), "form": st.integers(0, len(EXPR_FORMS) - 1)})


def _unsup():
    return st.fixed_dictionaries(
        {"k": st.just("unsup"), "form": st.sampled_from(UNSUP_FORMS), "names": st.lists(_names(), min_size=2, max_size=2)}
    )


def _all():
    return st.fixed_dictionaries(
        {
            "k": st.just("all"),
            "form": st.sampled_from(["list", "tuple", "set", "plus", "ann", "splice", "plusname", "empty", "ml"]),
            "items": st.lists(_names(), min_size=0, max_size=3),
        }
    )


def _allaug():
    return st.fixed_dictionaries({"k": st.just("allaug"), "items": st.lists(_names(), min_size=0, max_size=2)})


def _init_block(depth: int):
    return st.lists(_istmt(depth), min_size=0, max_size=4)


def _istmt(depth: int):
    simple = [
        st.fixed_dictionaries({"k": st.just("sassign"), "attrs": st.lists(_names(), min_size=1, max_size=2), "value": _value()}),
        st.fixed_dictionaries({"k": st.just("sassign"), "attrs": st.lists(_names(), min_size=1, max_size=2), "value": _value()}),
        st.fixed_dictionaries({"k": st.just("sann"), "attr": _names(), "ann": st.integers(0, len(ANNS) - 1), "value": st.one_of(st.none(), _value())}),
        st.fixed_dictionaries({"k": st.sampled_from(["local", "sdeep", "other", "stuple", "sall"]), "attrs": st.lists(_names(), min_size=2, max_size=2)}),
        _str(),
        # definitions nested in __init__: not module/class-level bindings (Griffe nevertheless walks them)
        st.fixed_dictionaries({"k": st.just("idef"), "form": st.sampled_from(["def", "ovl", "class", "import", "prop", "decorated"]), "attrs": st.lists(_names(), min_size=2, max_size=2)}),
    ]
    if depth <= 0:
        return st.one_of(*simple)
    sub = _init_block(depth - 1)
    compound = [
        st.fixed_dictionaries({"k": st.just("if"), "test": st.just("cond0"), "body": sub, "elifs": st.just([]), "orelse": _opt(sub)}),
        st.fixed_dictionaries({"k": st.just("try"), "body": sub, "handlers": st.lists(sub, min_size=0, max_size=1), "orelse": st.none(), "final": _opt(sub)}),
        st.fixed_dictionaries({"k": st.sampled_from(["for", "with"]), "var": st.none(), "body": sub, "orelse": st.none()}),
    ]
    return st.one_of(*simple, *simple, *compound)


def _def(scope: str):
    pool = FUNC_DECOS_ANY + (FUNC_DECOS_CLASS if scope == "cls" else [])
    plain = st.fixed_dictionaries(
        {
            "k": st.just("def"),
            "name": _names(),
            "async": st.sampled_from([False, False, False, True]),
            "decs": _decs(pool),
            "sig": st.integers(0, len(SIGS) + len(SIGS_ML) - 1),
            "ret": st.integers(0, len(RETS) - 1),
            "doc": _opt(_doc()),
            "tail": st.integers(0, len(TAILS) - 1),
            "init": st.just([]),
        }
    )
    if scope != "cls":
        # a module-level function that happens to be called __init__ (e.g. grafted onto a class later): its `self.x = ...`
        # statements bind nothing at module level
        stray_init = st.fixed_dictionaries(
            {
                "k": st.just("def"),
                "name": st.just("__init__"),
                "async": st.just(False),
                "decs": st.just([]),
                "sig": st.integers(0, len(SIGS) + len(SIGS_ML) - 1),
                "ret": st.integers(0, 1),
                "doc": _opt(_doc(), 3),
                "tail": st.integers(0, 2),
                "init": _init_block(1),
            }
        )
        return weighted((plain, 5), (stray_init, 1))
    # methods whose decorators come from the label tables (property, cached_property, staticmethod ...)
    labelled = st.fixed_dictionaries(
        {
            "k": st.just("def"),
            "name": _names(),
            "async": st.sampled_from([False, False, False, True]),
            "decs": st.lists(_dec(FUNC_DECOS_CLASS + ["cache", "unk", "selfsetter"]), min_size=1, max_size=2),
            "sig": st.integers(0, len(SIGS) + len(SIGS_ML) - 1),
            "ret": st.integers(0, len(RETS) - 1),
            "doc": _opt(_doc()),
            "tail": st.integers(0, len(TAILS) - 1),
            "init": st.just([]),
        }
    )
    init = st.fixed_dictionaries(
        {
            "k": st.just("def"),
            "name": st.just("__init__"),
            "async": st.just(False),
            "decs": st.one_of(st.just([]), st.just([]), st.just([]), st.lists(_dec(["unk", "unkattr"]), min_size=1, max_size=1)),
            "sig": st.integers(0, len(SIGS) + len(SIGS_ML) - 1),
            "ret": st.integers(0, 1),
            "doc": _opt(_doc(), 3),
            "tail": st.integers(0, 2),
            "init": _init_block(2),
        }
    )
    return st.one_of(plain, labelled, init)


def _prop():
    """A property group: getter followed by setter / deleter definitions of the same name."""
    return st.fixed_dictionaries(
        {
            "k": st.just("prop"),
            "name": _names(),
            "getter": st.sampled_from(["property", "cached_property", "property", "plain"]),
            "via": st.integers(0, 3),
            "doc": _opt(_doc()),
            "parts": st.lists(st.sampled_from(["setter", "deleter", "setter", "gap"]), min_size=1, max_size=3),
        }
    )


def _ovl(scope: str):
    impl = _def("mod")  # implementation carries no property/static decorators
    return st.builds(
        lambda n, via, te, impl: {"k": "ovl", "n": n, "via": via, "te": te, "impl": impl},
        st.integers(1, 2),
        st.integers(0, 3),
        st.booleans(),
        impl,
    )


def weighted(*pairs):
    """one_of with integer weights. Hypothesis drops repeated occurrences of the *same* strategy object from one_of, so
    every repetition is wrapped in its own (identity) map."""
    alts = []
    for strat, w in pairs:
        alts.append(strat)
        alts.extend(strat.map(lambda x: x) for _ in range(w - 1))
    return st.one_of(*alts)


def _block(scope: str, depth: int, direct: bool, rel: int, max_size: int = 4):
    return st.lists(_stmt(scope, depth, direct, rel), min_size=0, max_size=max_size)


_CACHE: dict = {}


def _stmt(scope: str, depth: int, direct: bool, rel: int):
    key = (scope, depth, direct, rel)
    if key in _CACHE:
        return _CACHE[key]
    simple = [_assign(), _assign(), _ann(), _import(), _from(rel), _str(), _str(), _expr(), _unsup(), _def(scope), _def(scope)]
    if scope == "mod" and direct:
        simple += [_all(), _allaug()]
    elif scope == "mod":
        simple += [_all()]  # (re-)assignment of __all__ inside a block: exports must follow the surviving binding
    if scope == "cls":
        # a class-level __all__ is an ordinary attribute: it exports nothing (exported = listed in the parent *module*'s __all__)
        simple += [_prop(), _all()]
    if depth <= 0:
        out = st.one_of(*simple)
        _CACHE[key] = out
        return out
    inner = st.deferred(lambda: _block(scope, depth - 1, False, rel, 3))
    clsbody = st.deferred(lambda: _block("cls", depth - 1, True, rel, 5))
    # TYPE_CHECKING below another block / in an elif: the statement leaves the flag open there, everything else is judged
    tests = ["tc", "ttc", "cond", "cond"] if direct else ["cond", "cond", "cond", "tc", "ttc"]
    compound = [
        st.fixed_dictionaries(
            {
                "k": st.just("class"),
                "name": _names(),
                "decs": _decs(CLASS_DECOS),
                "bases": st.integers(0, len(BASES) - 1),
                "doc": _opt(_doc()),
                "body": clsbody,
            }
        ),
        st.fixed_dictionaries(
            {
                "k": st.just("if"),
                "test": st.sampled_from(tests),
                "body": inner,
                "elifs": st.one_of(st.just([]), st.just([]), st.lists(inner, min_size=1, max_size=1)),
                "orelse": _opt(inner),
                "eliftc": st.sampled_from([False, False, False, True]),
            }
        ),
        st.fixed_dictionaries(
            {
                "k": st.just("try"),
                "body": inner,
                "handlers": st.lists(inner, min_size=0, max_size=2),
                "orelse": _opt(inner, 3),
                "final": _opt(inner, 3),
            }
        ),
        st.fixed_dictionaries({"k": st.just("for"), "var": st.one_of(st.none(), _names()), "body": inner, "orelse": _opt(inner, 4)}),
        st.fixed_dictionaries({"k": st.just("with"), "var": st.one_of(st.none(), _names()), "body": inner, "orelse": st.none()}),
        _ovl(scope),
        # not among the blocks the property names (if/try/for/with): presence of what they bind is left open
        st.one_of(
            st.fixed_dictionaries({"k": st.just("while"), "body": inner, "orelse": _opt(inner, 4)}),
            st.fixed_dictionaries({"k": st.just("match"), "cases": st.lists(inner, min_size=1, max_size=3)}),
        ),
    ]
    out = weighted(*[(x, 1) for x in simple], (compound[0], 3), (compound[1], 3), *[(x, 1) for x in compound[2:]])
    _CACHE[key] = out
    return out


def modules(max_depth: int = 3, entry_load_ratio: int = 8):
    """Strategy of module cases."""

    @st.composite
    def build(draw):
        layout = draw(st.sampled_from(["top", "top", "top", "sub", "sub", "init", "deep", "subinit"]))
        entry = draw(st.sampled_from(["visit"] * (entry_load_ratio - 1) + ["load"]))
        rel = {"top": 0, "sub": 1, "init": 1, "deep": 2, "subinit": 2}[layout]
        body = draw(st.lists(_stmt("mod", max_depth, True, rel), min_size=1, max_size=7))
        return {
            "kind": "mod",
            "entry": entry,
            "layout": layout,
            "doc": draw(_opt(_doc())),
            "ptry": draw(st.sampled_from([False, False, False, True])),
            "body": body,
        }

    return build()


# --------------------------------------------------------------------------------------------- renderer
IND = "    "


def render_doc(doc: dict, ind: str) -> list[str]:
    """Lines of a string-expression statement for a docspec (the first line carries the indent)."""
    style = doc["style"]
    text = [DOC_LINES[i] for i in doc["text"]]
    if style == 2:  # single-quoted, one line
        return [f'{ind}"{(text[0] if text else "one line").strip()}"']
    if style == 4:  # implicit concatenation on one line
        return [f'{ind}"part one " "part two"']
    if style == 5:  # parenthesised concatenation over several lines
        return [f"{ind}(", f'{ind}    "part one "', f'{ind}    "part two"', f"{ind})"]
    if style == 6:  # empty
        return [f'{ind}""""""']
    q = {0: '"""', 1: "'''", 3: 'r"""', 7: 'u"""'}[style]
    endq = q[-3:]
    lines = list(text) or ["Doc."]
    out = []
    for i, frag in enumerate(lines):
        if i == 0:
            out.append(f"{ind}{q}{frag.strip()}")
        elif frag == "odd":
            out.append("  odd indentation")  # deliberately less indented than the statement
        elif frag == "":
            out.append("")
        else:
            out.append(f"{ind}{frag}")
    out.extend([""] * doc["trail"])
    if doc["close"] or doc["trail"]:
        out.append(f"{ind}{endq}")
    else:
        out[-1] = out[-1] + endq
    return out


def _use_name(d: str, via: int) -> tuple[str, str | None]:
    """(expression text used in the decorator, prelude import statement or None)."""
    mod, attr, primary, _ = DECOS[d]
    suffix = ".ister" if d == "unkattr" else ""
    if mod is None:
        return attr, None
    if not primary and via in (0, 2):
        via += 1  # secondary modules only through unique aliases (their plain names collide with the primary's)
    if via == 0:
        return f"{mod}.{attr}{suffix}", f"import {mod}"
    if via == 1:
        return f"m_{mod}.{attr}{suffix}", f"import {mod} as m_{mod}"
    if via == 2:
        return f"{attr}{suffix}", f"from {mod} import {attr}"
    alias = f"{mod}_{attr}"
    return f"{alias}{suffix}", f"from {mod} import {attr} as {alias}"


class _R:
    def __init__(self, case: dict):
        self.case = case
        self.prelude: list[str] = []

    def need(self, stmt: str | None) -> None:
        if stmt and stmt not in self.prelude:
            self.prelude.append(stmt)

    def dec_lines(self, decs: list, ind: str, name: str = "") -> list[str]:
        out = []
        for dec in decs:
            if dec["d"] in SELF_DECOS:
                out.append(f"{ind}@{name}.{dec['d'][4:]}")
                continue
            text, imp = _use_name(dec["d"], dec["via"])
            self.need(imp)
            args = DECOS[dec["d"]][3]
            if dec["call"] and args is not None:
                if dec["ml"]:
                    out.append(f"{ind}@{text}(")
                    out.extend(f"{ind}    {a.strip()}," for a in args.split(","))
                    out.append(f"{ind})")
                else:
                    out.append(f"{ind}@{text}({args})")
            else:
                out.append(f"{ind}@{text}")
        return out

    def value(self, head: str, v: int, ind: str) -> list[str]:
        lines = VALUES[v]
        out = [f"{ind}{head}{lines[0]}"]
        for more in lines[1:]:
            out.append(more if more.startswith('line value') else f"{ind}{more}")
        return out

    def block(self, stmts: list, ind: str, scope: str) -> list[str]:
        out: list[str] = []
        for s in stmts:
            out.extend(self.stmt(s, ind, scope))
        if not out:
            out.append(f"{ind}pass")
        return out

    def deflines(self, s: dict, ind: str, scope: str, decs_extra: list[str] | None = None, force_stub: bool = False) -> list[str]:
        out = list(decs_extra or []) + self.dec_lines(s["decs"], ind, s["name"])
        kw = "async def" if s["async"] else "def"
        first = "self" if scope == "cls" or s["name"] == "__init__" else ""
        sig_i = s["sig"]
        ret = RETS[s["ret"]]
        arrow = f" -> {ret}" if ret else ""
        if sig_i < len(SIGS):
            sig = ", ".join(x for x in (first, SIGS[sig_i]) if x)
            header = [f"{ind}{kw} {s['name']}({sig}){arrow}:"]
        else:
            ml = SIGS_ML[sig_i - len(SIGS)]
            header = [f"{ind}{kw} {s['name']}("]
            if first:
                header.append(f"{ind}    {first},")
            header.extend(f"{ind}{x}" for x in ml[1:-1])
            header.append(f"{ind}){arrow}:")
        tail = TAILS[s["tail"]]
        is_init = s["name"] == "__init__"
        if force_stub:
            header[-1] += " ..."
            return out + header
        if tail == "inline" and not s["doc"] and not (is_init and s["init"]):
            header[-1] += " ..."
            return out + header
        body: list[str] = []
        ind2 = ind + IND
        if s["doc"]:
            body.extend(render_doc(s["doc"], ind2))
        if is_init:
            body.extend(self.iblock(s["init"], ind2, empty_ok=True))
        if tail == "local":
            body.extend([f"{ind2}a = 1", f"{ind2}b: int = 2", f'{ind2}"""not an attribute docstring"""'])
        elif tail == "nested":
            body.extend([f"{ind2}def a():", f"{ind2}    c = 3", f"{ind2}class B:", f"{ind2}    x = 4", f"{ind2}import os"])
        elif tail == "selfattr":  # only __init__ of a class creates instance attributes
            body.extend([f"{ind2}self.a = 1", f"{ind2}self.b: int = 2", f'{ind2}"""not an attribute docstring"""', f"{ind2}self.__all__ = ['a']"])
        elif tail == "nested_init":  # a function called __init__ that is not a method of a class
            body.extend([f"{ind2}def __init__(self):", f"{ind2}    self.a = 1", f"{ind2}    self.c: int = 2", f"{ind2}return __init__"])
        elif tail == "nested_ovl":
            self.need("import typing")
            body.extend([f"{ind2}@typing.overload", f"{ind2}def a(q): ...", f"{ind2}def a(q):", f"{ind2}    return q"])
        elif tail == "inline":
            body.append(f"{ind2}...")
        elif tail in ("pass", "...", "return 1"):
            if tail != "pass" or not body:
                body.append(f"{ind2}{tail}")
        if not body:
            body.append(f"{ind2}pass")
        return out + header + body

    def iblock(self, stmts: list, ind: str, empty_ok: bool = False) -> list[str]:
        out: list[str] = []
        for s in stmts:
            out.extend(self.istmt(s, ind))
        if not out and not empty_ok:
            out.append(f"{ind}pass")
        return out

    def istmt(self, s: dict, ind: str) -> list[str]:
        k = s["k"]
        if k == "sassign":
            return self.value("".join(f"self.{a} = " for a in s["attrs"]), s["value"], ind)
        if k == "sann":
            head = f"self.{s['attr']}: {ANNS[s['ann']]}"
            if s["value"] is None:
                return [f"{ind}{head}"]
            return self.value(head + " = ", s["value"], ind)
        if k == "local":
            return [f"{ind}{s['attrs'][0]} = 1"]
        if k == "sdeep":
            return [f"{ind}self.{s['attrs'][0]}.{s['attrs'][1]} = 1"]
        if k == "other":
            return [f"{ind}other.{s['attrs'][0]} = 1"]
        if k == "stuple":
            return [f"{ind}self.{s['attrs'][0]}, self.{s['attrs'][1]} = 1, 2"]
        if k == "sall":  # an instance attribute that happens to be called __all__: exports nothing
            return [f"{ind}self.__all__ = [{s['attrs'][0]!r}, {s['attrs'][1]!r}]"]
        if k == "str":
            return render_doc(s["doc"], ind)
        ind2 = ind + IND
        if k == "idef":
            a, b = s["attrs"]
            form = s["form"]
            if form == "def":
                return [f"{ind}def {a}(q):", f"{ind2}{b} = 1", f"{ind2}self.{b} = 2", f"{ind}def __init__(self2):", f"{ind2}self.{b} = 3", f"{ind2}self2.{a} = 3"]
            if form == "ovl":
                self.need("import typing")
                return [f"{ind}@typing.overload", f"{ind}def {a}(q): ...", f"{ind}def {a}(q):", f"{ind2}return q"]
            if form == "class":
                return [f"{ind}class {a}:", f"{ind2}{b} = 1", f"{ind2}def __init__(self):", f"{ind2}    self.{b} = 1"]
            if form == "import":
                return [f"{ind}import os as {a}", f"{ind}from pkg import {b}"]
            if form == "prop":
                return [f"{ind}@property", f"{ind}def {a}(self): ...", f"{ind}@{a}.setter", f"{ind}def {a}(self, v): ..."]
            if form == "decorated":
                self.need("import functools")
                self.need("import dataclasses")
                return [f"{ind}@functools.cache", f"{ind}def {a}(): ...", f"{ind}@dataclasses.dataclass", f"{ind}class {b}:", f"{ind2}x: int = 1"]
            raise ValueError(form)
        if k == "if":
            out = [f"{ind}if cond:"] + self.iblock(s["body"], ind2)
            if s["orelse"] is not None:
                out += [f"{ind}else:"] + self.iblock(s["orelse"], ind2)
            return out
        if k == "try":
            out = [f"{ind}try:"] + self.iblock(s["body"], ind2)
            for h in s["handlers"]:
                out += [f"{ind}except Exception:"] + self.iblock(h, ind2)
            if s["final"] is not None or not s["handlers"]:
                out += [f"{ind}finally:"] + self.iblock(s["final"] or [], ind2)
            return out
        if k == "for":
            return [f"{ind}for i in range(2):"] + self.iblock(s["body"], ind2)
        if k == "with":
            return [f"{ind}with ctx():"] + self.iblock(s["body"], ind2)
        raise ValueError(k)

    def all_items(self, items: list) -> str:
        return ", ".join(repr(i) for i in items)

    def stmt(self, s: dict, ind: str, scope: str) -> list[str]:
        k = s["k"]
        ind2 = ind + IND
        if k == "def":
            return self.deflines(s, ind, scope)
        if k == "ovl":
            d = "te_overload" if s["te"] else "overload"
            text, imp = _use_name(d, s["via"])
            self.need(imp)
            impl = dict(s["impl"])
            out: list[str] = []
            for _ in range(s["n"]):
                stub = dict(impl, decs=[], doc=None, tail=1)
                out.extend(self.deflines(stub, ind, scope, decs_extra=[f"{ind}@{text}"], force_stub=True))
            # the implementation never carries decorators that change its kind
            impl["decs"] = [d for d in impl["decs"] if d["d"] in FUNC_DECOS_ANY]
            out.extend(self.deflines(impl, ind, scope))
            return out
        if k == "prop":
            name = s["name"]
            out = []
            if s["getter"] != "plain":
                text, imp = _use_name(s["getter"], s["via"])
                self.need(imp)
                out.append(f"{ind}@{text}")
            out.append(f"{ind}def {name}(self):")
            if s["doc"]:
                out.extend(render_doc(s["doc"], ind2))
            out.append(f"{ind2}return 1")
            for part in s["parts"]:
                if part == "gap":
                    out.append(f"{ind}gap_{name} = 1")
                elif part == "setter":
                    out += [f"{ind}@{name}.setter", f"{ind}def {name}(self, value):", f"{ind2}self._v = value"]
                else:
                    out += [f"{ind}@{name}.deleter", f"{ind}def {name}(self): ..."]
            return out
        if k == "while":
            out = [f"{ind}while cond:"] + self.block(s["body"], ind2, scope)
            if s["orelse"] is not None:
                out += [f"{ind}else:"] + self.block(s["orelse"], ind2, scope)
            return out
        if k == "match":
            pats = ["1", "[p0, *p1]", "_"]
            out = [f"{ind}match subject:"]
            n = len(s["cases"])
            for i, c in enumerate(s["cases"]):
                pat = "_" if i == n - 1 and n > 1 else pats[i % 2]
                out += [f"{ind2}case {pat}:"] + self.block(c, ind2 + IND, scope)
            return out
        if k == "class":
            out = self.dec_lines(s["decs"], ind)
            bases = BASES[s["bases"]]
            if bases == "ML":
                out += [f"{ind}class {s['name']}(", f"{ind}    Base,", f"{ind}    Other,", f"{ind}):"]
            else:
                out.append(f"{ind}class {s['name']}{bases}:")
            body: list[str] = []
            if s["doc"]:
                body.extend(render_doc(s["doc"], ind2))
            for sub in s["body"]:
                body.extend(self.stmt(sub, ind2, "cls"))
            if not body:
                body.append(f"{ind2}pass")
            return out + body
        if k == "assign":
            return self.value("".join(f"{t} = " for t in s["targets"]), s["value"], ind)
        if k == "ann":
            head = f"{s['target']}: {ANNS[s['ann']]}"
            if s["value"] is None:
                return [f"{ind}{head}"]
            return self.value(head + " = ", s["value"], ind)
        if k == "import":
            return [f"{ind}import " + ", ".join(f"{m} as {a}" if a else m for m, a in s["names"])]
        if k == "from":
            mod = "." * s["level"] + s["module"]
            if s["names"] == "*":
                # `import *` is only legal at module level (any nesting of module-level blocks)
                return [f"{ind}from {mod} import *"] if scope == "mod" else [f"{ind}from {mod} import path"]
            items = [f"{n} as {a}" if a else n for n, a in s["names"]]
            if s["ml"]:
                return [f"{ind}from {mod} import ("] + [f"{ind}    {i}," for i in items] + [f"{ind})"]
            return [f"{ind}from {mod} import " + ", ".join(items)]
        if k == "all":
            items = s["items"]
            form = s["form"]
            if form == "list":
                return [f"{ind}__all__ = [{self.all_items(items)}]"]
            if form == "tuple":
                return [f"{ind}__all__ = ({self.all_items(items)}{',' if items else ''})"]
            if form == "set":
                return [f"{ind}__all__ = {{{self.all_items(items)}}}"] if items else [f"{ind}__all__ = []"]
            if form == "plus":
                return [f"{ind}__all__ = [{self.all_items(items[:1])}] + [{self.all_items(items[1:])}]"]
            if form == "ann":
                return [f"{ind}__all__: list[str] = [{self.all_items(items)}]"]
            if form == "splice":
                return [f"{ind}__all__ = [*other_mod.__all__, {self.all_items(items)}]"]
            if form == "plusname":
                return [f"{ind}__all__ = other_mod.__all__ + [{self.all_items(items)}]"]
            if form == "empty":
                return [f"{ind}__all__ = []"]
            if form == "ml":
                return [f"{ind}__all__ = ["] + [f"{ind}    {i!r}," for i in items] + [f"{ind}]"]
            raise ValueError(form)
        if k == "allaug":
            return [f"{ind}__all__ += [{self.all_items(s['items'])}]"]
        if k == "str":
            return render_doc(s["doc"], ind)
        if k == "expr":
            return [f"{ind}{EXPR_FORMS[s['form']]}"]
        if k == "unsup":
            n1, n2 = s["names"]
            form = s["form"]
            text = {
                "tuple": f"{n1}, {n2} = 1, 2",
                "list": f"[{n1}, {n2}] = 1, 2",
                "starred": f"{n1}, *{n2} = 1, 2, 3",
                "subscript": f"{n1}[0] = 1",
                "attr": f"{n1}.{n2} = 1",
                "attrmix": f"{n1} = {n2}.attr = 1",  # the Name target binds, the attribute target does not
                "walrus": f"({n1} := 1)",
                "aug": f"{n1} += 1",
                "call_attr": f"fn().{n1} = 1",
            }[form]
            return [f"{ind}{text}"]
        if k == "if":
            test = {"tc": "TYPE_CHECKING", "ttc": "typing.TYPE_CHECKING"}.get(s["test"])
            if test is None:
                test = CONDS[len(s["body"]) % len(CONDS)]
            if s["test"] == "tc":
                self.need("from typing import TYPE_CHECKING")
            elif s["test"] == "ttc":
                self.need("import typing")
            out = [f"{ind}if {test}:"] + self.block(s["body"], ind2, scope)
            for e in s["elifs"]:
                if s.get("eliftc"):
                    self.need("from typing import TYPE_CHECKING")
                    out += [f"{ind}elif TYPE_CHECKING:"] + self.block(e, ind2, scope)
                else:
                    out += [f"{ind}elif other_cond:"] + self.block(e, ind2, scope)
            if s["orelse"] is not None:
                out += [f"{ind}else:"] + self.block(s["orelse"], ind2, scope)
            return out
        if k == "try":
            out = [f"{ind}try:"] + self.block(s["body"], ind2, scope)
            for i, h in enumerate(s["handlers"]):
                out += [f"{ind}except ImportError:" if i == 0 else f"{ind}except (KeyError, ValueError) as err:"] + self.block(h, ind2, scope)
            if s["orelse"] is not None and s["handlers"]:
                out += [f"{ind}else:"] + self.block(s["orelse"], ind2, scope)
            if s["final"] is not None or not s["handlers"]:
                out += [f"{ind}finally:"] + self.block(s["final"] or [], ind2, scope)
            return out
        if k == "for":
            out = [f"{ind}for {s['var'] or 'i'} in range(2):"] + self.block(s["body"], ind2, scope)
            if s["orelse"] is not None:
                out += [f"{ind}else:"] + self.block(s["orelse"], ind2, scope)
            return out
        if k == "with":
            head = f"with ctx() as {s['var']}:" if s["var"] else "with ctx():"
            return [f"{ind}{head}"] + self.block(s["body"], ind2, scope)
        raise ValueError(k)


def render(case: dict) -> str:
    """Text of the module described by `case` (deterministic)."""
    r = _R(case)
    body: list[str] = []
    for s in case["body"]:
        body.extend(r.stmt(s, "", "mod"))
    head: list[str] = []
    if case["doc"]:
        head.extend(render_doc(case["doc"], ""))
    prelude = sorted(r.prelude)
    if prelude:
        if case.get("ptry"):
            head.append("try:")
            head.extend(IND + p for p in prelude)
            head.extend(["except ImportError:", IND + "pass"])
        else:
            head.extend(prelude)
    return "\n".join(head + body) + "\n"
