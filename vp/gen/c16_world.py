"""C16 — interpreter of member-mutation histories: a reference dictionary model next to the real Griffe tree.

A history is a JSON list of operations.  Every field that designates a place in the tree is a *ref*:

    list of names   literal path from the collection root (may be missing: then KeyError is the expected outcome)
    int             selector: index (modulo) into a deterministic enumeration of the current model
                    (containers / nodes / aliases / non-alias objects, depending on the field) — always valid,
                    shrinks towards 0, and is what the random search uses

Operations (lists, so that they stay small in replay files):

    ["set", api, form, cref, name, klen, val]   api: "set_member" | "setitem";  form: "str" | "tuple" | "list"
                                                cref: container ref; full path = container path + [name];
                                                the last `klen` parts are the key, the rest designates the object
                                                on which the API is called ([] = the ModulesCollection)
        val: ["module", fp, pk] | ["class", pk] | ["function", pk] | ["attribute", pk]
             | ["alias-path", tref, pk]   Alias(name, "dotted.path")    tref: node ref (int) or literal names
             | ["alias-obj", tref, pk]    Alias(name, target=<object in the tree>)
             | ["limbo", i]               re-insert the i-th most recently detached subtree (a *move*); its own name is used
           fp: None | "py" | "py2" | "pyi" | "pyi2" (module file path; different paths trigger the stub merge)
           pk: bool — construct the value with parent=<container> (as `Alias(..., parent=...)` allows) or without
    ["set-at", api, form, nref, klen, val]      replace the member at an existing place; nref: node ref (int) or
                                                {"t": n} = the node that the n-th resolved in-tree alias targets,
                                                {"kind": k, "n": n} = the n-th in-tree node of that kind
    ["del", api, form, nref, klen]              api: "del_member" | "delitem"; nref as above or literal names
    ["resolve", aref, how]                      how: "resolve_target" | "target" | "final_target"
    ["switch"]                                  there are two ModulesCollections; all places refer to the current one; a subtree
                                                detached from one (e.g. a deleted top-level module) can be re-inserted into the other
    ["retarget", aref, mode, oref]              mode: "obj" (alias.target = in-tree non-alias object) | "self"
                                                | "same-obj" | "same-alias" (a detached object/alias with the alias's own path)

The model is a plain dictionary tree (`Node.members`), written from the property text:
insertion puts the value under the key in the container, replacement detaches the old subtree, deletion removes
the key.  The only Griffe-specific behaviour mirrored in it is the stub merge on module replacement through
`set_member` (regular + `.pyi` module with different file paths), which is part of the anchored mechanism.
"""

from __future__ import annotations

from collections import Counter
from pathlib import Path

from vp.common.bootstrap import HarnessError
from vp.common.harness import Fail, GriffeRaised, call, exc_fail

NAMES = ("a", "b", "c", "d", "e")
FILEPATHS = {"py": "/x/{n}.py", "py2": "/y/{n}.py", "pyi": "/x/{n}.pyi", "pyi2": "/y/{n}.pyi"}
CONTAINERS = ("collection", "module", "class")
ALLOWED_IN = {
    "collection": ("module",),
    "module": ("module", "class", "function", "attribute", "alias"),
    "class": ("class", "function", "attribute", "alias"),
}

# slugs of known findings (generator steering switches)
K_STALE = "stale-alias-key-after-ancestor-move"
K_TOPLEVEL = "collection-insert-keeps-old-parent"
K_CLOBBER = "detached-alias-backref-clobbers-registration"
K_DEMOTED = "demoted-module-keeps-collection"
K_MERGE = "stub-merge-before-attach-misregisters-aliases"


class Skip(Exception):
    """The operation's precondition (input domain) does not hold in the current state: not executed, counted."""


class Node:
    __slots__ = ("attached", "dead", "fp", "id", "kind", "members", "name", "parent", "was_top")

    def __init__(self, id_: int, kind: str, name: str, fp=None):
        self.id = id_
        self.kind = kind
        self.name = name
        self.fp = fp
        self.members: dict[str, Node] = {}
        self.parent: Node | None = None  # model container (None: detached root or the collection itself)
        self.dead = False  # consumed by a stub merge: never re-inserted
        self.attached = -1  # (aliases) number of the step that last attached / re-targeted it
        self.was_top = False  # (modules) has been a top-level member of a collection at some time


class World:
    def __init__(self, known=frozenset(), on_excluded=None):
        import griffe

        self.g = griffe
        self.allowed_alias_errors = (griffe.AliasResolutionError, griffe.CyclicAliasError)
        self.mc = griffe.ModulesCollection()
        self.root = Node(0, "collection", "")
        # a second collection: ["switch"] makes it the current one; a top-level module deleted from one collection can be
        # re-inserted (as a detached subtree) into the other
        self.other_mc = griffe.ModulesCollection()
        self.other_root = Node(-1, "collection", "")
        self.real: dict[int, object] = {0: self.mc, -1: self.other_mc}
        self.node_of: dict[int, Node] = {}  # id(real object) -> node
        self.limbo: list[Node] = []
        self.aliases_ever: list[Node] = []
        self.next_id = 1
        self.trace: list = []  # concrete description of every executed step
        self.classes: Counter = Counter()
        self.nontrivial = False
        self.known = known
        self.on_excluded = on_excluded or (lambda slug: None)
        self.opdesc = ""  # coarse description of the current step (bucket key)
        self.opfull = ""
        self.moved_root: list[str] | None = None
        self.stepno = 0
        self.last_mutation = 0  # number of the last step that changed the tree or re-targeted an alias  # path at which the current step re-inserted a detached subtree

    # ------------------------------------------------------------------ model helpers
    def path_of(self, node: Node) -> list[str]:
        parts = []
        while node is not self.root:
            parts.append(node.name)
            node = node.parent
        return parts[::-1]

    def walk(self, start: Node | None = None):
        """(node, path) of every node below start (default: the collection), parents first, insertion order."""
        start = start or self.root
        base = self.path_of(start) if start is not self.root and self.in_tree(start) else []
        stack = [(n, [*base, n.name]) for n in reversed(list(start.members.values()))]
        while stack:
            node, path = stack.pop()
            yield node, path
            stack.extend((n, [*path, n.name]) for n in reversed(list(node.members.values())))

    def subtree(self, node: Node):
        yield node
        for n in node.members.values():
            yield from self.subtree(n)

    def in_tree(self, node: Node) -> bool:
        while node is not self.root:
            p = node.parent
            if p is None or p.members.get(node.name) is not node:
                return False
            node = p
        return True

    def lookup(self, path):
        """('ok', node) | ('missing', None) | ('via-alias', None) | ('via-leaf', None)."""
        node = self.root
        for i, part in enumerate(path):
            if node.kind == "alias":
                return "via-alias", None
            if node.kind not in CONTAINERS:
                return "via-leaf", None
            nxt = node.members.get(part)
            if nxt is None:
                # a longer path through something missing is simply missing
                return "missing", None
            node = nxt
        return "ok", node

    def containers(self):
        return [self.root] + [n for n, _ in self.walk() if n.kind in ("module", "class")]

    def nodes(self):
        return [n for n, _ in self.walk()]

    def tree_aliases(self):
        return [n for n, _ in self.walk() if n.kind == "alias"]

    def tree_objects(self):
        return [n for n, _ in self.walk() if n.kind != "alias"]

    # ------------------------------------------------------------------ value construction
    def _new_node(self, kind, name, fp=None) -> Node:
        node = Node(self.next_id, kind, name, fp)
        self.next_id += 1
        return node

    def _filepath(self, fp, name):
        return Path(FILEPATHS[fp].format(n=name)) if fp else None

    def _build(self, val, name, cont: Node | None):
        """-> (node, real, concrete_val). cont is the model container (None when the path is missing)."""
        g = self.g
        kind = val[0]
        parent_kw = {}
        pk = bool(val[-1]) if kind != "limbo" else False
        if pk and cont is not None and cont is not self.root:
            parent_kw = {"parent": self.real[cont.id]}
        if kind == "limbo":
            live = [n for n in self.limbo if not n.dead]
            if not live:
                raise Skip("no-limbo")
            node = live[-1 - (val[1] % len(live))]
            return node, self.real[node.id], ["limbo", node.name + "#" + str(node.id)]
        if kind in ("alias-path", "alias-obj"):
            tref = val[1]
            if isinstance(tref, int):
                cands = self.nodes() if kind == "alias-path" else [n for n in self.nodes()]
                if not cands:
                    if kind == "alias-obj":
                        raise Skip("no-target")
                    tpath = [NAMES[tref % len(NAMES)], NAMES[(tref // 5) % len(NAMES)]]
                    tnode = None
                else:
                    tnode = cands[tref % len(cands)]
                    tpath = self.path_of(tnode)
            else:
                tpath = list(tref)
                status, tnode = self.lookup(tpath)
                if kind == "alias-obj" and status != "ok":
                    raise Skip("alias-obj-target-missing")
                if not tpath:
                    raise Skip("empty-target")
            node = self._new_node("alias", name)
            if kind == "alias-path":
                real = call("op-raises", g.Alias, name, ".".join(tpath), what="Alias(name, path)", **parent_kw)
            else:
                if tnode is self.root:
                    raise Skip("alias-obj-target-collection")
                real = call("op-raises", g.Alias, name, target=self.real[tnode.id], what="Alias(name, target=object)", **parent_kw)
            self.aliases_ever.append(node)
            self.real[node.id] = real
            self.node_of[id(real)] = node
            return node, real, [kind, ".".join(tpath), pk]
        if kind == "module":
            node = self._new_node("module", name, val[1])
            real = call("op-raises", g.Module, name, filepath=self._filepath(val[1], name), what="Module(...)", **parent_kw)
            conc = ["module", val[1], pk]
        elif kind == "class":
            node = self._new_node("class", name)
            real = call("op-raises", g.Class, name, what="Class(...)", **parent_kw)
            conc = ["class", pk]
        elif kind == "function":
            node = self._new_node("function", name)
            real = call("op-raises", g.Function, name, what="Function(...)", **parent_kw)
            conc = ["function", pk]
        elif kind == "attribute":
            node = self._new_node("attribute", name)
            real = call("op-raises", g.Attribute, name, what="Attribute(...)", **parent_kw)
            conc = ["attribute", pk]
        else:
            raise ValueError(f"unknown value kind {kind!r}")
        self.real[node.id] = real
        self.node_of[id(real)] = node
        return node, real, conc

    @staticmethod
    def _key(form, key):
        if form == "str":
            return ".".join(key)
        if form == "tuple":
            return tuple(key)
        return list(key)

    def _split(self, full, klen):
        """(base_node, key_parts): the API is called on base with the last k parts as key."""
        k = ((max(1, klen) - 1) % len(full)) + 1
        while True:
            status, base = self.lookup(full[:-k])
            if status == "ok" and base.kind in CONTAINERS:
                return base, full[-k:]
            k += 1  # terminates: k == len(full) gives the collection

    # ------------------------------------------------------------------ operations
    def step(self, op, check: bool = True) -> list[Fail]:
        """Execute one operation against Griffe and the model, then (check=True) check every invariant."""
        kind = op[0]
        self.opdesc = self.opfull = kind
        self.moved_root = None
        self.stepno += 1
        try:
            if kind == "set":
                fails = self._op_set(*op[1:])
            elif kind == "set-at":
                fails = self._op_set_at(*op[1:])
            elif kind == "del":
                fails = self._op_del(*op[1:])
            elif kind == "resolve":
                fails = self._op_resolve(*op[1:])
            elif kind == "retarget":
                fails = self._op_retarget(*op[1:])
            elif kind == "switch":
                self.mc, self.other_mc = self.other_mc, self.mc
                self.root, self.other_root = self.other_root, self.root
                self.trace.append(["switch", "current collection is now #" + str(-self.root.id)])
                self.classes["switch-collection"] += 1
                fails = []
            else:
                raise ValueError(f"unknown operation {op!r}")
        except Skip as skip:
            self.classes["skipped:" + str(skip)] += 1
            self.trace.append(["skip", str(skip), op])
            return []
        except GriffeRaised as gr:
            f = gr.fail
            f.kind = f"{self.opdesc}:{f.kind}"
            return [f]
        except (HarnessError, AssertionError):
            raise
        except Exception as exc:  # noqa: BLE001  (Griffe frames in the traceback -> Fail, else HarnessError)
            f = exc_fail("op-raises", exc, self.opfull)
            f.kind = f"{self.opdesc}:{f.kind}"
            return [f]
        if not fails and check:
            try:
                fails = self.check_invariants()
            except GriffeRaised as gr:
                f = gr.fail
                f.kind = f"{self.opdesc}:{f.kind}"
                return [f]
            except (HarnessError, AssertionError):
                raise
            except Exception as exc:  # noqa: BLE001
                f = exc_fail("op-raises", exc, "invariant check after " + self.opfull)
                f.kind = f"{self.opdesc}:{f.kind}"
                return [f]
        for f in fails:
            f.message = f"after step {len(self.trace)} {self.trace[-1]} [{self.opfull}]: {f.message}"
        return fails

    # -- set
    def _op_set(self, api, form, cref, name, klen, val) -> list[Fail]:
        if isinstance(cref, int):
            conts = self.containers()
            cont = conts[cref % len(conts)]
            cpath = self.path_of(cont)
            status = "ok"
        else:
            cpath = list(cref)
            status, cont = self.lookup(cpath)
            if status in ("via-alias", "via-leaf"):
                raise Skip("set-" + status)
            if status == "ok" and cont.kind not in CONTAINERS:
                raise Skip("set-into-" + ("alias" if cont.kind == "alias" else "leaf"))
        vkind = val[0]
        if status == "ok":
            # coerce the value kind to what the container may hold (input domain: modules hold anything,
            # classes hold no modules, the collection holds modules only)
            if vkind != "limbo":
                vk = "alias" if vkind.startswith("alias") else vkind
                if vk not in ALLOWED_IN[cont.kind]:
                    val = ["module", None, val[-1]] if cont.kind == "collection" else ["class", val[-1]]
            node, real, conc = self._build(val, name, cont)
            if vkind == "limbo":
                name = node.name
                if node.kind not in ALLOWED_IN[cont.kind]:
                    raise Skip("limbo-kind-not-allowed-in-" + cont.kind)
                self._steer_limbo(node, cont)
        else:
            if vkind == "limbo":
                raise Skip("limbo-into-missing")
            node, real, conc = self._build(val, name, None)
        full = [*cpath, name]
        base, key = self._split(full, klen)
        base_real = self.real[base.id]
        k = self._key(form, key)
        record = ["set", api, form, ".".join(self.path_of(base)) or "<collection>", ".".join(key), conc]
        self.opdesc = f"{api}:{conc[0]}" + ("@collection" if status == "ok" and cont is self.root else "")
        self.opfull = self.opdesc

        if status != "ok":
            self.classes["set:missing-path"] += 1
            self.trace.append([*record, "expect KeyError"])
            return self._expect_keyerror(api, base_real, k, real)

        old = cont.members.get(name)
        followers = []
        merged = None  # (module_node, stubs_node)
        if old is not None:
            self.opfull += ">" + old.kind
            if old is node:
                raise Skip("reinsert-in-place")
            old_real = self.real[old.id]
            if api == "set_member" and old.kind != "alias":
                # aliases (in the tree) that point at the object being replaced
                for a in self.tree_aliases():
                    ar = self.real[a.id]
                    if ar.resolved and ar.target is old_real:
                        followers.append(ar)
                if followers:
                    self.opfull += "+followers"
                self._steer_clobber(old_real, real, followers)
                if old.kind == "module" and old.fp:
                    merged = self._merge_plan(old, node, real)
            if any(self._targets_into(old)):
                self.nontrivial = True
                self.classes["replace-affecting-alias-target"] += 1
            self.classes[f"replace:{api}"] += 1
        if vkind == "limbo":
            self.classes["set:limbo(move)"] += 1
            self.moved_root = full
        self.trace.append(record)
        # frame condition: which resolved in-tree aliases may this replacement re-target?  Only those that point at the
        # replaced object (set_member) — plus, on the pinned tree, aliases still *listed* in the replaced object's
        # `aliases` although they were re-targeted elsewhere (stale entries: observed, not asserted).  Replacing an
        # alias, or replacing through __setitem__, re-targets nothing.
        frame = None
        if old is not None:
            allowed = {id(a) for a in followers} | {id(real)}
            if api == "set_member" and old.kind != "alias":
                allowed |= {id(a) for a in list(old_real.aliases.values())}
            frame = [(ar, ar.target) for ar in (self.real[a.id] for a in self.tree_aliases()) if ar.resolved and id(ar) not in allowed]

        if api == "set_member":
            call("op-raises", base_real.set_member, k, real, what=f"set_member({k!r}, {conc})")
        else:
            call("op-raises", base_real.__setitem__, k, real, what=f"__setitem__({k!r}, {conc})")

        # ---- model update
        self.last_mutation = self.stepno
        if node.kind == "alias":
            node.attached = self.stepno
        if followers:
            by_real = {id(self.real[a.id]): a for a in self.aliases_ever}
            for fr in followers:
                if id(fr) in by_real:
                    by_real[id(fr)].attached = self.stepno
        if vkind == "limbo":
            self.limbo.remove(node)
        final = node
        if old is not None:
            if merged is not None:
                module, stubs = merged
                self.classes["replace:stub-merge"] += 1
                self._merge_model(module, stubs)
                stubs.dead = True
                final = module
                if stubs is old:
                    self._detach(old, revivable=False)
                # stubs is the new value: it never enters the tree
            else:
                self._detach(old)
        if final is not old:
            cont.members[name] = final
            final.parent = cont
        if cont is self.root:
            final.was_top = True
        self.classes[f"set:{api}:{form}:{len(key)}"] += 1
        self.classes[f"set:{final.kind}@{cont.kind}"] += 1

        # ---- clause: aliases that pointed at the replaced object follow the replacement
        fails = []
        final_real = self.real[final.id]
        for ar, before in frame or ():
            self.classes["untouched-aliases-checked"] += 1
            if not ar.resolved or ar.target is not before:
                fails.append(
                    Fail(
                        "untouched-alias-keeps-target",
                        self.opdesc,
                        f"alias {ar.path!r} pointed at {getattr(before, 'path', before)!r}, which was not replaced; after replacing "
                        f"{'.'.join(full)!r} ({old.kind}) it targets {(ar.target_path if ar.resolved else None)!r}",
                    )
                )
                break
        for ar in followers:
            self.classes["followers-checked"] += 1
            if ar is final_real:
                continue  # an alias cannot follow onto itself (self-reference guard wins)
            if not (ar.resolved and ar.target is final_real):
                fails.append(
                    Fail(
                        "aliases-follow-replacement",
                        self.opdesc,
                        f"alias {ar.path!r} pointed at the replaced object but now targets "
                        f"{(ar.target_path if ar.resolved else None)!r} ({type(ar.target).__name__ if ar.resolved else 'unresolved'}) "
                        f"instead of the replacement at {'.'.join(full)!r}",
                    )
                )
        return fails

    def _targets_into(self, node: Node):
        """In-tree aliases whose (immediate) target lies in the subtree of node."""
        reals = {id(self.real[n.id]) for n in self.subtree(node)}
        for a in self.tree_aliases():
            ar = self.real[a.id]
            if ar.resolved and id(ar.target) in reals:
                yield a

    def _detach(self, node: Node, revivable: bool = True) -> None:
        parent = node.parent
        if parent is not None and parent.members.get(node.name) is node:
            del parent.members[node.name]
        node.parent = None
        if revivable and not node.dead:
            self.limbo.append(node)

    def _merge_plan(self, old: Node, new: Node, new_real):
        """Does set_member merge old and new as regular + stubs module? -> (module, stubs) or None."""
        if new.kind == "alias":
            # replacing a module that has a file path by an alias that resolves to another module with a file
            # path would run the stub merge *through the alias*; outside the generated domain
            if new_real.parent is None:
                return None
            try:
                ft = new_real.final_target
            except self.allowed_alias_errors:
                return None
            if ft.is_module and ft._filepath is not None and ft._filepath != self._filepath(old.fp, old.name):
                raise Skip("alias-would-merge-as-stubs")
            return None
        if new.kind != "module" or not new.fp:
            return None
        if self._filepath(old.fp, old.name) == self._filepath(new.fp, new.name):
            return None
        if old.fp.startswith("pyi"):
            if K_MERGE in self.known and new_real.parent is None and any(
                n.kind == "alias" and self.real[n.id].resolved for n in self.subtree(old)
            ):
                # the stubs' members are moved into the new module *before* it is attached (its path is still its bare
                # name): resolved aliases among them register themselves under that wrong path, possibly over the
                # entry of another alias
                self.on_excluded(K_MERGE)
                raise Skip("known:" + K_MERGE)
            return new, old
        if new.fp.startswith("pyi"):
            return old, new
        return None

    def _merge_model(self, module: Node, stubs: Node) -> None:
        for name, sm in list(stubs.members.items()):
            om = module.members.get(name)
            if om is None:
                module.members[name] = sm
                sm.parent = module
            elif sm.kind == "alias" or om.kind == "alias":
                continue
            elif om.kind == sm.kind and om.kind in ("module", "class"):
                self._merge_model(om, sm)
        for n in self.subtree(stubs):
            n.dead = True
        # what moved into the module is alive again
        for n in self.subtree(module):
            n.dead = False
        stubs.dead = True

    # -- steering away from known findings (only while they are listed)
    def _steer_limbo(self, node: Node, cont: Node) -> None:
        if K_STALE in self.known:
            for n in self.subtree(node):
                if n is not node and n.kind == "alias" and self.real[n.id].resolved:
                    self.on_excluded(K_STALE)
                    raise Skip("known:" + K_STALE)
        if K_DEMOTED in self.known:
            # a module that has been top-level keeps its own `_modules_collection`; below another module it only
            # matters once the tree lives in another collection
            for n in self.subtree(node):
                if n.kind == "module" and n.was_top and not (n is node and cont is self.root):
                    own = getattr(self.real[n.id], "_modules_collection", None)
                    if own is not None and own is not self.mc:
                        self.on_excluded(K_DEMOTED)
                        raise Skip("known:" + K_DEMOTED)
        if K_TOPLEVEL in self.known and cont is self.root and self.real[node.id].parent is not None:
            self.on_excluded(K_TOPLEVEL)
            raise Skip("known:" + K_TOPLEVEL)

    def _steer_clobber(self, old_real, new_real, followers) -> None:
        """Known finding: back-references of detached aliases stay in `old.aliases`; set_member re-targets them too and
        registers them with the new value under their old path — possibly over the entry of a live alias."""
        if K_CLOBBER not in self.known:
            return
        live = {id(a) for a in followers}
        # wrapper aliases created by Alias.members (parent is an alias) register themselves too; their paths go
        # through an alias, where no tree member can sit, so they cannot overwrite a live entry
        stale = [
            a for a in list(old_real.aliases.values())
            if id(a) not in live and not (a.parent is not None and a.parent.is_alias)
        ]
        if not stale:
            return
        if new_real.is_alias:
            # the registry the stale aliases would be written to is the one of the alias's final target, which is
            # not known before the alias is attached: keep away from the whole shape
            self.on_excluded(K_CLOBBER)
            raise Skip("known:" + K_CLOBBER)
        registry = new_real.aliases
        for a in stale:
            try:
                key = a.path
            except AttributeError:
                continue
            if key in registry and registry[key] is not a:
                self.on_excluded(K_CLOBBER)
                raise Skip("known:" + K_CLOBBER)

    def _expect_keyerror(self, api, base_real, k, real=None) -> list[Fail]:
        fn = {
            "set_member": lambda: base_real.set_member(k, real),
            "setitem": lambda: base_real.__setitem__(k, real),
            "del_member": lambda: base_real.del_member(k),
            "delitem": lambda: base_real.__delitem__(k),
        }[api]
        # KeyError is what a dictionary does.  The property does not state which exception a mutation of a missing
        # path raises, so AttributeError (what `del collection["missing"]` raises: ModulesCollection has no
        # `inherited_members`) is tolerated and only counted; silently succeeding is not.
        try:
            call("op-raises", fn, what=f"{api}({k!r}) on a missing path", allowed=(KeyError, AttributeError))
        except (KeyError, AttributeError) as exc:
            self.classes[f"missing-path:{type(exc).__name__}"] += 1
            return []
        return [Fail("missing-path", f"{api}:no-error", f"{api}({k!r}) on a path that does not exist did not raise")]

    def _node_ref(self, nref):
        """int -> n-th in-tree node; {"t": n} -> the in-tree node that the n-th in-tree alias currently targets."""
        if isinstance(nref, dict) and "kind" in nref:
            cands = [n for n in self.nodes() if n.kind == nref["kind"]]
            if not cands:
                raise Skip("no-" + nref["kind"])
            return cands[nref["n"] % len(cands)]
        if isinstance(nref, dict):
            als = [a for a in self.tree_aliases() if self.real[a.id].resolved]
            if not als:
                raise Skip("no-resolved-alias")
            target = self.real[als[nref["t"] % len(als)].id].target
            for n in self.nodes():
                if self.real[n.id] is target:
                    return n
            raise Skip("alias-target-not-in-tree")
        nodes = self.nodes()
        if not nodes:
            raise Skip("no-node")
        return nodes[nref % len(nodes)]

    # -- set-at: replace the member at an existing place
    def _op_set_at(self, api, form, nref, klen, val) -> list[Fail]:
        node = self._node_ref(nref)
        return self._op_set(api, form, self.path_of(node.parent), node.name, klen, val)

    # -- del
    def _op_del(self, api, form, nref, klen) -> list[Fail]:
        if isinstance(nref, (int, dict)):
            node = self._node_ref(nref)
            full = self.path_of(node)
            status = "ok"
        else:
            full = list(nref)
            if not full:
                raise Skip("empty-path")
            status, node = self.lookup(full)
            if status == "via-alias":
                raise Skip("del-via-alias")
        base, key = self._split(full, klen)
        base_real = self.real[base.id]
        k = self._key(form, key)
        record = ["del", api, form, ".".join(self.path_of(base)) or "<collection>", ".".join(key)]
        self.opdesc = api
        if status != "ok":
            self.classes["del:missing-path"] += 1
            self.trace.append([*record, "expect KeyError"])
            return self._expect_keyerror(api, base_real, k)
        self.opdesc += ":" + node.kind
        if any(self._targets_into(node)):
            self.nontrivial = True
            self.classes["delete-affecting-alias-target"] += 1
        self.trace.append(record)
        if api == "del_member":
            call("op-raises", base_real.del_member, k, what=f"del_member({k!r})")
        else:
            call("op-raises", base_real.__delitem__, k, what=f"__delitem__({k!r})")
        self._detach(node)
        self.last_mutation = self.stepno
        self.classes[f"del:{api}:{form}:{len(key)}"] += 1
        # ---- clause: deleted members are gone (every key form, both lookup APIs, from every ancestor)
        fails = []
        if self.lookup(full)[0] == "ok":  # cannot happen in a dictionary
            raise AssertionError("model still holds a deleted path")
        for i in range(len(full)):
            anc = self.real[self.lookup(full[:i])[1].id]
            rel = full[i:]
            for keyform in (".".join(rel), tuple(rel)):
                for getter in ("get_member", "__getitem__"):
                    try:
                        call("op-raises", getattr(anc, getter), keyform, what=f"{getter}({keyform!r}) after deletion", allowed=(KeyError,))
                    except KeyError:
                        continue
                    fails.append(Fail("deleted-gone", self.opdesc, f"{getter}({keyform!r}) still finds the member deleted at {'.'.join(full)!r}"))
        return fails

    # -- resolve
    def _pick_alias(self, aref) -> Node:
        if isinstance(aref, int):
            als = self.tree_aliases()
            if not als:
                raise Skip("no-alias")
            return als[aref % len(als)]
        status, node = self.lookup(list(aref))
        if status != "ok" or node.kind != "alias":
            raise Skip("not-an-alias")
        return node

    def _op_resolve(self, aref, how) -> list[Fail]:
        node = self._pick_alias(aref)
        ar = self.real[node.id]
        self.opdesc = how
        apath = ".".join(self.path_of(node))
        again = how == "resolve_target" and ar.resolved
        self.trace.append(["resolve", apath, how, "-> " + ar.target_path])
        try:
            if how == "target":
                call("op-raises", lambda: ar.target, what="alias.target", allowed=self.allowed_alias_errors)
            elif how == "final_target":
                call("op-raises", lambda: ar.final_target, what="alias.final_target", allowed=self.allowed_alias_errors)
            else:
                call("op-raises", ar.resolve_target, what="alias.resolve_target()", allowed=self.allowed_alias_errors)
            self.classes["resolve:ok"] += 1
            if again:
                # resolve_target() on a resolved alias looks the path up again: it can re-target the alias
                node.attached = self.last_mutation = self.stepno
        except self.allowed_alias_errors as exc:
            self.classes["resolve:" + type(exc).__name__] += 1
            if again:
                self.last_mutation = self.stepno  # the state of the chain after a failed re-resolution is not specified
        return []

    # -- retarget
    def _op_retarget(self, aref, mode, oref) -> list[Fail]:
        g = self.g
        node = self._pick_alias(aref)
        ar = self.real[node.id]
        before = ar.target if ar.resolved else None
        apath = ".".join(self.path_of(node))
        self.opdesc = "retarget:" + mode
        if mode == "obj":
            if isinstance(oref, int):
                objs = self.tree_objects()
                if not objs:
                    raise Skip("no-object")
                tnode = objs[oref % len(objs)]
            else:
                status, tnode = self.lookup(list(oref))
                if status != "ok" or tnode.kind == "alias" or tnode is self.root:
                    raise Skip("retarget-not-an-object")
            treal = self.real[tnode.id]
            tpath = ".".join(self.path_of(tnode))
            self.trace.append(["retarget", apath, "obj", tpath])
            call("op-raises", setattr, ar, "target", treal, what=f"alias.target = <{tpath}>")
            node.attached = self.last_mutation = self.stepno
            self.classes["retarget:obj"] += 1
            if not (ar.resolved and ar.target is treal and ar.target_path == tpath):
                return [Fail("retarget", "obj", f"alias {apath!r}: target assignment to {tpath!r} did not take (target_path={ar.target_path!r})")]
            return []
        # the three ways of making an alias target itself
        parent_real = self.real[node.parent.id]
        if mode == "self":
            value = ar
        elif mode == "same-obj":
            value = call("op-raises", g.Function, node.name, parent=parent_real, what="Function(name, parent=...)")
        elif mode == "same-alias":
            value = call("op-raises", g.Alias, node.name, "z.z", parent=parent_real, what="Alias(name, path, parent=...)")
        else:
            raise ValueError(mode)
        self.trace.append(["retarget", apath, mode])
        self.classes["retarget:" + mode] += 1
        try:
            call("op-raises", setattr, ar, "target", value, what=f"alias.target = <{mode}>", allowed=(g.CyclicAliasError,))
        except g.CyclicAliasError:
            after = ar.target if ar.resolved else None
            if after is not before:
                return [Fail("no-self-target", mode + ":target-changed", f"alias {apath!r}: rejected self-assignment changed the target")]
            return []
        return [Fail("no-self-target", mode + ":accepted", f"alias {apath!r}: assigning {mode} as target did not raise CyclicAliasError")]

    # ------------------------------------------------------------------ invariants
    def check_invariants(self) -> list[Fail]:
        fails = self._check_current_collection()
        if not fails and self.other_root.members:
            self.mc, self.other_mc = self.other_mc, self.mc
            self.root, self.other_root = self.other_root, self.root
            try:
                fails = self._check_current_collection()
                for f in fails:
                    f.message = "[in the other collection] " + f.message
            finally:
                self.mc, self.other_mc = self.other_mc, self.mc
                self.root, self.other_root = self.other_root, self.root
        return fails

    def _check_current_collection(self) -> list[Fail]:
        fails: list[Fail] = []
        mc = self.mc
        desc = self.opdesc

        def fail(clause, msg, **detail):
            if detail and self.moved_root is not None:
                detail["moved_root"] = ".".join(self.moved_root)
            fails.append(Fail(clause, desc, msg, detail or None))

        # member sets, identity and parent at every level
        stack = [(self.root, [])]
        in_tree: list[tuple[Node, list[str]]] = []
        while stack:
            cont, cpath = stack.pop()
            creal = self.real[cont.id]
            where = ".".join(cpath) or "<collection>"
            got = call("op-raises", lambda c=creal: dict(c.members), what=f"members of {where}")
            if set(got) != set(cont.members):
                clause = "deleted-gone" if set(got) - set(cont.members) else "members"
                fail(clause, f"members of {where}: expected {sorted(cont.members)}, got {sorted(got)}")
                continue
            for name, node in cont.members.items():
                real = self.real[node.id]
                path = [*cpath, name]
                if got[name] is not real:
                    fail("members", f"{'.'.join(path)}: member is {got[name]!r}, expected the inserted {real!r}")
                    continue
                if cont is self.root:
                    if call("op-raises", lambda r=real: r.modules_collection, what="modules_collection") is not mc:
                        fail("parent", f"top-level module {name!r}: modules_collection is not the collection it was inserted in")
                elif real.parent is not creal:
                    fail("parent", f"{'.'.join(path)}: parent is {real.parent!r}, container is {creal!r}")
                elif call("op-raises", lambda r=real: r.modules_collection, what="modules_collection") is not mc:
                    holder = real
                    while getattr(holder, "_modules_collection", None) is None and holder.parent is not None:
                        holder = holder.parent
                    hnode = self.node_of.get(id(holder))
                    fail(
                        "collection",
                        f"{'.'.join(path)} is reachable from one collection but reports another one as its modules_collection "
                        f"(the stale reference is held by {getattr(holder, 'path', holder)!r})",
                        at=".".join(path), holder_kind=getattr(hnode, "kind", None), holder_was_top=bool(hnode and hnode.was_top),
                        holder_is_top=bool(hnode and hnode.parent is self.root),
                    )
                in_tree.append((node, path))
                if node.kind in ("module", "class"):
                    stack.append((node, path))
        if fails:
            return fails

        for node, path in in_tree:
            real = self.real[node.id]
            dotted = ".".join(path)
            # retrievable from the collection by its own path
            own = call("op-raises", lambda r=real: r.path, what=f"path of the object at {dotted}")
            try:
                found = call("op-raises", mc.get_member, own, what=f"collection.get_member({own!r})", allowed=(KeyError,))
            except KeyError:
                found = None
            if found is not real:
                fail("retrievable", f"object inserted at {dotted!r} has path {own!r}; collection.get_member(path) gives {found!r}", at=dotted, path=own)
                continue
            # dotted == tuple == chained, get_member and [], from every ancestor
            for i in range(len(path)):
                rel = path[i:]
                if len(rel) < 2 and i > 0:
                    continue
                anc = self.real[in_tree_lookup(self, path[:i]).id]
                results = {}
                for getter in ("get_member", "__getitem__"):
                    fn = getattr(anc, getter)
                    results[f"{getter}(dotted)"] = self._try(fn, ".".join(rel))
                    results[f"{getter}(tuple)"] = self._try(fn, tuple(rel))
                    cur = anc
                    for part in rel:
                        cur = self._try(getattr(cur, getter), part)
                        if isinstance(cur, str):
                            break
                    results[f"{getter}(chained)"] = cur
                bad = {k: v for k, v in results.items() if v is not real}
                if bad:
                    fail("lookup-forms", f"lookups of {'.'.join(rel)!r} from {'.'.join(path[:i]) or '<collection>'} disagree: {bad!r} vs the member {real!r}")
                    break

        self._check_lookups_through_aliases(in_tree, fail)
        if fails:
            return fails

        # alias registry and self-target
        n_direct = n_chain = n_open = n_stale = 0
        for node, path in in_tree:
            if node.kind != "alias":
                continue
            ar = self.real[node.id]
            if not ar.resolved:
                continue
            target = ar.target
            chain = False
            if target.is_alias:
                # `aliases` of an alias is a proxy to the registry of its final target.  The links are followed without
                # triggering any resolution; a chain with an unresolved link (or a ring) has no final target yet.
                # This mirrors Alias.final_target (which detects rings by *path*: a live alias and a detached one can
                # share a path, and then `aliases` of the chain raises CyclicAliasError: nothing to look into).
                chain = True
                cur, seen_paths, links = ar, set(), []
                while cur.is_alias and cur.resolved and cur.path not in seen_paths:
                    seen_paths.add(cur.path)
                    links.append(cur.path)
                    cur = cur.target
                if cur.is_alias:
                    n_open += 1
                    continue
                if node.attached != self.last_mutation:
                    # An outer alias is registered with the final target its chain has when it is attached or
                    # re-targeted; nothing re-registers it when a link of the chain is re-targeted, moved, detached
                    # or replaced afterwards.  The clause is asserted while the chain is as it was at that moment:
                    # the alias was attached / re-targeted by the latest mutating step (links may have been *resolved*
                    # since: that does not change where the chain ends).
                    n_stale += 1
                    continue
                target = cur
                n_chain += 1
            else:
                n_direct += 1
            try:
                foreign = target.modules_collection is not mc
            except ValueError:
                foreign = False
            if foreign:
                # the target lives in the other collection: `aliases` is keyed by path, and paths are only unique
                # within one collection (an alias of the other collection with the same path shares the key)
                self.classes["registry-skipped:target-in-other-collection"] += 1
                continue
            own = ar.path
            if target.aliases.get(own) is not ar:
                keys = [k for k, v in target.aliases.items() if v is ar]
                occupant = target.aliases.get(own)
                tree_reals = {id(self.real[n.id]) for n, _ in in_tree}
                if occupant is not None and id(occupant) not in tree_reals and any(
                    self.real[n.id] is occupant for top in self.other_root.members.values() for n in self.subtree(top)
                ):
                    # the key is held by a live alias of the *other* collection that has the same path
                    self.classes["registry-skipped:key-shared-with-other-collection"] += 1
                    continue
                occupant_detached = occupant is not None and id(occupant) not in tree_reals
                occupant_path = None
                if occupant is not None and not occupant_detached:
                    occupant_path = occupant.path
                fail(
                    "alias-registered",
                    f"resolved alias {own!r} -> {ar.target_path!r}" + (f" (alias chain ending at {target.path!r})" if chain else "")
                    + f": target.aliases[{own!r}] is {target.aliases.get(own)!r}; the alias is registered under {keys!r}",
                    alias=own, keys=keys, occupant_detached=occupant_detached, occupant_path=occupant_path, chain=chain, op=self.opfull,
                    links=links if chain else None,
                )
        if n_direct:
            self.classes["registry-checked"] += n_direct
        if n_chain:
            self.classes["registry-checked:alias-chain"] += n_chain
        if n_open:
            self.classes["registry-skipped:chain-with-unresolved-link"] += n_open
        if n_stale:
            self.classes["registry-skipped:chain-mutated-after-attach"] += n_stale
        for node in self.aliases_ever:
            ar = self.real[node.id]
            if ar.resolved and ar.target is ar:
                fail("no-self-target", f"alias {node.name!r} targets itself")
        return fails

    def _check_lookups_through_aliases(self, in_tree, fail) -> None:
        """The read side of paths that go through an alias: for every in-tree alias whose chain is completely resolved
        and ends at a module or class F, every member name of F is looked up through the alias path (dotted, tuple,
        chained; get_member and []; from the collection and from every ancestor).  Each lookup must give a wrapper alias
        whose target is the object *currently* stored in F.members under that name; a name that F does not hold (any
        more) raises KeyError.  Links are followed by identity: nothing is resolved by the check."""
        n_checked = 0
        for node, path in in_tree:
            if node.kind != "alias":
                continue
            ar = self.real[node.id]
            cur, seen_paths = ar, set()
            while cur.is_alias and cur.resolved and cur.path not in seen_paths:
                seen_paths.add(cur.path)
                cur = cur.target
            if cur.is_alias or not (cur.is_module or cur.is_class):
                continue
            final = cur
            current = dict(final.members)
            apath = ".".join(path)
            for name, expected in current.items():
                n_checked += 1
                for i in range(len(path)):
                    anc = self.real[in_tree_lookup(self, path[:i]).id]
                    rel = [*path[i:], name]
                    results = {}
                    for getter in ("get_member", "__getitem__"):
                        fn = getattr(anc, getter)
                        results[f"{getter}(dotted)"] = self._try_alias(fn, ".".join(rel))
                        results[f"{getter}(tuple)"] = self._try_alias(fn, tuple(rel))
                        cur = anc
                        for part in rel:
                            cur = self._try_alias(getattr(cur, getter), part)
                            if isinstance(cur, str):
                                break
                        results[f"{getter}(chained)"] = cur
                    bad = {
                        k: (v if isinstance(v, str) else f"{v!r} -> {getattr(v, 'target', None)!r} (id {id(getattr(v, 'target', None)):#x})")
                        for k, v in results.items()
                        if isinstance(v, str) or not getattr(v, "is_alias", False) or not v.resolved or v.target is not expected
                    }
                    if bad:
                        fail(
                            "lookup-through-alias",
                            f"alias {apath!r} ends at {final.path!r}, which holds {expected!r} (id {id(expected):#x}) under {name!r}; "
                            f"lookups of {'.'.join(rel)!r} from {'.'.join(path[:i]) or '<collection>'} do not reach it: {bad!r}",
                        )
                        return
            # names the target does not hold are not found through the alias either
            for name in NAMES:
                if name in current:
                    continue
                for key in (f"{apath}.{name}", (*path, name)):
                    for getter in ("get_member", "__getitem__"):
                        got = self._try_alias(getattr(self.mc, getter), key)
                        if not (isinstance(got, str) and got.startswith("KeyError")):
                            fail("deleted-gone", f"{getter}({key!r}): {final.path!r} holds no member {name!r}, but the lookup through alias {apath!r} gives {got!r}")
                            return
        if n_checked:
            self.classes["lookups-through-alias-checked"] += n_checked

    def _try_alias(self, fn, key):
        try:
            return call("op-raises", fn, key, what=f"{getattr(fn, '__name__', fn)}({key!r})", allowed=(KeyError, *self.allowed_alias_errors))
        except KeyError as exc:
            return f"KeyError({exc})"
        except self.allowed_alias_errors as exc:
            return f"{type(exc).__name__}"

    @staticmethod
    def _try(fn, key):
        try:
            return call("op-raises", fn, key, what=f"{getattr(fn, '__name__', fn)}({key!r})", allowed=(KeyError,))
        except KeyError as exc:
            return f"KeyError({exc})"


def in_tree_lookup(world: World, path) -> Node:
    status, node = world.lookup(path)
    assert status == "ok", (status, path)
    return node


def run_history(ops, known=frozenset(), on_excluded=None):
    """Execute a history. -> (fails, world). Stops at the first step whose checks fail."""
    world = World(known, on_excluded)
    for op in ops:
        fails = world.step(op)
        if fails:
            return fails, world
    return [], world
