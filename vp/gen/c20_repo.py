"""C20 generator: scratch git repositories (structural model -> real repository) and the Hypothesis strategy of cases.

Model (JSON):

    case = {"repo_name": int,                      # index into REPO_NAMES (directory name of the repository)
            "srcdir": "." | "src",                 # where the package lives (search path relative to the repository root)
            "gitignore": bool,                     # a committed .gitignore listing __pycache__/
            "commits": [commit, ...],              # 2..4, on branch main
            "vendored_symlink": bool,              # the repository tracks a symlink <pkg>/vendor -> ../_vendored (a directory with modules)
            "late_package": bool,                  # the package only appears with the second commit (first commit: absent)
            "tags": [[name_index, commit_index], ...],
            "branches": [[name_index, commit_index], ...],      # BRANCH_NAMES contains names with slashes
            "head": "main" | "branch" | "detached",              # what is checked out when Griffe runs
            "dirty": {"modified": bool, "staged": bool, "untracked": bool, "stash": bool},
            "user_worktree": bool,                 # the user already has a linked worktree of their own
            "clone_no_tags": bool, "upstream_after": bool,   # (clones) cloned with --no-tags / upstream gained a commit, a tag and a
                                                   # branch after cloning: the clone must not learn about them
            "clone": None | "path" | "file",       # Griffe works on a `git clone` (by path / file:// URL) of the generated repository:
                                                   # all branches but main then exist only as origin/<name>; refs of kind branch /
                                                   # slashed name such a remote-only branch (not a valid commit-ish: the load must fail
                                                   # and leave the clone untouched), kind "remote" names origin/<name> (valid)
            "sibling": None | "private" | "public",  # a second top-level package in the same repository that the first one re-exports
                                                   # `sfunc` from: "_<pkg>" (loaded on demand with resolve_external=None/True) or
                                                   # "<pkg>sib" (loaded on demand with resolve_external=True only)
            "ops": [op, ...]}                      # 1..3 operations, each judged against the snapshot taken before it
    commit = {"state": "ok" | "syntax_top" | "syntax_sub" | "absent", "variant": 0..3,
              "gen_file": bool,                          # this version of the package writes a generated file next to its sources when
                                                         # it is imported (version stamp, parser tables, ...): only inspection runs it
              "msg": int}                                # index into COMMIT_MESSAGES (ASCII, UTF-8, raw Latin-1 bytes, very long,
                                                         # multi-line, control characters)
    op = {"op": "load_git" | "check",
          "ref": [kind, index],                    # kind in tag|branch|sha|short|HEAD|HEAD~1|unknown
          "base": None | [kind, index],            # check only: base_ref
          "against_none": bool,                    # check only: let Griffe pick the latest tag
          "force": bool, "resolve_aliases": bool, "external": None | True | False,   # load_git: resolve_external
          "preexisting": bool,
          "root_on_syspath": bool,                 # the process has the working tree's source root on sys.path (tools run from the
                                                   # project root, editable installs): the *current* package is importable
          "thread": bool,                          # the operation is called from a worker thread (threading.Thread; result/exception handed back)
          "user_wt": None | "ref" | "griffe-ref",   # before the operation the user adds a linked worktree of their own whose directory
                                                    # basename is normalize(ref) / "griffe-" + normalize(ref)
          "fault": None | {"type": "ext_exc" | "ext_kbi", "k": int} | {"type": "sub_nonzero" | "sub_oserror" | "sub_timeout", "i": int}}
          # sub_timeout: the i-th pre-body git step is slow — it runs to completion, then subprocess.run raises TimeoutExpired; only
          # possible (and only injected) when the caller passed a timeout

All indices are taken modulo what exists, so every drawn model is valid and shrinks freely.
"""

from __future__ import annotations

import hashlib
import json
import os
import subprocess
from pathlib import Path

REPO_NAMES = ["repo", "my repo", "proj.git-x"]
TAG_NAMES = ["v0.1.0", "0.2", "rel/2024-01", "v1-rc.1"]
BRANCH_NAMES = ["dev", "feature/x", "release/1.x/fix", "feature-x", "wip_2"]

COMMIT_MESSAGES = [
    b"plain ascii subject",
    "r\u00e9vision caf\u00e9 \u2014 \u65e5\u672c\u8a9e subject".encode("utf-8"),
    "r\u00e9vision import\u00e9e d'un ancien d\u00e9p\u00f4t \u00fc\u00df".encode("latin-1"),  # raw Latin-1, no encoding header: not valid UTF-8
    b"very long subject " + b"x" * 3000,
    b"subject line\n\nbody line 1\nbody line 2 with 'quotes' and \"double quotes\"\n\nSigned-off-by: Nobody <n@example.invalid>\n",
    b"control \x01\x02 bell\x07 escape\x1b[31m red\x1b[0m tab\t cr\r end",
]

GIT_ENV = {
    "GIT_CONFIG_GLOBAL": "/dev/null",
    "GIT_CONFIG_SYSTEM": "/dev/null",
    "GIT_CONFIG_NOSYSTEM": "1",
    "GIT_AUTHOR_NAME": "Verif",
    "GIT_AUTHOR_EMAIL": "verif@example.invalid",
    "GIT_COMMITTER_NAME": "Verif",
    "GIT_COMMITTER_EMAIL": "verif@example.invalid",
    "GIT_TERMINAL_PROMPT": "0",
    "GIT_OPTIONAL_LOCKS": "0",
    "LC_ALL": "C",
}


def pkg_name(case) -> str:
    h = hashlib.sha1(json.dumps({k: v for k, v in case.items() if k != "ops"}, sort_keys=True).encode()).hexdigest()[:10]
    return f"gq{h}"


def git(repo, *args, check=True, env_extra=None) -> str:
    env = dict(os.environ)
    env.update(GIT_ENV)
    if env_extra:
        env.update(env_extra)
    p = subprocess.run(["git", "-C", str(repo), *args], capture_output=True, text=True, errors="replace", env=env, check=False)
    if check and p.returncode:
        raise RuntimeError(f"git {' '.join(args)} failed in {repo}: {p.stderr.strip()}")
    return p.stdout


# ----------------------------------------------------------------------------- sources
def sibling_name(name: str, sibling) -> str | None:
    if sibling == "private":
        return f"_{name}"
    if sibling == "public":
        return f"{name}sib"
    return None


def render_commit(name: str, commit: dict, j: int, sibling=None, vendored=False) -> dict:
    """Files of the package(s) (relative to the source dir) at one commit; {} when the package is absent."""
    state, v = commit["state"], commit["variant"] % 4
    sib = sibling_name(name, sibling)
    if state == "absent":
        return {}
    a_lines = [f'"""Module a (commit {j})."""', ""]
    a_lines += ["def f0(x, y=1):", f'    """Function f0 v{v}."""', "    return x", ""]
    if v in (1, 3):
        a_lines += ["def f1(p, q, *rest, flag=False):", "    if flag:", "        return q", "    return p", ""]
    if v >= 2:
        a_lines += ["def f2(only):", "    return only", ""]
    if commit.get("gen_file"):
        a_lines += [
            "import os as _os",
            "with open(_os.path.join(_os.path.dirname(_os.path.abspath(__file__)), '_generated_at_import.txt'), 'w') as _fh:",
            "    _fh.write('generated when the package is imported\\n')",
            "",
        ]
    a_lines += ["CONST = 7", ""]  # same at every commit: a changed value would be a breakage of its own and mask the others
    b_lines = [f'"""Module b (commit {j})."""', "", "class K:", f'    """Class K v{v}."""', "", "    attr: int = 0", ""]
    b_lines += ["    def m(self, a" + (", b=None" if v % 2 else "") + "):", "        return a", ""]
    if v >= 2:
        b_lines += ["    class Inner:", "        def deep(self):", "            return 1", ""]
    b_lines += ["def helper():", "    return K()", ""]
    files = {
        f"{name}/__init__.py": f'"""Package {name}."""\n\nfrom {name}.a import f0\nfrom {name}.sub.b import K as Klass\n\n__all__ = ["f0", "Klass", "top"]\n\n\ndef top(z):\n    return z\n',
        f"{name}/a.py": "\n".join(a_lines),
        f"{name}/sub/__init__.py": '"""Sub-package."""\n',
        f"{name}/sub/b.py": "\n".join(b_lines),
    }
    if sib:
        files[f"{name}/__init__.py"] = (
            f'"""Package {name}."""\n\nfrom {name}.a import f0\nfrom {name}.sub.b import K as Klass\nfrom {sib}.impl import sfunc\n\n'
            '__all__ = ["f0", "Klass", "sfunc", "top"]\n\n\ndef top(z):\n    return z\n'
        )
        files[f"{sib}/__init__.py"] = f'"""Sibling package {sib} (commit {j})."""\n'
        impl = [f'"""Implementation module of {sib}."""', ""]
        if v % 2:
            impl += [f"# a comment that shifts the lines (variant {v})", "", ""]
        impl += ["def sfunc(a" + ("" if v % 2 else ", b") + "):", f'    """Sibling function v{v}."""', "    return a", ""]
        impl += ["class SK:", "    def sm(self):", "        return 0", ""]
        files[f"{sib}/impl.py"] = "\n".join(impl)
    if vendored:
        files["_vendored/__init__.py"] = '"""Vendored code."""\n'
        files["_vendored/x.py"] = f'"""Vendored module (commit {j})."""\n\n\ndef vx(a, b=0):\n    """Vendored function."""\n    return a\n\n\nclass VK:\n    def vm(self):\n        return {v}\n'
        files[f"{name}/vendor"] = ("SYMLINK", "../_vendored")
    if state == "syntax_top":
        files[f"{name}/__init__.py"] = f'"""Package {name}."""\n\ndef broken(:\n    pass\n'
    elif state == "syntax_sub":
        files[f"{name}/a.py"] = '"""Module a."""\n\ndef f0(x, y=1):\n    return x\n\nclass Oops(\n'
    return files


def normalise(case) -> dict:
    """Apply case-level switches that rewrite the history model (so that every reader sees the same commits)."""
    if case.get("late_package") and case["commits"] and case["commits"][0]["state"] != "absent":
        case = dict(case)
        case["commits"] = [{**case["commits"][0], "state": "absent"}, *case["commits"][1:]]
    return case


def build_repo(case, base: Path) -> dict:
    """Create the repository under `base`; -> {"repo": Path, "name": pkg name, "shas": [...], "tags": {...}, "branches": {...}}."""
    name = pkg_name(case)
    final_repo = base / REPO_NAMES[case["repo_name"] % len(REPO_NAMES)]
    clone = case.get("clone")
    repo = (base / "origin-src" / final_repo.name) if clone else final_repo
    repo.mkdir(parents=True)
    src = repo if case["srcdir"] == "." else repo / case["srcdir"]
    git(repo, "init", "-q", "-b", "main")
    shas = []
    prev: set[str] = set()
    for j, commit in enumerate(case["commits"]):
        files = render_commit(name, commit, j, case.get("sibling"), bool(case.get("vendored_symlink")))
        for rel in sorted(prev - set(files), key=lambda r: (not r.endswith("/vendor"), r)):  # the symlink before its target
            (src / rel).unlink()
        for rel, text in files.items():
            p = src / rel
            p.parent.mkdir(parents=True, exist_ok=True)
            if isinstance(text, tuple):
                if not p.is_symlink():
                    os.symlink(text[1], p)
            else:
                p.write_text(text)
        prev = set(files)
        (repo / "README.md").write_text(f"# {name}\n\nrevision {j}\n")
        if case.get("gitignore") and j == 0:
            (repo / ".gitignore").write_text("__pycache__/\n*.pyc\n")
        date = f"2024-01-{j + 1:02d}T12:00:00+0000"
        git(repo, "add", "-A")
        msgfile = base / "commit-message.bin"
        msgfile.write_bytes(COMMIT_MESSAGES[commit.get("msg", 0) % len(COMMIT_MESSAGES)] + f" (commit {j}, {commit['state']})\n".encode())
        git(repo, "commit", "-q", "--allow-empty", "-F", str(msgfile), env_extra={"GIT_AUTHOR_DATE": date, "GIT_COMMITTER_DATE": date})
        if commit.get("msg", 0) % len(COMMIT_MESSAGES) == 2:
            # `git commit` silently re-codes invalid UTF-8 as Latin-1 -> UTF-8; histories imported from legacy systems carry the raw
            # bytes. Rewrite the commit object with the raw message (what fast-import / cvs2git produce).
            env = {**os.environ, **GIT_ENV}
            raw = subprocess.run(["git", "-C", str(repo), "cat-file", "commit", "HEAD"], capture_output=True, check=True, env=env).stdout
            header = raw.split(b"\n\n", 1)[0]
            obj = header + b"\n\n" + msgfile.read_bytes()
            new_sha = subprocess.run(["git", "-C", str(repo), "hash-object", "-t", "commit", "-w", "--stdin"], input=obj, capture_output=True, check=True, env=env).stdout.decode().strip()
            git(repo, "reset", "-q", "--soft", new_sha)
        shas.append(git(repo, "rev-parse", "HEAD").strip())
    tags, branches = {}, {}
    for ni, ci in case["tags"]:
        t = TAG_NAMES[ni % len(TAG_NAMES)]
        if t not in tags:
            tags[t] = ci % len(shas)
            git(repo, "tag", t, shas[tags[t]])
    for ni, ci in case["branches"]:
        b = BRANCH_NAMES[ni % len(BRANCH_NAMES)]
        if b not in branches:
            branches[b] = ci % len(shas)
            git(repo, "branch", b, shas[branches[b]])
    local_branches = {"main", *branches}
    if clone:
        # the user's repository is a clone: only `main` is a local branch, the others exist as origin/<name>
        url = str(repo) if clone == "path" else "file://" + str(repo)
        git(base, "clone", "-q", *(["--no-tags"] if case.get("clone_no_tags") else []), url, str(final_repo))
        if case.get("upstream_after"):
            # upstream moves on after the clone was made: a new commit, a new tag, a new branch
            (repo / "README.md").write_text(f"# {name}\n\nreleased upstream after the clone\n")
            date = "2024-02-01T12:00:00+0000"
            git(repo, "checkout", "-q", "main")
            git(repo, "commit", "-q", "-a", "-m", "upstream after clone", env_extra={"GIT_AUTHOR_DATE": date, "GIT_COMMITTER_DATE": date})
            git(repo, "tag", "post-clone-9.9")
            git(repo, "branch", "post/clone")
        origin = repo
        repo = final_repo
        src = repo if case["srcdir"] == "." else repo / case["srcdir"]
        local_branches = {"main"}
    head_commit = len(shas) - 1
    if case["head"] == "branch" and branches:
        b = sorted(branches)[0]
        git(repo, "checkout", "-q", b)  # (in a clone: creates the local tracking branch, as a user's checkout would)
        local_branches.add(b)
        head_commit = branches[b]
    elif case["head"] == "detached":
        head_commit = max(0, len(shas) - 2)
        git(repo, "checkout", "-q", "--detach", shas[head_commit])
    info = {"repo": repo, "name": name, "sibling": sibling_name(name, case.get("sibling")), "shas": shas, "tags": tags, "branches": branches, "head_commit": head_commit, "src": src,
            "commit_states": [c["state"] for c in case["commits"]], "vendored": bool(case.get("vendored_symlink")),
            "local_branches": local_branches, "clone": clone, "local_tags": (set() if clone and case.get("clone_no_tags") else set(tags)), "user_worktrees": [], "base": base}
    # ---- the user's own uncommitted work, which must survive
    d = case["dirty"]
    if d.get("stash"):
        (repo / "README.md").write_text("stashed edit\n")
        git(repo, "stash", "push", "-q", "-m", "user stash")
    if d.get("staged"):
        (repo / "staged.txt").write_text("staged content\n")
        git(repo, "add", "staged.txt")
    if d.get("modified"):
        with (repo / "README.md").open("a") as fh:
            fh.write("local modification\n")
        target = src / name / "a.py"
        if target.exists():
            with target.open("a") as fh:
                fh.write("\ndef local_only():\n    return 0\n")
    if d.get("untracked"):
        (repo / "notes untracked.txt").write_text("untracked\n")
        if (src / name).is_dir():
            (src / name / "scratch_untracked.py").write_text("X = 1\n")
    if case.get("user_worktree"):
        uw = base / "user-worktree"
        git(repo, "worktree", "add", "-q", "-b", "user/wt", str(uw), shas[0])
        info["user_worktrees"].append(uw)
    return info


def resolve_ref(refspec, info) -> tuple[str, int | None]:
    """-> (ref text handed to Griffe, index of the commit it denotes or None when it does not exist)."""
    kind, idx = refspec
    shas = info["shas"]
    if kind == "tag" and info["tags"]:
        t = sorted(info["tags"])[idx % len(info["tags"])]
        return t, (info["tags"][t] if t in info.get("local_tags", info["tags"]) else None)  # (--no-tags clone: unknown locally)
    local = info.get("local_branches") or set(info["branches"])
    if kind == "branch" and info["branches"]:
        b = sorted(info["branches"])[idx % len(info["branches"])]
        return b, (info["branches"][b] if b in local else None)  # remote-only in a clone: not a commit-ish
    if kind == "slashed":
        sl = [b for b in sorted(info["branches"]) if "/" in b]
        if sl:
            b = sl[idx % len(sl)]
            return b, (info["branches"][b] if b in local else None)
    if kind == "remote" and info.get("clone") and info["branches"]:
        b = sorted(info["branches"])[idx % len(info["branches"])]
        return f"origin/{b}", info["branches"][b]
    if kind == "sha":
        i = idx % len(shas)
        return shas[i], i
    if kind == "short":
        i = idx % len(shas)
        return shas[i][:10], i
    if kind == "HEAD~1":
        return ("HEAD~1", info["head_commit"] - 1) if info["head_commit"] >= 1 else ("HEAD~1", None)
    if kind == "absent":
        # a commit at which the package does not exist (while it may well exist in the working tree)
        absent = [i for i, c in enumerate(info.get("commit_states", ())) if c == "absent"]
        if absent:
            i = absent[idx % len(absent)]
            return shas[i], i
    if kind == "unknown":
        return "no-such/ref", None
    if kind == "main":
        return "main", len(shas) - 1
    return "HEAD", info["head_commit"]


# ----------------------------------------------------------------------------- strategy
def strategy():
    from hypothesis import strategies as st

    commit = st.fixed_dictionaries(
        {"state": st.sampled_from(["ok"] * 7 + ["syntax_top", "syntax_sub", "absent"]), "variant": st.integers(0, 3), "gen_file": st.sampled_from([False, False, True]), "msg": st.sampled_from([0, 0, 1, 2, 2, 3, 4, 5])}
    )
    refspec = st.tuples(st.sampled_from(["tag", "tag", "branch", "branch", "slashed", "slashed", "remote", "sha", "short", "absent", "HEAD", "HEAD~1", "main", "unknown"]), st.integers(0, 3)).map(list)
    ext_fault = st.fixed_dictionaries({"type": st.sampled_from(["ext_exc", "ext_kbi"]), "k": st.integers(0, 400)})
    sub_fault = st.fixed_dictionaries({"type": st.sampled_from(["sub_nonzero", "sub_oserror", "sub_timeout", "sub_timeout"]), "i": st.integers(0, 4)})
    fault = st.one_of(st.none(), st.none(), ext_fault, ext_fault, sub_fault)
    op = st.fixed_dictionaries(
        {
            "op": st.sampled_from(["load_git", "load_git", "check"]),
            "ref": refspec,
            "base": st.one_of(st.none(), refspec),
            "against_none": st.sampled_from([False, False, True]),
            "force": st.sampled_from([False, False, True]),
            "resolve_aliases": st.sampled_from([True, True, False]),
            "external": st.sampled_from([None, None, True, False]),
            "preexisting": st.sampled_from([False] * 7 + [True]),
            "user_wt": st.sampled_from([None] * 5 + ["ref", "ref", "griffe-ref"]),
            "thread": st.sampled_from([False, False, True]),
            "root_on_syspath": st.sampled_from([False, False, True]),
            "fault": fault,
        }
    )
    return st.fixed_dictionaries(
        {
            "repo_name": st.integers(0, len(REPO_NAMES) - 1),
            "srcdir": st.sampled_from([".", "src"]),
            "gitignore": st.sampled_from([False, False, False, True]),
            "commits": st.lists(commit, min_size=2, max_size=4),
            "tags": st.one_of(st.just([]), *[st.lists(st.tuples(st.integers(0, 3), st.integers(0, 3)).map(list), min_size=1, max_size=3)] * 4),
            "branches": st.lists(st.tuples(st.integers(0, 4), st.integers(0, 3)).map(list), min_size=1, max_size=3),
            "head": st.sampled_from(["main", "main", "branch", "detached"]),
            "dirty": st.fixed_dictionaries({"modified": st.booleans(), "staged": st.booleans(), "untracked": st.booleans(), "stash": st.sampled_from([False, False, True])}),
            "user_worktree": st.sampled_from([False, False, False, True]),
            "sibling": st.sampled_from([None, "private", "private", "public"]),
            "late_package": st.sampled_from([False, False, True]),
            "vendored_symlink": st.sampled_from([False, False, True]),
            "clone": st.sampled_from([None, None, None, "path", "file"]),
            "clone_no_tags": st.sampled_from([False, False, True]),
            "upstream_after": st.booleans(),
            "ops": st.lists(op, min_size=1, max_size=3),
        }
    )
