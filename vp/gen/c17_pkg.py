"""C17 generator: importable packages with an agent-neutral profile (JSON model -> files).

Model (JSON-serialisable; the top-level package name is NOT part of the model, the renderer receives it):

    case = {"kind": "pkg", "layout": "module" | "package", "mods": [mod, ...]}      # mods in import order
    mod  = {"path": ["a"] | [] | ["sub"] | ["sub", "c"] | ["sub", "deep", "core", "leaf"], "init": bool, "doc": str | None, "body": [item, ...],
            "typing": bool, "sentinels": bool}     # sentinels: header `_MISSING = object(); class _Marker: pass; _UNSET = _Marker()`
           # typing: the module starts with `from typing import Generic, Protocol, TypeVar; T = TypeVar("T")`
    item = {"t": "attr",  "name": str, "value": <literal source>}
         | {"t": "func",  "name": str, "params": [param, ...], "ret": <annotation source> | None, "doc": str | None,
            "async": bool, "deco": None | "staticmethod" | "classmethod" | "property" | "cached_property" | "fcached_property",
            "setter": bool, "init_attrs": [str, ...], "init_chains": [[member, attr, ...], ...]}   # self.<member>.<attr> = 0 in __init__
         | {"t": "class", "name": str, "doc": str | None, "bases": [[part, ...], ...], "body": [item, ...]}
           # a base is a dotted name; a last part starting with "[" is a subscript: ["Repo", "[int]"], ["Generic", "[T]"]
           # relative forms climb to the nearest common package plus "up" (0-2) further ones: from ...sub.c import X
         | {"t": "from",    "mod": idx, "rel": bool, "names": [[name, asname | None], ...]}      from pkg.a import A as A2
         | {"t": "frommod", "mod": idx, "rel": bool, "as": asname | None}                        from pkg import a [as x]
         | {"t": "import",  "mod": idx, "as": asname | None}                                     import pkg.a [as x]
         | {"t": "star",    "mod": idx, "rel": bool}                                             from pkg.a import *
         | {"t": "all",     "names": [str, ...]}                                                  __all__ = [...]
         | {"t": "iffalse", "cond": <constant expression>, "else": bool, "name": str, "value": <literal source>}
           # `if <false constant>: name = value` (or `if <true constant>: pass / else: name = value`) AFTER `name` was bound by a
           # def / class / import / assignment of the same scope: never executed, and the visitor keeps the first binding
           # an import item may carry "try": {bound name: <literal source>}: `try: <import> / except ImportError: name = literal`
           # (the import succeeds by construction; the visitor prefers the no-exception case)
    param = {"n": str, "k": "po" | "pk" | "va" | "ko" | "vk", "d": <literal source> | None, "a": <annotation source> | None}

Soundness (every case is an importable package inside the property's domain) is by construction:

* every import statement of module i targets a module j < i of the list (explicit imports are acyclic); the modules of a
  sub-package (its `__init__` and children) are contiguous in that order, so that a sub-package `__init__` started implicitly
  by the import of one of its children never needs a module that is still executing (the check imports every generated
  package with CPython first and reports a harness error, never a violation, if that fails);
* a name is bound once per scope (exception: the deliberate "redef" of a function/attribute by a later function/attribute);
  sub-module names, member names, alias names and class-body names come from disjoint pools, so a sub-module never collides
  with a member (docs: best practices) and a class-body name never shadows a global used in a base-class expression;
* sibling module names never differ only by leading underscores (the inspector documents treating those as one module);
  pairs differing by a trailing underscore (`a` / `a_`, `_u` / `u_`) are generated: they are distinct modules for both agents;
* base classes are classes of this package reached through names bound *earlier* in the same module; the C3 merge is
  computed at generation time so `class C(B1, B2)` always has a consistent MRO;
* typing bases: `Generic[T]` (last base) and `Protocol` / `Protocol[T]` (sole base, protocols only inherit protocols); a base
  is subscripted (`Repo[int]`, `Repo[T]`) only if that class still has a free type variable; the same class never appears
  twice among the bases; `T` is the module's own `TypeVar("T")` from the typing header;
* conditional code only in the two shapes where the visitor's rule and the runtime must agree: the optional-import idiom
  (`try: import` that succeeds, `except ImportError:` fallback assignments of the imported names) and a constant-false `if`
  (or the `else` of a constant-true `if`) re-assigning a name that an explicit statement of the same scope bound before; no
  `TYPE_CHECKING` blocks, no other conditional definitions,
* no annotation-only attributes, no callable instances / lambdas / class aliases as attribute
  values (values are literals), `self.x = ...` only inside `__init__` (reported to the oracle as init-only names);
* `import pkg.sub` without `as` is not generated inside the top-level `__init__` (it binds the package to itself: a cyclic
  self-reference, outside "acyclic intra-package imports"); wildcard imports only from plain (non-`__init__`) modules.
"""

from __future__ import annotations

from hypothesis import strategies as st

TOP = "$TOP"

MOD_NAMES = ["a", "b", "_u"]
SUBPKG_NAMES = ["sub", "_sp"]
SUBMOD_NAMES = ["c", "d"]
# per nesting depth of the containing package: plain-module names, sub-package names, max plain modules, chance of a sub-package
LEVEL_MODS = [MOD_NAMES, SUBMOD_NAMES, ["e", "k"], ["leaf"]]
# sibling modules whose names differ only by a TRAILING underscore (or leading on one / trailing on the other) are distinct
# modules for both agents: the inspector's documented "same module" rule only ignores LEADING underscores, so every pair
# below stays distinct after lstrip("_")
LEVEL_TWINS = [[("a", "a_"), ("_u", "u_"), ("b", "b_")], [("c", "c_"), ("_d", "d_")], [("e", "e_"), ("_x", "x_")], [("leaf", "leaf_")]]
LEVEL_PKGS = [SUBPKG_NAMES, ["deep", "_dp"], ["core"]]
LEVEL_MAX_PLAIN = [2, 2, 1, 1]
LEVEL_SUBPKG_PCT = [40, 55, 40]
MOD_FUNCS = ["f", "g", "_h", "make", "run"]
MOD_CLASSES = ["A", "B", "C", "Base", "_P"]
MOD_ATTRS = ["X", "Y", "_z", "VERSION", "__version__"]
AS_OBJ = ["A2", "B2", "ff", "gg", "XX", "_yy"]
AS_MOD = ["amod", "bmod", "m1", "_m2"]
CLS_METHODS = ["m", "n", "_o", "go", "__repr__", "__len__"]
CLS_MANGLED = ["__q", "__r"]
CLS_ATTRS = ["v", "w", "_k", "LIMIT"]
CLS_PROPS = ["p", "size", "_cp"]
CLS_NESTED = ["Inner", "Meta", "_N"]
CLS_NESTED_SHADOWING = ["Base", "A"]  # nested-class names that also exist in the module-level class pool
INIT_ATTRS = ["inst", "data", "_priv", "v"]
PARAM_NAMES = ["a", "b", "c", "d", "e", "x", "y", "z", "k", "i", "j"]

VALUES = ["1", "0", "-1", "'s'", "None", "True", "(1, 2)", "[1]", "{'k': 1}", "1.5", "b'x'", "...", "''", "()"]
DEFAULTS = ["0", "1", "None", "'s'", "()", "True", "-1", "1.5"]
# sentinel defaults (module flag "sentinels": header `_MISSING = object()`, `class _Marker: pass`, `_UNSET = _Marker()`): objects with
# the address-bearing default repr and no __name__; optional parameters for CPython and for both agents
SENTINELS = ["_MISSING", "_UNSET"]
ANNOTATIONS = [None, None, None, "int", "str", "'Fwd'", "list[int]", "int | None", "bool"]

DOC_LINES = ["Summary.", "Details: more", "x", "Args:", "a: thing", "café ✓", "quo\"te ' back\\slash", ">>> 1 + 1", ""]
DOC_INDENTS = ["", "", "  ", "    ", "        ", "\t"]

STEERED: dict[str, int] = {}  # known-finding slug -> number of generated items steered away from it (per process)

GENERIC_ID = -1  # typing.Generic in the MRO bookkeeping
PROTOCOL_ID = -2  # typing.Protocol (a subclass of Generic)

FALSE_CONDS = ["0", "False", "not True", "1 > 2", "''", "None", "()"]
TRUE_CONDS = ["1", "True", "not 0", "1 < 2"]

DEFAULT_FEATS = {"none_attr": True, "mangled": True, "doc_shapes": True, "star": True, "redef": True}


# ----------------------------------------------------------------------------- helpers on the model
def dotted(top: str, path: list[str]) -> str:
    return ".".join([top, *path])


def is_dunder(name: str) -> bool:
    return len(name) > 4 and name.startswith("__") and name.endswith("__")


def is_mangled(name: str) -> bool:
    return name.startswith("__") and not name.endswith("__")


def c3_merge(seqs: list[list[int]]) -> list[int] | None:
    """C3 merge; None if inconsistent."""
    seqs = [list(s) for s in seqs if s]
    out: list[int] = []
    while seqs:
        for s in seqs:
            head = s[0]
            if not any(head in t[1:] for t in seqs):
                break
        else:
            return None
        out.append(head)
        seqs = [[x for x in s if x != head] for s in seqs]
        seqs = [s for s in seqs if s]
    return out


# ----------------------------------------------------------------------------- strategy
class _Builder:
    def __init__(self, draw, feats):
        self.draw = draw
        self.feats = feats
        # cid -> {"mro": [...], "nested": {name: cid}, "params": has a free type variable, "proto": is a Protocol class,
        #         "orig": the class or an ancestor was created from a subscripted base (has/inherits __orig_bases__)}
        self.classes: dict[int, dict] = {
            GENERIC_ID: {"mro": [GENERIC_ID], "nested": {}, "params": False, "proto": False, "orig": False},
            PROTOCOL_ID: {"mro": [PROTOCOL_ID, GENERIC_ID], "nested": {}, "params": False, "proto": True, "orig": False},
        }
        self.next_cid = 0
        self.sentinels = False  # does the module being generated have the sentinel header?
        self.modenvs: list[dict] = []  # per module: final name -> ref
        self.mods: list[dict] = []

    # -- small draws
    def chance(self, pct: int) -> bool:
        return self.draw(st.integers(0, 99)) < pct

    def pick(self, seq):
        return self.draw(st.sampled_from(list(seq)))

    def want_mangled(self, pct: int) -> bool:
        if not self.chance(pct):
            return False
        if not self.feats["mangled"]:
            STEERED["class-private-name-mangling"] = STEERED.get("class-private-name-mangling", 0) + 1
            return False
        return True

    def maybe_try(self, item: dict, bound: list[str]) -> None:
        """Optional-import idiom: wrap the (succeeding) import in try/except ImportError with fallback assignments."""
        if bound and self.chance(25):
            item["try"] = {n: self.value(True) for n in bound}

    def iffalse(self, name: str) -> dict:
        if self.chance(70):
            return {"t": "iffalse", "cond": self.pick(FALSE_CONDS), "else": False, "name": name, "value": self.value(True)}
        return {"t": "iffalse", "cond": self.pick(TRUE_CONDS), "else": True, "name": name, "value": self.value(True)}

    @staticmethod
    def explicit_names(items: list[dict]) -> list[str]:
        """Names an explicit statement of this body binds (wildcard imports, header imports and `import pkg.x` excluded)."""
        out: list[str] = []
        for it in items:
            t = it["t"]
            if t in ("attr", "func", "class"):
                out.append(it["name"])
            elif t == "from":
                out += [a or n for n, a in it["names"] if (a or n) != TOP]
            elif t == "frommod" and it.get("as"):
                out.append(it["as"])
            elif t == "import" and it.get("as"):
                out.append(it["as"])
        return [n for n in dict.fromkeys(out) if not is_dunder(n) and not is_mangled(n)]

    def is_top_ref(self, ref: dict) -> bool:
        """Does this binding denote the top-level package itself (directly, or re-exported under another name)?"""
        return ref["k"] in ("pkgroot", "opaque") or (ref["k"] == "module" and ref["idx"] == self.top_idx)

    def climb(self) -> int:
        """Extra packages a relative import climbs beyond the nearest common one (`from ...sub.c import X` inside pkg/sub/deep)."""
        return self.draw(st.integers(1, 2)) if self.chance(20) else 0

    def fresh(self, pool, used) -> str | None:
        free = [n for n in pool if n not in used]
        return self.pick(free) if free else None

    # -- pieces
    def doc(self) -> str | None:
        if self.chance(40):
            return None
        if not self.feats["doc_shapes"]:
            return self.pick(["Summary.", "x", "Details: more"])
        shape = self.draw(st.integers(0, 9))
        if shape == 0:
            return self.pick(["", " ", "\n", "  \n  "])
        n = self.draw(st.integers(1, 4))
        lines = [self.pick(DOC_INDENTS) + self.pick(DOC_LINES) for _ in range(n)]
        text = "\n".join(lines)
        if self.chance(35):
            text = "\n" + self.pick(["", "    "]) + text
        if self.chance(35):
            text = text + self.pick(["\n", "\n    ", "  ", "\n\n"])
        return text

    def default(self) -> str:
        if self.sentinels and self.chance(35):
            return self.pick(SENTINELS)
        return self.pick(DEFAULTS)

    def params(self, first: str | None) -> list[dict]:
        d = self.draw
        names = list(d(st.permutations(PARAM_NAMES)))
        n_po = d(st.integers(0, 2)) if self.chance(45) else 0
        n_pk = d(st.integers(0, 4))
        va = self.chance(30)
        n_ko = d(st.integers(0, 2)) if self.chance(45) else 0
        vk = self.chance(30)
        out: list[dict] = []
        positional = ["po"] * n_po + ["pk"] * n_pk
        if first is not None:
            # the implicit first parameter is positional-only when other positional-only parameters follow
            positional = (["po"] if n_po or self.chance(10) else ["pk"]) + positional
        first_default = d(st.integers(0, len(positional))) if self.chance(60) else len(positional)
        for i, k in enumerate(positional):
            if first is not None and i == 0:
                out.append({"n": first, "k": k, "d": None, "a": None})
                first_default = max(first_default, 1)
                continue
            out.append({"n": names.pop(), "k": k, "d": self.default() if i >= first_default else None, "a": self.pick(ANNOTATIONS)})
        if va:
            out.append({"n": self.pick(["args", names.pop()]), "k": "va", "d": None, "a": self.pick(ANNOTATIONS)})
        for _ in range(n_ko):
            out.append({"n": names.pop(), "k": "ko", "d": self.default() if self.chance(50) else None, "a": self.pick(ANNOTATIONS)})
        if vk:
            out.append({"n": self.pick(["kwargs", names.pop()]), "k": "vk", "d": None, "a": self.pick(ANNOTATIONS)})
        return out

    def func(self, name: str, deco: str | None, first: str | None) -> dict:
        simple = deco in ("property", "cached_property", "fcached_property")
        return {
            "t": "func",
            "name": name,
            "params": [{"n": "self", "k": "pk", "d": None, "a": None}] if simple else self.params(first),
            "ret": self.pick(ANNOTATIONS),
            "doc": self.doc(),
            "async": (not simple) and self.chance(15),
            "deco": deco,
            "setter": deco == "property" and self.chance(25),
            "init_attrs": [],
        }

    def value(self, allow_none: bool) -> str:
        v = self.pick(VALUES)
        if v == "None" and not allow_none:
            v = "0"
        return v

    # -- base-class expressions available from an environment
    def _nested_exprs(self, prefix: list[str], cid: int, out: list) -> None:
        out.append((prefix, cid))
        for n, c in self.classes[cid]["nested"].items():
            self._nested_exprs([*prefix, n], c, out)

    def base_candidates(self, env: dict) -> list[tuple[list[str], int]]:
        out: list = []
        for name, ref in env.items():
            if ref["k"] == "class":
                self._nested_exprs([name], ref["id"], out)
            elif ref["k"] == "module":
                for n2, r2 in self.modenvs[ref["idx"]].items():
                    if r2["k"] == "class":
                        self._nested_exprs([name, n2], r2["id"], out)
            elif ref["k"] == "pkgroot":
                for j in ref["subs"]:
                    for n2, r2 in self.modenvs[j].items():
                        if r2["k"] == "class":
                            self._nested_exprs([TOP, *self.mods[j]["path"], n2], r2["id"], out)
        return out

    def klass(self, name: str, genv: dict, depth: int, allow_none: bool, typing: bool = False, chain: tuple = ()) -> tuple[dict, int]:
        """A class item. `chain` = ids of the enclosing classes (outermost first) when the class is nested.

        Base-class names of a nested class follow Python's class-body scoping, which the two agents must agree on:
        * a bare name of a sibling nested class defined EARLIER in the immediately enclosing class body (it shadows a
          same-named module-level class or import: LOAD_NAME looks at the class-body locals first);
        * otherwise an expression over module-level names whose first name is not the name of a nested class of ANY
          enclosing class - neither one defined earlier (checked here) nor one defined later (the enclosing classes record
          the global names their nested classes used, and never reuse them for a nested class). That keeps the generated
          programs away from the visitor's known scope leniency (DESIGN 5.12: outer class scopes searched, definition order
          ignored), which is C04's subject, not the skeleton's.
        """
        d = self.draw
        cands = self.base_candidates(genv)
        siblings: list = []
        if chain:
            # ... nor the name of the class being defined (`class A(A)` in a class body inherits from the global A)
            # ... nor the name of an enclosing class (not yet bound in its own parent's body while it is being defined)
            hidden = {n for k in chain for n in self.classes[k]["nested"]} | {self.classes[k]["name"] for k in chain} | {name}
            cands = [c for c in cands if c[0][0] not in hidden]
            for n, c in self.classes[chain[-1]]["nested"].items():
                self._nested_exprs([n], c, siblings)
        bases: list[list[str]] = []
        base_ids: list[int] = []
        params = False
        orig = False
        proto = False

        def consistent(trial: list[int]) -> bool:
            return c3_merge([self.classes[b]["mro"] for b in trial] + [trial]) is not None

        if typing and self.chance(12):
            # a Protocol class: typing.Protocol is its only base
            sub = self.chance(50)
            bases.append(["Protocol", "[T]"] if sub else ["Protocol"])
            base_ids.append(PROTOCOL_ID)
            params, orig, proto = sub, sub, True
        elif (cands or siblings) and self.chance(75 if siblings else 65):
            # prefer classes with a generic ancestry when there are some (descendants of generic classes are the point)
            lineage = [c for c in cands if self.classes[c[1]]["orig"] or self.classes[c[1]]["params"]]
            if not cands:
                cands = siblings
            for _ in range(2 if self.chance(65 if lineage else 50) else 1):
                if siblings and self.chance(60):
                    expr, cid = self.pick(siblings)
                    from_sibling = True
                else:
                    expr, cid = self.pick(lineage if lineage and self.chance(70) else cands)
                    from_sibling = False
                if cid in base_ids or not consistent(base_ids + [cid]):
                    continue
                if chain and not from_sibling:
                    for k in chain:
                        self.classes[k]["global_refs"].add(expr[0])
                if self.classes[cid]["params"] and self.chance(55):
                    sub = self.pick(["[T]", "[int]", "[str]"] if typing else ["[int]", "[str]"])
                    expr = [*expr, sub]
                    params |= sub == "[T]"
                    orig = True
                orig |= self.classes[cid]["orig"]
                bases.append(expr)
                base_ids.append(cid)
        if typing and not proto and self.chance(25 if not bases else 12) and consistent(base_ids + [GENERIC_ID]):
            # a generic root (alone), or `class A(Repo[T], Generic[T])` / `class A(Plain, Generic[T])`
            bases.append(["Generic", "[T]"])
            base_ids.append(GENERIC_ID)
            params, orig = True, True
        cid = self.next_cid
        self.next_cid += 1
        mro = [cid] + (c3_merge([self.classes[b]["mro"] for b in base_ids] + [list(base_ids)]) or [])
        self.classes[cid] = {"mro": mro, "nested": {}, "params": params, "proto": proto, "orig": orig, "global_refs": set(), "name": name}
        body: list[dict] = []
        used: set[str] = set()
        has_init = False
        for _ in range(d(st.integers(0, 6))):
            what = d(st.integers(0, 11))
            if what <= 3:  # method flavours
                deco = self.pick([None, None, "staticmethod", "classmethod"])
                pool = CLS_METHODS + (CLS_MANGLED if self.want_mangled(8) else [])
                n = self.fresh(pool, used)
                if n is None:
                    continue
                if is_dunder(n):
                    deco = None
                first = {None: "self", "classmethod": "cls", "staticmethod": None}[deco]
                body.append(self.func(n, deco, first))
                used.add(n)
            elif what <= 5:  # properties
                n = self.fresh(CLS_PROPS, used)
                if n is None:
                    continue
                body.append(self.func(n, self.pick(["property", "property", "cached_property", "fcached_property"]), "self"))
                used.add(n)
            elif what <= 7:  # class attributes
                pool = CLS_ATTRS + (["__r"] if self.want_mangled(5) else [])
                n = self.fresh(pool, used)
                if n is None:
                    continue
                body.append({"t": "attr", "name": n, "value": self.value(allow_none)})
                used.add(n)
            elif what == 8 and depth < 2:
                taken = used | self.classes[cid]["global_refs"] | {name} | {self.classes[k]["name"] for k in chain}
                # a third of the nested classes take the name of a class already bound at module level (defined or
                # imported there): the name a wrong scope would pick for `class Child(<that name>)` further down
                shadowable = [n for n, r in genv.items() if r["k"] == "class" and n not in taken]
                if shadowable and self.chance(35):
                    n = self.pick(shadowable)
                else:
                    n = self.fresh(CLS_NESTED + (CLS_NESTED_SHADOWING if self.chance(30) else []), taken)
                if n is None:
                    continue
                item, ncid = self.klass(n, genv, depth + 1, allow_none, typing, (*chain, cid))
                body.append(item)
                self.classes[cid]["nested"][n] = ncid
                used.add(n)
            elif what == 9 and not has_init:
                f = self.func("__init__", None, "self")
                f["async"] = False
                f["init_attrs"] = sorted(set(d(st.lists(st.sampled_from(INIT_ATTRS), max_size=3))))
                body.append(f)
                used.add("__init__")
                has_init = True
            elif what == 10 and self.feats["redef"]:
                # rebind an earlier plain function / attribute of this class body
                prev = [it for it in body if it["t"] == "attr" or (it["t"] == "func" and it["deco"] is None and it["name"] != "__init__")]
                if not prev:
                    continue
                n = self.pick([it["name"] for it in prev])
                if self.chance(50):
                    body.append({"t": "attr", "name": n, "value": self.value(allow_none)})
                else:
                    body.append(self.func(n, None, "self"))
        # `self.v = 0` in __init__ must not shadow a method `v` of the class (the visitor would turn the method into an
        # instance attribute: that is the tolerated "instance attributes assigned in __init__", not a skeleton difference)
        # chained targets through an existing class-level member in __init__ (`self.Inner.debug = 0`, `self.m.__func__.calls = 0`):
        # they bind nothing (neither agent records a member for `self.a.b = ...`; the body is never executed at import)
        for k, it in enumerate(body):
            if it["t"] == "func" and it["name"] == "__init__" and self.chance(45):
                before = [x for x in body[:k] if x["t"] in ("class", "func") and x["name"] != "__init__"]
                chains = []
                for x in (d(st.lists(st.sampled_from(before), min_size=1, max_size=2)) if before else []):
                    chain = [x["name"], "debug"] if x["t"] == "class" or x.get("deco") in ("property", "cached_property", "fcached_property") else [x["name"], "__func__", "calls"]
                    if chain not in chains:
                        chains.append(chain)
                it["init_chains"] = chains
        if self.chance(15):
            names = self.explicit_names(body)
            if names:
                body.append(self.iffalse(self.pick(names)))
        funcs = {it["name"] for it in body if it["t"] == "func"}
        for it in body:
            if it["t"] == "func" and it["init_attrs"]:
                it["init_attrs"] = [a for a in it["init_attrs"] if a not in funcs]
        # "orig" is informational (evidence histogram): does the class have a subscripted base of its own, or only inherit one
        own = any(b[-1].startswith("[") for b in bases)
        return {"t": "class", "name": name, "doc": self.doc(), "bases": bases, "body": body, "orig": "own" if own else "inherited" if orig else None}, cid

    # -- imports of module i
    def imports(self, i: int, env: dict, is_top_init: bool, layout_pkg: bool) -> list[dict]:
        d = self.draw
        items: list[dict] = []
        if i == 0 or not layout_pkg:
            return items
        n = d(st.integers(0, 3)) if self.chance(85) else 0
        for _ in range(n):
            j = d(st.integers(0, i - 1))
            tgt = self.mods[j]
            form = self.pick(["from", "from", "from", "frommod", "import", "star"])
            if form == "star" and (tgt["init"] or not self.feats["star"]):
                form = "from"
            if form == "frommod" and not tgt["path"]:
                form = "from"
            if form == "from":
                # dunder names (`__all__`, `__version__`) are not re-imported; the top-level package is not imported
                # into its own `__init__` (self-reference)
                avail = [nm for nm, r in self.modenvs[j].items() if not is_dunder(nm) and not (is_top_init and self.is_top_ref(r))]
                if not avail:
                    continue
                names = []
                for nm in sorted(set(d(st.lists(st.sampled_from(avail), min_size=1, max_size=3)))):
                    ref = self.modenvs[j][nm]
                    asname = None
                    # re-imported `functools` / `cached_property` always get another name: rebinding the name the
                    # decorators of this module use would make decorator resolution (not the skeleton) the subject
                    if nm in env or self.chance(30) or nm == TOP or ref["k"] in ("extmodule", "extclass"):
                        asname = self.fresh(AS_MOD if ref["k"] in ("module", "pkgroot", "submodule", "extmodule") else AS_OBJ, env)
                        if asname is None:
                            continue
                    if ref["k"] == "pkgroot":
                        # `from .b import pkg as amod`: a plain module alias of the top-level package; its names are
                        # usable only if the top-level __init__ has completed before this module runs
                        ref = {"k": "module", "idx": self.top_idx} if self.top_idx < i else {"k": "opaque"}
                    elif ref["k"] == "submodule":
                        ref = {"k": "module", "idx": ref["idx"]}
                    env[asname or nm] = ref
                    names.append([nm, asname])
                if names:
                    items.append({"t": "from", "mod": j, "rel": self.chance(50), "names": names, "up": self.climb()})
                    self.maybe_try(items[-1], [a or n for n, a in names if (a or n) != TOP])
            elif form == "frommod":
                last = tgt["path"][-1]
                parent_is_me = self.mods[i]["init"] and self.mods[i]["path"] == tgt["path"][:-1]
                asname = None
                if last in env or self.chance(40):
                    asname = self.fresh(AS_MOD, env)
                    if asname is None:
                        continue
                if parent_is_me and asname is None:
                    # `from . import a` inside the parent's __init__: the sub-module itself (no alias on either side)
                    env[last] = {"k": "submodule", "idx": j}
                else:
                    env[asname or last] = {"k": "module", "idx": j}
                items.append({"t": "frommod", "mod": j, "rel": self.chance(50), "as": asname, "up": self.climb()})
                if not (parent_is_me and asname is None):
                    self.maybe_try(items[-1], [asname or last])
            elif form == "import":
                asname = None
                if is_top_init or TOP in env or self.chance(50) or not tgt["path"]:
                    asname = self.fresh(AS_MOD, env)
                    if asname is None:
                        continue
                if asname is None:
                    # `pkg.sub.d.K` is usable in a base-class expression only once `pkg.sub` is bound on `pkg`, i.e.
                    # after the sub-package __init__ has completed
                    anc = [k for k, m in enumerate(self.mods) if m["init"] and m["path"] and m["path"] == tgt["path"][: len(m["path"])] and m is not tgt]
                    usable = all(k < i for k in anc)
                    env[TOP] = {"k": "pkgroot", "subs": [j] if usable else []}
                else:
                    env[asname] = {"k": "module", "idx": j}
                items.append({"t": "import", "mod": j, "as": asname})
                if asname is not None:
                    self.maybe_try(items[-1], [asname])
            else:  # star
                src = self.modenvs[j]
                exported = self.mods[j].get("_all")
                if exported is None:
                    exported = [nm for nm in src if not nm.startswith("_")]
                if any(nm in env for nm in exported) or (is_top_init and any(self.is_top_ref(src[nm]) for nm in exported)):
                    continue
                for nm in exported:
                    env[nm] = src[nm]
                items.append({"t": "star", "mod": j, "rel": self.chance(50), "up": self.climb()})
        return items

    def module(self, i: int, layout_pkg: bool) -> None:
        d = self.draw
        meta = self.mods[i]
        is_top_init = meta["init"] and not meta["path"]
        allow_none = self.feats["none_attr"]
        env: dict = {}
        typing = self.chance(40)
        meta["typing"] = typing
        if typing:
            # names bound by the typing header (reserved before the imports are drawn: nothing rebinds them)
            env.update({"Generic": {"k": "extclass"}, "Protocol": {"k": "extclass"}, "TypeVar": {"k": "extclass"}, "T": {"k": "typevar"}})
        self.sentinels = self.chance(35)
        meta["sentinels"] = self.sentinels
        if self.sentinels:
            env.update({"_MISSING": {"k": "sentinel"}, "_Marker": {"k": "sentinelclass"}, "_UNSET": {"k": "sentinel"}})
        body = self.imports(i, env, is_top_init, layout_pkg)
        uses_functools = False
        uses_cached = False
        for _ in range(d(st.integers(0, 5))):
            what = d(st.integers(0, 9))
            if what <= 2:
                n = self.fresh(MOD_FUNCS, env)
                if n is None:
                    continue
                f = self.func(n, None, None)
                body.append(f)
                env[n] = {"k": "func"}
            elif what <= (7 if typing else 6):
                n = self.fresh(MOD_CLASSES, env)
                if n is None:
                    continue
                item, cid = self.klass(n, env, 0, allow_none, typing)
                body.append(item)
                env[n] = {"k": "class", "id": cid}
            elif what <= 8:
                n = self.fresh(MOD_ATTRS, env)
                if n is None:
                    continue
                body.append({"t": "attr", "name": n, "value": self.value(allow_none)})
                env[n] = {"k": "value"}
            elif self.feats["redef"]:
                prev = [nm for nm, r in env.items() if r["k"] in ("func", "value") and nm != TOP]
                if not prev:
                    continue
                n = self.pick(prev)
                if self.chance(50):
                    body.append({"t": "attr", "name": n, "value": self.value(allow_none)})
                    env[n] = {"k": "value"}
                else:
                    body.append(self.func(n, None, None))
                    env[n] = {"k": "func"}

        def scan(items):
            nonlocal uses_functools, uses_cached
            for it in items:
                if it["t"] == "func":
                    uses_functools |= it["deco"] == "fcached_property"
                    uses_cached |= it["deco"] == "cached_property"
                elif it["t"] == "class":
                    scan(it["body"])

        if self.chance(30):
            names = self.explicit_names(body)
            for _ in range(d(st.integers(1, 2)) if names else 0):
                body.append(self.iffalse(self.pick(names)))

        scan(body)
        # header imports the renderer adds (bound names, visible to wildcard imports of later modules)
        if uses_functools:
            env["functools"] = {"k": "extmodule"}
        if uses_cached:
            env["cached_property"] = {"k": "extclass"}
        if not meta["init"] and self.chance(20):
            own = [nm for nm, r in env.items() if nm != TOP and r["k"] in ("func", "class", "value", "module")]
            if own:
                names = sorted(set(d(st.lists(st.sampled_from(own), min_size=1, max_size=3))))
                body.append({"t": "all", "names": names})
                env["__all__"] = {"k": "value"}
                meta["_all"] = names
        meta["body"] = body
        meta["doc"] = self.doc()
        self.modenvs.append(env)

    def package_block(self, path: list[str], depth: int) -> list[dict]:
        """Modules of the package at `path` in import order. Units of the order: the plain modules, the package __init__, and
        the (recursively built) sub-package as ONE contiguous block. Every explicit import goes to an earlier module, so with
        contiguous blocks the stack of executing modules is strictly decreasing in this order (an implicitly started
        ancestor __init__ of an import target lies in the target's block, hence before the importer): no module ever needs
        a name from a module that is still executing. Nesting goes down to pkg/sub/deep/core (depth 3)."""
        d = self.draw
        n_plain = d(st.integers(0, LEVEL_MAX_PLAIN[depth]))
        names = list(d(st.permutations(LEVEL_MODS[depth])))[:n_plain]
        if self.chance(30):
            # an underscore pair such as schema.py / schema_.py (never a / _a: the inspector treats those as one module)
            pair = list(self.pick(LEVEL_TWINS[depth]))
            names = [n for n in names if n.lstrip("_") not in {p.lstrip("_") for p in pair}][: max(0, LEVEL_MAX_PLAIN[depth] - 2)] + pair
            names = list(d(st.permutations(names)))
        assert len({n.lstrip("_") for n in names}) == len(names)
        units: list[list[dict]] = [[{"path": [*path, n], "init": False}] for n in names]
        units.append([{"path": list(path), "init": True}])
        if depth < 3 and self.chance(LEVEL_SUBPKG_PCT[depth]):
            units.append(self.package_block([*path, self.pick(LEVEL_PKGS[depth])], depth + 1))
        return [m for unit in d(st.permutations(units)) for m in unit]

    def build(self) -> dict:
        d = self.draw
        layout = self.pick(["module", "package", "package", "package", "package", "package"])
        if layout == "module":
            self.mods = [{"path": [], "init": False}]
            self.top_idx = 0
        else:
            self.mods = self.package_block([], 0)
            self.top_idx = next(i for i, m in enumerate(self.mods) if m["init"] and not m["path"])
        for i in range(len(self.mods)):
            self.module(i, layout == "package")
        mods = [{"path": m["path"], "init": m["init"], "doc": m["doc"], "body": m["body"], "typing": m["typing"], "sentinels": m["sentinels"]} for m in self.mods]
        return {"kind": "pkg", "layout": layout, "mods": mods}


def cases(feats: dict | None = None):
    """Strategy of cases."""
    f = dict(DEFAULT_FEATS)
    f.update(feats or {})

    @st.composite
    def _cases(draw):
        return _Builder(draw, f).build()

    return _cases()


# ----------------------------------------------------------------------------- renderer
def _render_params(params: list[dict]) -> str:
    parts: list[str] = []
    n_po = sum(1 for p in params if p["k"] == "po")
    seen_star = False
    for i, p in enumerate(params):
        text = p["n"]
        if p.get("a"):
            text += f": {p['a']}"
        if p.get("d") is not None:
            text += (" = " if p.get("a") else "=") + p["d"]
        k = p["k"]
        if k == "va":
            parts.append("*" + text)
            seen_star = True
        elif k == "vk":
            parts.append("**" + text)
        elif k == "ko":
            if not seen_star:
                parts.append("*")
                seen_star = True
            parts.append(text)
        else:
            parts.append(text)
            if k == "po" and i == n_po - 1:
                parts.append("/")
    return ", ".join(parts)


def rel_parts(me: dict, path: list[str], up: int = 0) -> tuple[int, list[str]]:
    """(number of leading dots, remaining dotted parts) of a relative import of `path` written in module `me`; `up` extra
    packages are climbed beyond the nearest common one (bounded by the top-level package)."""
    pkg = me["path"] if me["init"] else me["path"][:-1]  # package that contains `me`
    common = 0
    while common < len(pkg) and common < len(path) and pkg[common] == path[common]:
        common += 1
    common = max(0, common - up)
    return len(pkg) - common + 1, path[common:]


def _render_base(parts: list[str], top: str) -> str:
    sub = ""
    if parts[-1].startswith("["):
        parts, sub = parts[:-1], parts[-1]
    return ".".join(top if p == TOP else p for p in parts) + sub


def _render_items(items: list[dict], ind: str, top: str, mods: list[dict], me: dict, out: list[str]) -> None:
    for it in items:
        t = it["t"]
        if t == "attr":
            out.append(f"{ind}{it['name']} = {it['value']}")
        elif t == "all":
            out.append(f"{ind}__all__ = {it['names']!r}")
        elif t == "iffalse":
            out.append(f"{ind}if {it['cond']}:")
            if it["else"]:
                out.append(f"{ind}    pass")
                out.append(f"{ind}else:")
            out.append(f"{ind}    {it['name']} = {it['value']}")
        elif t == "func":
            deco = it["deco"]
            if deco == "fcached_property":
                out.append(f"{ind}@functools.cached_property")
            elif deco:
                out.append(f"{ind}@{deco}")
            kw = "async def" if it["async"] else "def"
            ret = f" -> {it['ret']}" if it["ret"] else ""
            out.append(f"{ind}{kw} {it['name']}({_render_params(it['params'])}){ret}:")
            body = []
            if it["doc"] is not None:
                body.append(repr(it["doc"]))
            for a in it["init_attrs"]:
                body.append(f"self.{a} = 0")
            for chain in it.get("init_chains", ()):
                body.append("self." + ".".join(chain) + " = 0")
            if not body:
                body.append("pass")
            out.extend(f"{ind}    {b}" for b in body)
            if it["setter"]:
                out.append(f"{ind}@{it['name']}.setter")
                out.append(f"{ind}def {it['name']}(self, value):")
                out.append(f"{ind}    pass")
        elif t == "class":
            bases = ", ".join(_render_base(b, top) for b in it["bases"])
            out.append(f"{ind}class {it['name']}({bases}):" if bases else f"{ind}class {it['name']}:")
            if it["doc"] is not None:
                out.append(f"{ind}    {it['doc']!r}")
            if not it["body"] and it["doc"] is None:
                out.append(f"{ind}    pass")
            _render_items(it["body"], ind + "    ", top, mods, me, out)
        else:
            tgt = mods[it["mod"]]
            absolute = dotted(top, tgt["path"])

            def rel(path: list[str]) -> str:
                level, rest = rel_parts(me, path, it.get("up", 0))
                return "." * level + ".".join(rest)

            if t == "from":
                names = ", ".join((top if n == TOP else n) + (f" as {a}" if a else "") for n, a in it["names"])
                src = rel(tgt["path"]) if it["rel"] else absolute
                stmt = f"from {src} import {names}"
            elif t == "star":
                src = rel(tgt["path"]) if it["rel"] else absolute
                stmt = f"from {src} import *"
            elif t == "frommod":
                parent = tgt["path"][:-1]
                src = rel(parent) if it["rel"] else dotted(top, parent)
                stmt = f"from {src} import {tgt['path'][-1]}" + (f" as {it['as']}" if it["as"] else "")
            else:
                stmt = f"import {absolute}" + (f" as {it['as']}" if it["as"] else "")
            if it.get("try"):
                out.append(f"{ind}try:")
                out.append(f"{ind}    {stmt}")
                out.append(f"{ind}except ImportError:")
                out.extend(f"{ind}    {n} = {v}" for n, v in it["try"].items())
            else:
                out.append(f"{ind}{stmt}")


def _uses(items: list[dict], deco: str) -> bool:
    for it in items:
        if it["t"] == "func" and it["deco"] == deco:
            return True
        if it["t"] == "class" and _uses(it["body"], deco):
            return True
    return False


def render(case: dict, top: str) -> dict[str, str]:
    """Relative file path -> source text."""
    files: dict[str, str] = {}
    mods = case["mods"]
    for m in mods:
        out: list[str] = []
        if m["doc"] is not None:
            out.append(repr(m["doc"]))
        if m.get("typing"):
            out.append("from typing import Generic, Protocol, TypeVar")
            out.append('T = TypeVar("T")')
        if m.get("sentinels"):
            out += ["_MISSING = object()", "class _Marker:", "    pass", "_UNSET = _Marker()"]
        if _uses(m["body"], "fcached_property"):
            out.append("import functools")
        if _uses(m["body"], "cached_property"):
            out.append("from functools import cached_property")
        _render_items(m["body"], "", top, mods, m, out)
        text = "\n".join(out) + "\n"
        if case["layout"] == "module":
            rel = f"{top}.py"
        elif m["init"]:
            rel = "/".join([top, *m["path"], "__init__.py"])
        else:
            rel = "/".join([top, *m["path"]]) + ".py"
        files[rel] = text
    return files


# ----------------------------------------------------------------------------- facts derived from the model
def source_facts(case: dict, top: str) -> dict[str, dict]:
    """Scope path -> {"defined": names bound by the source at that level, "init_only": names only assigned as self.x in __init__}."""
    facts: dict[str, dict] = {}

    def scope(path: str, items: list[dict], is_class: bool) -> None:
        defined: set[str] = set()
        init_attrs: set[str] = set()
        for it in items:
            t = it["t"]
            if t in ("attr", "func", "class"):
                defined.add(it["name"])
                if t == "func":
                    init_attrs |= set(it["init_attrs"])
                if t == "class":
                    scope(f"{path}.{it['name']}", it["body"], True)
            elif t == "all":
                defined.add("__all__")
        facts[path] = {"defined": defined, "init_only": init_attrs - defined}

    for m in case["mods"]:
        scope(dotted(top, m["path"]), m["body"], False)
        if m.get("typing"):
            facts[dotted(top, m["path"])]["defined"] |= {"T", "Generic", "Protocol", "TypeVar"}
    return facts


def describe(case: dict):
    """(non-trivial key | None, classes, sample | None) for the evidence histogram."""
    cls: set[str] = set()
    mods = case["mods"]
    cls.add(f"layout:{case['layout']}")
    plain_paths = {tuple(m["path"]) for m in mods if m["path"]}
    twins = {p for p in plain_paths for q in plain_paths if p != q and p[:-1] == q[:-1] and p[-1].strip("_") == q[-1].strip("_")}
    if twins:
        cls.add("modules:trailing-underscore-pair")
        if any(it["t"] in ("from", "star", "frommod", "import") and tuple(m["path"]) in twins and tuple(mods[it["mod"]]["path"]) in twins
               and tuple(m["path"])[:-1] == tuple(mods[it["mod"]]["path"])[:-1] and m["path"][-1].strip("_") == mods[it["mod"]]["path"][-1].strip("_")
               for m in mods for it in m["body"]):
            cls.add("modules:import-between-underscore-pair")
    cls.add(f"modules:{len(mods)}")
    if any(m["init"] and m["path"] for m in mods):
        cls.add("subpackage")
    cur = mods[0]
    module_names: set[str] = set()
    n_imports = 0
    max_flavours = 0

    def walk(items, depth, in_class):
        nonlocal n_imports, max_flavours
        flav: set[str] = set()
        names: list[str] = []
        siblings_seen: set[str] = set()  # nested classes defined earlier in this class body
        for it in items:
            t = it["t"]
            if t in ("from", "frommod", "import", "star"):
                n_imports += 1
                cls.add(f"import:{t}")
                if t == "from" and any(a for _, a in it["names"]):
                    cls.add("import:from-as")
                if t in ("from", "star", "frommod") and it["rel"]:
                    cls.add("import:relative")
                    tpath = mods[it["mod"]]["path"]
                    level, _ = rel_parts(cur, tpath[:-1] if t == "frommod" else tpath, it.get("up", 0))
                    cls.add(f"import:relative-level{level}")
                    if level >= 2 and cur["init"] and len(cur["path"]) >= 2:
                        cls.add("import:relative-level>=2-in-nested-__init__")
                if mods[it["mod"]]["init"]:
                    cls.add("import:from-init")
                if it.get("try"):
                    cls.add("cond:try-import-fallback")
            elif t == "all":
                cls.add("__all__")
            elif t == "iffalse":
                first = next((x for x in items if x is not it and (x.get("name") == it["name"] and x["t"] in ("attr", "func", "class"))), None)
                cls.add("cond:if-false-rebinding:" + (first["t"] if first else "import") + ("" if not in_class else "@class"))
                if it["else"]:
                    cls.add("cond:else-of-true")
            elif t == "attr":
                names.append(it["name"])
                cls.add("attr:class" if in_class else "attr:module")
                if it["value"] == "None":
                    cls.add("attr:None")
                if is_mangled(it["name"]) and in_class:
                    cls.add("mangled-name")
                if is_dunder(it["name"]):
                    cls.add("dunder:source-defined")
            elif t == "func":
                names.append(it["name"])
                if in_class:
                    fl = it["deco"] or "method"
                    if fl == "fcached_property":
                        fl = "cached_property"
                    flav.add(fl)
                    cls.add(f"flavour:{fl}")
                else:
                    cls.add("function:module")
                if it["async"]:
                    cls.add("async")
                if it["setter"]:
                    cls.add("property-setter")
                if it.get("init_chains"):
                    cls.add("init-chained-target-through-member")
                if it["init_attrs"]:
                    cls.add("init-assigned-attrs")
                if is_mangled(it["name"]) and in_class:
                    cls.add("mangled-name")
                if is_dunder(it["name"]):
                    cls.add("dunder:source-defined")
                pks = [p for p in it["params"] if p["k"] == "pk"]
                nd = sum(1 for p in pks if p["d"] is not None)
                if any(p["k"] == "po" for p in it["params"]) and 0 < nd < len(pks):
                    cls.add("sig:posonly+partial-default-run")
                    if 2 * nd > len(pks):
                        cls.add("sig:posonly+partial-default-run>half")
                for p in it["params"]:
                    cls.add(f"param:{p['k']}" + ("=default" if p["d"] is not None else ""))
                    if p["a"]:
                        cls.add("param:annotated")
                    if p["d"] in SENTINELS:
                        cls.add("param:sentinel-default:" + p["k"])
                doc = it["doc"]
                if doc is not None:
                    cls.add("doc:function")
            elif t == "class":
                names.append(it["name"])
                cls.add("class:nested" if in_class else "class:module")
                if it["doc"] is not None:
                    cls.add("doc:class")
                if it.get("orig") == "inherited":
                    cls.add("generic:unsubscripted-descendant")
                    if len(it["bases"]) > 1:
                        cls.add("generic:unsubscripted-descendant-multi-base")
                if it["bases"]:
                    cls.add(f"bases:{len(it['bases'])}")
                    for b in it["bases"]:
                        sub = b[-1] if b[-1].startswith("[") else None
                        plain = b[:-1] if sub else b
                        if plain == ["Generic"]:
                            cls.add("generic:Generic[T]-base")
                        elif plain == ["Protocol"]:
                            cls.add("generic:Protocol[T]-base" if sub else "generic:Protocol-base")
                        elif in_class and plain[0] in siblings_seen:
                            cls.add("base:sibling-nested")
                            if plain[0] in module_names:
                                cls.add("base:sibling-nested-shadows-module-name")
                        else:
                            cls.add("base:dotted" if len(plain) > 1 else "base:name")
                            if in_class:
                                cls.add("base:nested-from-module-scope")
                            if sub:
                                cls.add("generic:subscripted-base" + ("[T]" if sub == "[T]" else "[type]"))
                walk(it["body"], depth + 1, True)
                if in_class:
                    siblings_seen.add(it["name"])
            if t in ("func", "class") and it.get("doc"):
                d = it["doc"]
                if d.startswith("\n"):
                    cls.add("doc:leading-newline")
                if "\n" in d.strip("\n"):
                    cls.add("doc:multi-line")
                if "\t" in d:
                    cls.add("doc:tab")
        if len(names) != len(set(names)):
            cls.add("redefinition")
        if in_class:
            max_flavours = max(max_flavours, len(flav))

    cls.add(f"depth:{max(len(m['path']) for m in mods if m['init'] or not m['path']) if case['layout'] == 'package' else 0}")
    for m in mods:
        cur = m
        module_names = {it["name"] for it in m["body"] if it["t"] in ("class", "func", "attr")}
        for it in m["body"]:
            if it["t"] == "from":
                module_names |= {a or n for n, a in it["names"]}
        if m.get("sentinels"):
            cls.add("sentinel-header")
        if m.get("typing"):
            cls.add("typing-header")
        if m["doc"] is not None:
            cls.add("doc:module")
        walk(m["body"], 0, False)
    if n_imports:
        cls.add("intra-package-import")
    nontrivial = len(mods) >= 2 and n_imports >= 1 and max_flavours >= 2
    if nontrivial:
        cls.add("NONTRIVIAL")
    sample = None
    if nontrivial and len(mods) <= 3:
        sample = {"files": render(case, "pkg")}
    return (case if nontrivial else None), sorted(cls), sample
