"""C04 generator: an importable package (vp/gen/c05_pkg.py) enriched with *scope classes* and *reference sites*.

  scope classes   module-level classes with fresh names (S<i>_<k>) whose members (attributes, functions, decorator
                  functions, nested classes up to depth 3) take their names from the same 8-name pool as the module
                  globals and imports, so the same identifier is routinely bound at two or three scope levels
  reference sites statements with fresh names (r<i>_<n>) that mention a bare name or a dotted chain in a stored
                  expression: attribute annotation / value, string annotation (not evaluated), parameter annotation,
                  parameter default, return annotation, base class, decorator; at module level and inside (nested)
                  class bodies

Every *evaluated* site only mentions names that Python can evaluate at that point (the sequential simulation of
c05_pkg decides that; CPython itself raises if it is wrong, which is reported as a harness error).  What each
expression evaluates to is read from CPython after the import.  String annotations may mention anything, also unknown
identifiers and names that only an enclosing class defines.

For every candidate expression the generator also runs a *model of Griffe's documented lookup* (`Object.resolve`:
members of the current object, then "name equals the parent's name", then the parent, using final members) next to
Python's rule (class body so far, module globals so far, builtins) and labels the candidate

    agree                both rules pick the same binding statement
    outer-class-scope    Griffe's rule stops in an enclosing class (or at the enclosing class's own name), which Python
                         never searches
    definition-order     both rules look in the same scopes but the binding Python sees at that point is not the final
                         one (name re-bound later, or bound in the class body only after the site)

The labels are used (a) to steer away from listed known findings by construction, (b) as the narrow predicate that
attributes a failure to such a finding, (c) as class labels in the evidence.  They never decide a verdict.
"""

from __future__ import annotations

from hypothesis import strategies as st

from vp.gen import c05_pkg as G

BUILTINS = ("int", "str", "object", "len")
BUILTIN_CLASSES = ("int", "str", "object")
UNKNOWN = ("Unk", "zz_q")
MEMBER_NAMES = G.OBJ_NAMES
SLUG_OUTER = "outer-class-scope"
SLUG_ORDER = "definition-order"
SLUG_PKG = "parent-package-scope"
KNOWN_STEERING = (SLUG_OUTER, SLUG_ORDER, SLUG_PKG)


def is_scope_class_name(n: str) -> bool:
    return len(n) > 3 and n[0] == "S" and n[1].isdigit() and "_" in n


def inherited_attrs(chain, mod_ns) -> set:
    """Names defined by the (generated) base classes of the enclosing classes, looked up through the module namespace."""
    out: set = set()
    for c in chain:
        todo = list(c.get("bases", ()))
        depth = 0
        while todo and depth < 4:
            node = (mod_ns.get(todo.pop()) or {}).get("node")
            depth += 1
            if node is not None and node.get("t") == "class":
                out |= set(_class_attrs(node))
                todo += list(node.get("bases", ()))
    return out


def is_site_name(n: str) -> bool:
    return len(n) > 2 and n[0] == "r" and n[1].isdigit()


# ------------------------------------------------------------------------------------------------ scope model
def last_binding(body, name, upto=None):
    """(statement, index) of the last class/def/val statement binding `name` in body[:upto]."""
    found = None
    for j, st_ in enumerate(body if upto is None else body[:upto]):
        if st_["t"] in ("class", "def", "val") and st_["name"] == name:
            found = (st_, j)
    return found


def stmt_kind(st_) -> str:
    return "deco" if st_.get("deco") else st_["t"]


def python_lookup(name, chain, pos, mod_ns_point, final: bool, mod_ns_final):
    """Python's rule. chain = enclosing class statements (outermost first), pos = position in the innermost body.
    final=True: lazily evaluated (string) annotation: final class namespace, final module namespace."""
    if chain:
        hit = last_binding(chain[-1]["body"], name, None if final else pos)
        if hit:
            return ("class", len(chain) - 1, hit[0], hit[1])
    ns = mod_ns_final if final else mod_ns_point
    if name in ns:
        return ("module", ns[name])
    if name in BUILTINS:
        return ("builtin",)
    return None


def griffe_model_lookup(name, chain, mod_ns_final, pkg_scopes=()):
    """Model of Object.resolve on final members (documentation of the known findings; never the oracle)."""
    for d in range(len(chain) - 1, -1, -1):
        hit = last_binding(chain[d]["body"], name)
        if hit:
            return ("class", d, hit[0], hit[1])
        if d >= 1 and name == chain[d - 1]["name"]:
            return ("parent-name", d - 1)
    if name in mod_ns_final:
        return ("module", mod_ns_final[name])
    # Object.resolve keeps walking: from the module into its parent package(s) (their members and sub-modules)
    for anc_mod, anc_ns, anc_children in pkg_scopes:
        if name in anc_ns:
            return ("package", anc_mod, anc_ns[name])
        if name in anc_children:
            return ("package-child", anc_mod)
    return None


def package_scopes(case, full_sim, path) -> list:
    """[(module dict, final namespace, sub-module names)] of the ancestor packages of module `path`, nearest first."""
    by_path = {m["path"]: m for m in case["mods"]}
    out = []
    for anc in G.ancestors(path):
        ns = full_sim[anc]["ns"] if anc in full_sim else {}
        out.append((by_path[anc], ns, {G.base_name(c) for c in G.children(case, anc)}))
    return out


def binding_path(mod, info, name) -> str:
    """One-hop path (with $TOP placeholder) that a module-level binding gives to `name`."""
    base = "$TOP" + ("." + mod["path"] if mod["path"] else "")
    how = info["how"]
    if how == "local":
        return f"{base}.{name}"
    if how == "wild":
        return "$TOP" + ("." + info["via"] if info.get("via") else "") + "." + name if "via" in info else "$TOP." + info["origin"]
    stmt = info.get("stmt")
    if how == "import":
        return "$TOP" + ("." + stmt["mod"] if stmt.get("as") and stmt["mod"] else "")
    src = "$TOP" + ("." + stmt["mod"] if stmt["mod"] else "")
    for n, a in reversed(stmt["names"]):  # `from m import x, y as x`: the last one wins
        if (a or n) == name:
            return f"{src}.{n}"
    return f"{base}.{name}"


def _lookup_path(found, chain, mod, name):
    if found is None or found[0] == "builtin":
        return None
    base = "$TOP" + ("." + mod["path"] if mod["path"] else "")
    if found[0] == "class":
        return ".".join([base, *[c["name"] for c in chain[: found[1] + 1]], name])
    if found[0] == "parent-name":
        return ".".join([base, *[c["name"] for c in chain[: found[1] + 1]]])
    if found[0] == "package":
        return binding_path(found[1], found[2], name)
    if found[0] == "package-child":
        return "$TOP" + ("." + found[1]["path"] if found[1]["path"] else "") + "." + name
    return binding_path(mod, found[1], name)


def label_of(py, gr, chain, mod, name) -> str:
    """agree iff Python's binding and the modelled Griffe lookup yield the same one-hop path."""
    if _lookup_path(py, chain, mod, name) == _lookup_path(gr, chain, mod, name):
        return "agree"
    if gr is not None and (gr[0] == "parent-name" or (gr[0] == "class" and gr[1] < len(chain) - 1)):
        return SLUG_OUTER
    if gr is not None and gr[0] in ("package", "package-child"):
        return SLUG_PKG
    return SLUG_ORDER


def local_namespace(case, mod, sim, paths, pkgs, local_imports) -> dict:
    """Names bound by the import statements of a function body (same bookkeeping as a module body)."""
    return G._sim_module(case, {"path": mod["path"], "pkg": mod["pkg"], "body": list(local_imports)}, sim, paths, pkgs)["ns"]


def python_lookup_fn(name, local_ns, mod_ns_final):
    """Python's rule inside a method body: function locals, module globals (final: the method runs after the import),
    builtins. Class bodies are not searched."""
    if name in local_ns:
        return ("module", local_ns[name])
    if name in mod_ns_final:
        return ("module", mod_ns_final[name])
    if name in BUILTINS:
        return ("builtin",)
    return None


def griffe_model_lookup_fn(name, local_ns, chain, mod_ns_final, pkg_scopes=()):
    """Model of Function.resolve -> Object.resolve for the `__init__` of chain[-1]."""
    if name in local_ns:
        return ("module", local_ns[name])
    if name == chain[-1]["name"]:
        return ("parent-name", len(chain) - 1)
    return griffe_model_lookup(name, chain, mod_ns_final, pkg_scopes)


def label_fn(py, gr, chain, mod, name) -> str:
    if _lookup_path(py, chain, mod, name) == _lookup_path(gr, chain, mod, name):
        return "agree"
    if gr is not None and gr[0] in ("class", "parent-name"):
        return SLUG_OUTER  # any class body is an outer scope Python does not search from a method
    if gr is not None and gr[0] in ("package", "package-child"):
        return SLUG_PKG
    return SLUG_ORDER


def _justified_fn(case, mod, local_imports, root) -> list:
    fake = {"path": mod["path"], "pkg": mod["pkg"], "body": list(local_imports)}
    return _justified(case, fake, None, [], root) + _justified(case, {**mod, "pkg": False}, None, [], root)


def site_id(st_, site) -> str:
    return site.get("id") or st_["name"]


def _justified(case, mod, final, chain, root) -> list:
    """Paths (with the $TOP placeholder) that a definition or an import statement in a scope Python searches from this
    site justifies for the identifier `root` (order-insensitive: any binding of the name in those scopes)."""
    base = "$TOP" + ("." + mod["path"] if mod["path"] else "")
    out = []
    if chain and last_binding(chain[-1]["body"], root):
        out.append(".".join([base, *[c["name"] for c in chain], root]))
    for st_ in mod["body"]:
        t = st_["t"]
        if t in ("class", "def", "val") and st_["name"] == root:
            out.append(f"{base}.{root}")
        elif t == "import":
            if st_.get("as") == root:
                out.append("$TOP" + ("." + st_["mod"] if st_["mod"] else ""))
            elif not st_.get("as") and root == "$TOP":
                out.append("$TOP")
        elif t == "from":
            src = "$TOP" + ("." + st_["mod"] if st_["mod"] else "")
            if st_["names"] == "*":
                out.append(f"{src}.{root}")
            else:
                out += [f"{src}.{n}" for n, a in st_["names"] if (a or n) == root]
    if mod["pkg"] and any(G.base_name(c) == root for c in G.children(case, mod["path"])):
        out.append(f"{base}.{root}")
    return out


def site_info(case) -> dict:
    """{site id: {what: {"label": ..., "justified": [...]}}} recomputed from a finished case (used by the check for the
    `justified` clause, by the KNOWN predicates and by describe)."""
    out = {}
    sim: dict = {}
    paths = {m["path"] for m in case["mods"]}
    pkgs = {m["path"] for m in case["mods"] if m["pkg"]}
    full = G.simulate(case)
    for mod in case["mods"]:
        final = G._sim_module(case, mod, sim, paths, pkgs)
        sim[mod["path"]] = final
        scopes = package_scopes(case, full, mod["path"])

        def walk(body, chain, top_index):
            for j, st_ in enumerate(body):
                idx = j if not chain else top_index
                if "sites" in st_:
                    # module-level view at the position of the outermost statement
                    point = G._sim_module(case, {**mod, "body": mod["body"][:idx]}, sim, paths, pkgs)["ns"]
                    local_ns = None
                    for site in st_["sites"]:
                        if site["what"] in ("strcall", "literal"):
                            out.setdefault(st_["name"], {})[site["what"]] = {"label": "agree", "justified": []}
                            continue
                        if site["what"].startswith("init"):
                            if local_ns is None:
                                local_ns = local_namespace(case, mod, sim, paths, pkgs, st_.get("local_imports", ()))
                            root = site["expr"].split(".")[0]
                            py = python_lookup_fn(root, local_ns, final["ns"])
                            gr = griffe_model_lookup_fn(root, local_ns, chain, final["ns"], scopes)
                            out.setdefault(site["id"], {})[site["what"]] = {
                                "label": label_fn(py, gr, chain, mod, root),
                                "justified": _justified_fn(case, mod, st_.get("local_imports", ()), root),
                            }
                            continue
                        root = site["expr"].split(".")[0]
                        lazy = site["what"] == "str"
                        py = python_lookup(root, chain, j, point, lazy, final["ns"])
                        gr = griffe_model_lookup(root, chain, final["ns"], scopes)
                        out.setdefault(st_["name"], {})[site["what"]] = {
                            "label": label_of(py, gr, chain, mod, root),
                            "justified": _justified(case, mod, final, chain, root),
                        }
                if st_["t"] == "class" and "sites" not in st_:
                    walk(st_.get("body", []), [*chain, st_], idx)

        walk(mod["body"], [], 0)
    return out


def site_labels(case) -> dict:
    return {k: {w: i["label"] for w, i in v.items()} for k, v in site_info(case).items()}


# ------------------------------------------------------------------------------------------------ strategies
def _members(draw, depth: int, serial: list, own: str = "") -> list:
    out = []
    for _ in range(draw(st.integers(1, 4))):
        serial[0] += 1
        kind = draw(st.sampled_from(("val", "val", "def", "deco", "class")))
        name = draw(st.sampled_from(MEMBER_NAMES))
        if depth == 1 and own and draw(st.integers(0, 7)) == 7:
            name = own  # a member named like its (top-level) class: the "name equals the parent's name" rule matters
        if kind == "class":
            sub = _members(draw, depth + 1, serial) if depth < 2 and draw(st.booleans()) else []
            out.append({"t": "class", "name": name, "serial": serial[0], "body": sub})
        elif kind == "deco":
            out.append({"t": "def", "name": name, "serial": serial[0], "deco": True})
        elif kind == "def":
            out.append({"t": "def", "name": name, "serial": serial[0], "params": draw(st.sampled_from(("self", "self, x=1")))})
        else:
            out.append({"t": "val", "name": name, "serial": serial[0]})
    return out


def _class_attrs(node) -> dict:
    """Final attributes of a generated class statement: {name: statement} (sites excluded)."""
    out = {}
    for st_ in node.get("body", ()):
        if st_["t"] in ("class", "def", "val") and "sites" not in st_:
            out[st_["name"]] = st_
    return out


def _extend_chain(draw, case, sim, importer_path, text, kind, info, node, want):
    """Optionally append attribute segments to a root reference. Returns (text, end kind, n_segments, via_module)."""
    segs = 0
    via_module = False
    while segs < 3:
        if kind == "module":
            origin = info.get("origin")
            if origin is None or origin not in sim:
                break
            names = [n for n in G.mentionable(case, sim, origin) if not sim[origin]["ns"][n].get("helper") and not is_site_name(n)]
            # `<top>.x` reads attributes of the (possibly still initialising) package objects: only go through the
            # module that an `import <top>.a.b` statement of this module has imported, in another branch of the tree
            if not names:
                break
            if want is not None:
                hits = [x for x in names if sim[origin]["ns"][x].get("kind") == want]
                if hits:
                    names = hits
            elif not draw(st.booleans()):
                break
            n = draw(st.sampled_from(names))
            ninfo = sim[origin]["ns"][n]
            text += "." + n
            kind, info, node = ninfo.get("kind", "val"), ninfo, ninfo.get("node")
            via_module = True
            segs += 1
        elif kind == "class" and node is not None:
            attrs = _class_attrs(node)
            if want is not None:
                hits = {k: v for k, v in attrs.items() if stmt_kind(v) == want}
                if not hits:
                    break
                attrs = hits
            elif not attrs or not draw(st.booleans()):
                break
            n = draw(st.sampled_from(sorted(attrs)))
            st_ = attrs[n]
            text += "." + n
            kind, info, node = stmt_kind(st_), {}, st_
            segs += 1
        else:
            break
        if want is not None and kind == want:
            break
    return text, kind, segs, via_module


@st.composite
def cases(draw, avoid: frozenset = frozenset(), on_excluded=None, max_mods: int = 5):
    case = draw(
        G.packages(
            max_mods=max_mods,
            max_stmts=5,
            weights=(4, 7, 14, 17, 20),
            all_forms=False,
            class_bodies=False,
            # C04 is not about the loader defects C05 found: stay away from all of them, listed or not, and use
            # wildcard imports only where the unpatched loader expands them in a correct order (plain modules)
            avoid=frozenset(G.KNOWN_STEERING),
            wild_plain_only=True,
            strict_taint=True,
            self_names=True,
            # a module may bind the name `annotations` by an ordinary import: that is not `from __future__ import
            # annotations`, its string annotations are still parsed and resolved
            # ... and `$TOP` (the top-level package's own name): `from .m import x as <top>` followed by a plain
            # `import <top>.m2` re-binds the name to the package
            extra_names=("annotations", "$TOP"),
            deco_defs=True,
        )
    )
    paths = {m["path"] for m in case["mods"]}
    pkgs = {m["path"] for m in case["mods"] if m["pkg"]}
    sim: dict = {}
    presim = G.simulate(case)  # the pool names of every module are final here (enrichment only adds fresh names)
    for i, mod in enumerate(case["mods"]):
        serial = [100]
        body = mod["body"]
        scopes = package_scopes(case, presim, mod["path"])
        # ---- phase 1: scope classes (fresh module-level names, members from the shared pool)
        for k in range(draw(st.integers(0, 2))):
            at = draw(st.integers(0, len(body)))
            cls = {"t": "class", "name": f"S{i}_{k}", "serial": 0, "body": _members(draw, 1, serial, f"S{i}_{k}")}
            # inheritance: the base is a scope class visible here (defined earlier in this module, or imported);
            # Python never looks into a base class for a bare name used in the subclass body
            point0 = G._sim_module(case, {**mod, "body": body[:at]}, sim, paths, pkgs)["ns"]
            base_cands = sorted(n for n, inf in point0.items() if is_scope_class_name(n) and inf.get("kind") == "class" and inf.get("node") is not None)
            if base_cands and draw(st.integers(0, 2)) > 0:
                cls["bases"] = [draw(st.sampled_from(base_cands))]
            body.insert(at, cls)
        # an aliased import of typing.Literal under a fresh name (first statement of the module): strings inside
        # `Lit<i>[...]` are literal values, not forward references
        lit_name = f"Lit{i}" if draw(st.integers(0, 2)) == 0 else None
        if lit_name:
            body.insert(0, {"t": "raw", "text": f"from typing import Literal as {lit_name}"})
        final = G._sim_module(case, mod, sim, paths, pkgs)
        tolerated = G.tolerated_names(case, {**sim, mod["path"]: final}, mod["path"])
        counter = [0]

        def sites_for(scope_body, chain, top_index):
            """Site statements for one scope: list of (position, statement)."""
            new = []
            n_sites = draw(st.integers(0 if chain else 1, 3))
            for _ in range(n_sites):
                pos = draw(st.integers(0, len(scope_body)))
                idx = pos if not chain else top_index
                point = G._sim_module(case, {**mod, "body": body[:idx]}, sim, paths, pkgs)["ns"]
                what = draw(st.sampled_from(("ann", "val", "str", "func", "base", "deco", "ann", "str", "strcall")
                                            + (("literal", "literal") if lit_name else ())))
                if what == "literal" and not chain:
                    pos = max(pos, 1)  # after the import of Literal
                counter[0] += 1
                rid = f"r{i}_{counter[0]}"

                def pick(want=None, lazy=False):
                    """One expression: (text, label, features) or None."""
                    names = set(final["ns"]) | set(point) | set(BUILTINS)
                    for c in chain:
                        names |= set(_class_attrs(c))
                        names.add(c["name"])
                    inherited = inherited_attrs(chain, final["ns"])
                    names |= inherited
                    if lazy:
                        names |= set(UNKNOWN)
                        for _, anc_ns, anc_children in scopes:
                            names |= {x for x in anc_ns if x not in ("$TOP", "__all__")} | set(anc_children)
                    names -= tolerated
                    names.discard("__all__")
                    names = {x for x in names if not is_site_name(x)}
                    cands = []
                    for n in sorted(names):
                        py = python_lookup(n, chain, pos, point, lazy, final["ns"])
                        if py is None and not lazy:
                            continue  # NameError at import time
                        gr = griffe_model_lookup(n, chain, final["ns"], scopes)
                        lab = label_of(py, gr, chain, mod, n)
                        if lab in avoid:
                            if on_excluded is not None:
                                on_excluded(lab)
                            continue
                        cands.append((n, py, gr, lab))
                    if not cands:
                        return None
                    # choose a category first (imports are the interesting part), then a candidate
                    def cat(c):
                        if c[1] is None:
                            return "unknown"
                        if c[1][0] == "builtin":
                            return "builtin"
                        if c[1][0] == "module" and c[1][1]["how"] in ("from", "import", "wild"):
                            return "imported"
                        return "local"

                    groups: dict = {}
                    for c in cands:
                        groups.setdefault(cat(c), []).append(c)
                    # names equal to this module's own name / its parent package's name, bound at module level
                    own_names = {G.base_name(mod["path"]), G.base_name(G.parent_path(mod["path"]) or "")} - {""}
                    selfnamed = [c for c in cands if c[0] in own_names and c[1] is not None and c[1][0] == "module"]
                    order = draw(st.sampled_from((
                        ("imported", "local", "builtin", "unknown"), ("imported", "local", "builtin", "unknown"),
                        ("local", "imported", "builtin", "unknown"), ("local", "imported", "builtin", "unknown"),
                        ("builtin", "local", "imported", "unknown"), ("unknown", "imported", "local", "builtin"),
                    )))
                    pool = next(groups[g] for g in order if g in groups)
                    if selfnamed and draw(st.integers(0, 2)) == 0:
                        pool = selfnamed
                    # the top-level package's name when this module also binds it by `from ... import x as <top>` /
                    # `import ... as <top>` (re-bound by a plain `import <top>.m`)
                    if any(
                        (b_["t"] == "from" and b_["names"] != "*" and any(a_ == "$TOP" for _, a_ in b_["names"]))
                        or (b_["t"] == "import" and b_.get("as") == "$TOP")
                        for b_ in body
                    ):
                        tops = [c for c in cands if c[0] == "$TOP"]
                        if tops and draw(st.booleans()):
                            pool = tops
                    # names that a base class of an enclosing class defines and the class body itself does not
                    inh = [c for c in cands if c[0] in inherited and not (chain and last_binding(chain[-1]["body"], c[0]))]
                    if inh and draw(st.integers(0, 2)) == 0:
                        pool = inh
                    if want is not None:
                        # kind-restricted sites (bases, decorators): candidates of that kind, else ones a chain can start at
                        def rk(c):
                            if c[1] is None:
                                return None
                            if c[1][0] == "builtin":
                                return "class" if c[0] in BUILTIN_CLASSES else None
                            if c[1][0] == "class":
                                return stmt_kind(c[1][2])
                            return c[1][1].get("kind")

                        exact = [c for c in cands if rk(c) == want]
                        start = [c for c in cands if rk(c) in ("module", "class") and c[1][0] != "builtin"]
                        pool = exact if exact and (not start or draw(st.integers(0, 2)) < 2) else (start or cands)
                    n, py, gr, lab = draw(st.sampled_from(pool))
                    feats = []
                    levels = sum(
                        [
                            bool(chain and last_binding(chain[-1]["body"], n)),
                            any(last_binding(c["body"], n) for c in chain[:-1]),
                            n in final["ns"],
                            n in BUILTINS,
                        ]
                    )
                    if levels >= 2:
                        feats.append("shadowed")
                    text, kind, node, info = n, None, None, {}
                    if py is None:
                        feats.append("unknown")
                    elif py[0] == "builtin":
                        kind = "class" if n in BUILTIN_CLASSES else "builtin"
                        feats.append("builtin")
                    elif py[0] == "class":
                        kind, node = stmt_kind(py[2]), py[2]
                        feats.append("class-scope")
                    else:
                        info = py[1]
                        kind, node = info.get("kind", "val"), info.get("node")
                        how = info["how"]
                        feats.append("global:" + how)
                        stmt = info.get("stmt")
                        if stmt is not None and stmt["t"] == "from":
                            if stmt["level"] > 0:
                                feats.append(f"relative-import-level{stmt['level']}")
                            if any(a_ == n for _, a_ in stmt["names"]):
                                feats.append("import-as")
                        if stmt is not None and stmt["t"] == "import":
                            feats.append("import-as" if stmt.get("as") else "import-dotted")
                        if info.get("depth", 0) >= 2:
                            feats.append("re-export-chain")
                    if n in inherited and not (chain and last_binding(chain[-1]["body"], n)):
                        feats.append("inherited-name")
                    if n in own_names and py is not None and py[0] == "module":
                        feats.append("module-own-name" if n == G.base_name(mod["path"]) else "parent-package-name")
                    if n == "$TOP" and py is not None and py[0] == "module" and info.get("how") == "import" \
                            and not (info.get("stmt") or {}).get("as"):
                        # `<top>.a.b...`: go to the module imported by the `import <top>.a.b` statement that bound it,
                        # provided it lies in another branch of the tree (see _extend_chain)
                        stmt = info.get("stmt")
                        target = stmt["mod"] if stmt is not None else ""
                        me = mod["path"]
                        if target and (me == "" or target.split(".")[0] != me.split(".")[0]) and target in sim:
                            text = "$TOP." + target
                            info = {"origin": target}
                            kind = "module"
                            feats.append("dotted-module-path")
                        else:
                            kind = "module-top"
                    if kind in ("module", "class") and py is not None and py[0] != "builtin":
                        w = want if want is not None and kind != want else None
                        text, kind, segs, via_module = _extend_chain(draw, case, sim, mod["path"], text, kind, info, node, w)
                        if segs:
                            feats.append(f"chain{segs}")
                        if via_module:
                            feats.append("via-module-alias")
                    if want == "class" and kind != "class":
                        return None
                    if want == "deco" and kind != "deco":
                        return None
                    return text, lab, feats

                stmt = None
                if what == "literal":
                    scope_names = set(final["ns"])
                    for c in chain:
                        scope_names |= set(_class_attrs(c))
                    scope_names = sorted(x for x in scope_names if x not in ("$TOP", "__all__") and not is_site_name(x)) or ["zz"]
                    vals = draw(st.lists(st.sampled_from(scope_names), min_size=1, max_size=2))
                    if draw(st.integers(0, 3)) == 3:
                        vals[-1] = vals[-1] + "." + draw(st.sampled_from(scope_names))
                    text = f"{lit_name}[{', '.join(repr(v) for v in vals)}]"
                    stmt = {"t": "val", "name": rid, "ann": text, "value": "0",
                            "sites": [{"what": "literal", "expr": text, "label": "agree", "features": ["literal-strings"]}]}
                elif what == "strcall":
                    # an attribute chain hanging off a call or subscript result, in a string annotation (never evaluated):
                    # its segments have no static binding, whatever the enclosing scopes bind under those names
                    scope_names = set(final["ns"]) | inherited_attrs(chain, final["ns"])
                    for c in chain:
                        scope_names |= set(_class_attrs(c))
                    scope_names = sorted(x for x in scope_names if x not in ("$TOP", "__all__") and not is_site_name(x))
                    roots = sorted(x for x in set(scope_names) | set(UNKNOWN) | set(BUILTINS))
                    root = draw(st.sampled_from(roots))
                    attrs = draw(st.lists(st.sampled_from(scope_names or list(UNKNOWN)), min_size=1, max_size=2))
                    form = draw(st.sampled_from(("call", "call-arg", "subscript")))
                    arg = draw(st.sampled_from(scope_names)) if scope_names and form == "call-arg" else ""
                    head = f"{root}[0]" if form == "subscript" else f"{root}({arg})"
                    suffix = ".".join(attrs)
                    text = f"{head}.{suffix}"
                    stmt = {"t": "val", "name": rid, "ann": repr(text), "value": "0",
                            "sites": [{"what": "strcall", "expr": text, "suffix": suffix, "label": "agree",
                                       "features": ["subscript-root" if form == "subscript" else "call-root"]}]}
                elif what in ("ann", "val", "str"):
                    got = pick(lazy=(what == "str"))
                    if got:
                        text, lab, feats = got
                        site = {"what": what, "expr": text, "label": lab, "features": feats}
                        if what == "ann":
                            stmt = {"t": "val", "name": rid, "ann": text, "value": "0", "sites": [site]}
                        elif what == "str":
                            stmt = {"t": "val", "name": rid, "ann": repr(text), "value": "0", "sites": [site]}
                        else:
                            stmt = {"t": "val", "name": rid, "value": text, "sites": [site]}
                elif what == "func":
                    got = [pick(), pick(), pick()]
                    sites, params, returns = [], "", None
                    if got[0] or got[1]:
                        params = "p"
                        if got[0]:
                            params += ": " + got[0][0]
                            sites.append({"what": "param-ann", "expr": got[0][0], "label": got[0][1], "features": got[0][2]})
                        if got[1]:
                            params += " = " + got[1][0]
                            sites.append({"what": "param-default", "expr": got[1][0], "label": got[1][1], "features": got[1][2]})
                    if got[2]:
                        returns = got[2][0]
                        sites.append({"what": "returns", "expr": got[2][0], "label": got[2][1], "features": got[2][2]})
                    if sites:
                        stmt = {"t": "def", "name": rid, "params": params, "returns": returns, "sites": sites}
                elif what == "base":
                    got = pick(want="class")
                    if got:
                        stmt = {"t": "class", "name": rid, "bases": [got[0]], "body": [],
                                "sites": [{"what": "base", "expr": got[0], "label": got[1], "features": got[2]}]}
                else:
                    got = [g for g in (pick(want="deco"), pick(want="deco") if draw(st.booleans()) else None) if g]
                    if got:
                        stmt = {"t": draw(st.sampled_from(("def", "class"))), "name": rid, "decos": [g[0] for g in got],
                                "params": "", "body": [],
                                "sites": [{"what": f"deco{k}", "expr": g[0], "label": g[1], "features": g[2]} for k, g in enumerate(got)]}
                if stmt is not None:
                    new.append((pos, stmt))
            return new

        order_paths = [m["path"] for m in case["mods"]]
        init_sources = G.allowed_sources(order_paths, i)

        def init_for(scope_body, chain):
            """An `__init__` whose body imports locally and stores what the imported names are bound to:
            `self.r: NAME = NAME` (the value records the binding for the oracle; the annotation is the same expression)."""
            if not init_sources or not draw(st.booleans()):
                return None
            imports = []
            for _ in range(draw(st.integers(1, 3))):
                src = draw(st.sampled_from(init_sources))
                form = draw(st.sampled_from(("from", "from", "fromsub", "import")))
                # (documented precondition, as at module level) nothing imported in a package's __init__.py carries the
                # name of one of its sub-modules, except the sub-module itself
                own_children = {G.base_name(c) for c in G.children(case, mod["path"])}
                names_ = [x for x in G.mentionable(case, sim, src)
                          if not sim[src]["ns"][x].get("helper") and not is_site_name(x) and x not in own_children]
                asname = draw(st.sampled_from(MEMBER_NAMES)) if draw(st.booleans()) else None
                if form == "from" and names_:
                    imports.append({"t": "from", "mod": src, "level": G._pick_level(draw, mod["path"], mod["pkg"], src),
                                    "names": [[draw(st.sampled_from(names_)), asname]]})
                elif form == "fromsub" and src != "":
                    pkg_ = G.parent_path(src)
                    imports.append({"t": "from", "mod": pkg_, "level": G._pick_level(draw, mod["path"], mod["pkg"], pkg_),
                                    "names": [[G.base_name(src), asname]]})
                else:
                    imports.append({"t": "import", "mod": src, "as": asname or draw(st.sampled_from(MEMBER_NAMES))})
            local_ns = local_namespace(case, mod, sim, paths, pkgs, imports)
            names = set(local_ns) | set(final["ns"]) | set(BUILTINS)
            for c in chain:
                names |= set(_class_attrs(c))
            names -= tolerated
            names -= {"__all__", "self", "$TOP"}
            cands = []
            for n in sorted(x for x in names if not is_site_name(x)):
                py = python_lookup_fn(n, local_ns, final["ns"])
                if py is None:
                    continue
                gr = griffe_model_lookup_fn(n, local_ns, chain, final["ns"], scopes)
                lab = label_fn(py, gr, chain, mod, n)
                if lab in avoid:
                    if on_excluded is not None:
                        on_excluded(lab)
                    continue
                cands.append((n, py, lab))
            local_c = [c for c in cands if c[0] in local_ns]
            sites, lines = [], []
            for _ in range(draw(st.integers(1, 3))):
                pool = local_c if local_c and draw(st.integers(0, 3)) > 0 else cands
                if not pool:
                    break
                n, py, lab = draw(st.sampled_from(pool))
                feats = ["init-local-import" if n in local_ns else "init-global"]
                if n in local_ns and (n in final["ns"] or any(last_binding(c["body"], n) for c in chain)):
                    feats.append("shadowed")
                text, kind, node, info = n, None, None, {}
                if py[0] == "builtin":
                    feats.append("builtin")
                else:
                    info = py[1]
                    kind, node = info.get("kind", "val"), info.get("node")
                    stmt_ = info.get("stmt")
                    if n in local_ns and stmt_ is not None:
                        if stmt_["t"] == "from" and stmt_["level"] > 0:
                            feats.append(f"relative-import-level{stmt_['level']}")
                        if stmt_["t"] == "import" or any(a_ == n for _, a_ in stmt_.get("names", ()) if stmt_["t"] == "from"):
                            feats.append("import-as")
                    if kind in ("module", "class"):
                        text, kind, segs, via_module = _extend_chain(draw, case, sim, mod["path"], text, kind, info, node, None)
                        if segs:
                            feats.append(f"chain{segs}")
                        if via_module:
                            feats.append("via-module-alias")
                counter[0] += 1
                rid = f"r{i}_{counter[0]}"
                lines.append(f"self.{rid}: {text} = {text}")
                for w in ("init-ann", "init-val"):
                    sites.append({"what": w, "id": rid, "expr": text, "label": lab, "features": feats})
            if not sites:
                return None
            body_lines = [G.render_stmt(imp, "$TOP", mod, "", "")[0] for imp in imports] + lines
            return {"t": "def", "name": "__init__", "serial": 900, "params": "self", "local_imports": imports,
                    "body_lines": body_lines, "sites": sites}

        # ---- phase 2: sites, computed against the bodies as they are now, inserted afterwards
        plan = []  # (body list, [(pos, stmt)])

        def visit(scope_body, chain, top_index):
            new_sites = sites_for(scope_body, chain, top_index)
            if chain:
                init = init_for(scope_body, chain)
                if init is not None:
                    new_sites.append((draw(st.integers(0, len(scope_body))), init))
            plan.append((scope_body, new_sites))
            for j, st_ in enumerate(scope_body):
                if st_["t"] == "class" and (chain or st_["name"].startswith("S")):
                    # only classes that stay reachable under their name (not re-bound later in the same body)
                    if last_binding(scope_body, st_["name"])[0] is st_:
                        visit(st_["body"], [*chain, st_], top_index if chain else j)

        visit(body, [], 0)
        for scope_body, new in plan:
            for pos, stmt in sorted(new, key=lambda x: -x[0]):
                scope_body.insert(pos, stmt)
        sim[mod["path"]] = G._sim_module(case, mod, sim, paths, pkgs)
    # stub-only variant: some modules / sub-packages exist only as `.pyi` (`__init__.pyi`) in the tree Griffe loads;
    # CPython imports the same text rendered as `.py` (see vp/props/c04.py)
    if draw(st.integers(0, 2)) == 2:
        stubs = [m["path"] for m in case["mods"] if m["path"] != "" and draw(st.integers(0, 3)) < (2 if m["pkg"] else 1)]
        if stubs:
            case["stubs"] = stubs
    return case


def all_sites(case):
    """Yield (module path, qualname list of the enclosing classes, site statement)."""
    for mod in case["mods"]:
        def walk(body, qual):
            for st_ in body:
                if "sites" in st_:
                    yield mod["path"], qual, st_
                elif st_["t"] == "class":
                    yield from walk(st_.get("body", []), [*qual, st_["name"]])
        yield from walk(mod["body"], [])
