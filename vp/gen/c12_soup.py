"""C12 generator: docstring "fragment soup", parser option tables and parent templates.

A case is a JSON model

    {"parent": <template id>, "lines": [[indent, body], ...]}          (Hypothesis search; text = render(lines))
    {"parent": <template id>, "text": "..."}                            (Atheris target / hand-made witnesses)

optionally narrowed to one parse by {"style": "google|numpy|sphinx", "opts": {option: bool, ...}}; without these keys
the property function runs *every* style and *every* Boolean option combination (2^8 + 2^3 + 2^1 = 266 parses) on the text.

Everything here is deterministic; strategies draw only from fixed pools so that models shrink towards short texts.
"""

from __future__ import annotations

import itertools
from pathlib import Path

# --------------------------------------------------------------------------------------------- options
STYLE_OPTS = {
    "google": (
        "ignore_init_summary",
        "trim_doctest_flags",
        "returns_multiple_items",
        "returns_named_value",
        "returns_type_in_property_summary",
        "receives_multiple_items",
        "receives_named_value",
        "warn_unknown_params",
    ),
    "numpy": ("ignore_init_summary", "trim_doctest_flags", "warn_unknown_params"),
    "sphinx": ("warn_unknown_params",),
}
STYLES = ("google", "numpy", "sphinx")


def option_combos(style: str) -> list[dict]:
    names = STYLE_OPTS[style]
    return [dict(zip(names, bits)) for bits in itertools.product((False, True), repeat=len(names))]


_COMBOS = {style: option_combos(style) for style in STYLES}
ALL_COMBOS = [(style, opts) for style in STYLES for opts in option_combos(style)]
N_COMBOS = len(ALL_COMBOS)  # 266


def combos_for(case: dict) -> list[tuple[str, dict]]:
    """The (style, options) pairs a case asks for. A partial `opts` dict fixes those options and enumerates the rest."""
    styles = [case["style"]] if case.get("style") else list(STYLES)
    fixed = case.get("opts") or {}
    out = []
    gmasks = case.get("gmasks")
    for style in styles:
        for i, opts in enumerate(_COMBOS[style]):
            if style == "google" and gmasks is not None and i not in gmasks:
                continue
            if all(opts.get(k, v) == v for k, v in fixed.items() if k in opts):
                out.append((style, opts))
    return out


# --------------------------------------------------------------------------------------------- parents
PARENT_SRC = '''"""Module summary."""
from typing import Iterator, Generator

x: int = 0
z = 1
t: tuple[int, str] = (0, "")


def f(a, /, b: int = 1, *args: str, c, d: "list[int]" = None, **kw) -> tuple[int, str]:
    """F summary."""


def fs(a, b=2) -> "tuple[int, str]": ...


def fi(a) -> Iterator[tuple[int, str]]: ...


def fi1(a) -> Iterator[int]: ...


def fg(a) -> Generator[tuple[int, str], tuple[str, bool], tuple[bool, float]]: ...


def fg1(a) -> Generator[int, str, None]: ...


def fn(a, b=1, *args, **kw): ...


def fp(a: int = 0, b=1) -> int: ...


def fq(a: int = 0) -> int: ...


class C:
    """C summary."""

    x: int = 0

    def __init__(self, p: int = 3, *rest, **more):
        """Init summary.

        Body.
        """
        self.y: str = ""

    @property
    def prop(self) -> tuple[int, str]:
        """Prop summary."""
        return (0, "")

    @property
    def sprop(self) -> str:
        return ""

    @property
    def nprop(self):
        return 0

    def meth(self, q: bool = False) -> Iterator[int]: ...


class D(C):
    w: float = 1.0
'''


def _plain_tuple(obj):
    obj.returns = "tuple[int, str]"
    obj.parameters["a"].annotation = "int"
    obj.parameters["b"].default = "1"


def _plain_gen(obj):
    obj.returns = "Generator[int, str, None]"


# id -> (module name, has filepath, object path inside the module or "" for the module itself, tweak)
PARENTS = {
    "none": None,
    "module": ("m", True, "", None),
    "class": ("m", True, "C", None),
    "subclass": ("m", True, "D", None),
    "func_kinds_tuple": ("m", True, "f", None),
    "func_tuple_strann": ("m", True, "fs", None),
    "func_tuple_plain": ("m", True, "fp", _plain_tuple),
    "func_iter_tuple": ("m", True, "fi", None),
    "func_iter": ("m", True, "fi1", None),
    "func_gen_tuples": ("m", True, "fg", None),
    "func_gen": ("m", True, "fg1", None),
    "func_gen_plain": ("m", True, "fq", _plain_gen),
    "func_noann": ("m", True, "fn", None),
    "init": ("m", True, "C.__init__", None),
    "method": ("m", True, "C.meth", None),
    "property_tuple": ("m", True, "C.prop", None),
    "property_str": ("m", True, "C.sprop", None),
    "property_noann": ("m", True, "C.nprop", None),
    "attr_int": ("m", True, "x", None),
    "attr_tuple": ("m", True, "t", None),
    "attr_noann": ("m", True, "z", None),
    "attr_class": ("m", True, "C.x", None),
    "attr_instance": ("m", True, "C.y", None),
    "builtin_module": ("b", False, "", None),
    "builtin_func": ("b", False, "f", None),
    "builtin_class": ("b", False, "C", None),
    "builtin_property": ("b", False, "C.prop", None),
    # hand-built objects (public API), not attached to a module / a modules collection: what the repository's own docstring tests use
    "detached_init": ("api", "init"),
    "detached_func": ("api", "func"),
    "detached_attr": ("api", "attr"),
    "detached_class": ("api", "class"),
    "detached_class_alias_init": ("api", "class_alias_init"),
    "detached_method_init": ("api", "method_init"),
    "module_no_collection_func": ("api", "module_func"),
}
PARENT_IDS = tuple(PARENTS)


def build_parent(tid: str):
    """(root module | None, parent object | None) for a template id. Built exactly like a loader would:
    `griffe.visit` of the fixed snippet, the module registered in its modules collection."""
    import griffe

    spec = PARENTS[tid]
    if spec is None:
        return None, None
    if spec[0] == "api":
        return _build_api_parent(spec[1])
    modname, has_path, path, tweak = spec
    mc = griffe.ModulesCollection()
    lc = griffe.LinesCollection()
    filepath = Path(f"/nonexistent-c12/{modname}.py") if has_path else None
    root = griffe.visit(modname, filepath=filepath, code=PARENT_SRC, modules_collection=mc, lines_collection=lc)
    mc.set_member(modname, root)
    obj = root[path] if path else root
    if tweak is not None:
        tweak(obj)
    return root, obj


def _build_api_parent(which: str):
    """(root, parent) built by hand with the public API; nothing here has a modules collection, most have no module."""
    from griffe import Alias, Attribute, Class, Function, Module, Parameter, Parameters

    def params():
        return Parameters(Parameter("self"), Parameter("p", annotation="int", default="3"), Parameter("a"), Parameter("b", annotation="str"))

    if which == "init":
        f = Function("__init__", parameters=params(), returns="None")
        return f, f
    if which == "func":
        f = Function("f", parameters=params(), returns="tuple[int, str]")
        return f, f
    if which == "attr":
        a = Attribute("x", annotation="tuple[int, str]", value="(0, '')")
        return a, a
    if which == "class":
        k = Class("K")
        k.set_member("x", Attribute("x", annotation="int"))
        k.set_member("__init__", Function("__init__", parameters=params()))
        return k, k
    if which == "class_alias_init":
        k = Class("K")
        k.set_member("x", Attribute("x", annotation="int"))
        k.set_member("__init__", Alias("__init__", "missing.target"))
        return k, k
    if which == "method_init":
        k = Class("K")
        k.set_member("__init__", Function("__init__", parameters=params()))
        return k, k["__init__"]
    if which == "module_func":
        m = Module("m")
        m.set_member("f", Function("f", parameters=params(), returns="Generator[tuple[int, str], tuple[str, bool], tuple[bool, float]]"))
        return m, m["f"]
    raise ValueError(which)


def parent_facts(tid: str) -> dict:
    return {
        "is_init": tid in ("init", "detached_method_init"),
        "is_property": tid.startswith("property") or tid == "builtin_property",
    }


# --------------------------------------------------------------------------------------------- fragments
INDENTS = ("", "", "", " ", "  ", "   ", "    ", "    ", "     ", "      ", "        ", "            ", "\t", "  \t", "\t\t")

GOOGLE_KW = (
    "args", "arguments", "params", "parameters", "keyword args", "keyword arguments", "other args", "other arguments",
    "other params", "other parameters", "raises", "exceptions", "returns", "yields", "receives", "examples", "attributes",
    "functions", "methods", "classes", "modules", "warns", "warnings",
)  # fmt: skip
NUMPY_KW = (
    "deprecated", "parameters", "other parameters", "returns", "yields", "receives", "raises", "warns", "examples",
    "attributes", "functions", "methods", "classes", "modules",
)  # fmt: skip
ADMONITION_KW = ("note", "notes", "warning", "see also", "example", "tip", "todo", "danger-zone", "return", "param", "x y z", "réf")
KEYWORDS = tuple(dict.fromkeys(GOOGLE_KW + NUMPY_KW + ADMONITION_KW))

NAMES = ("a", "b", "c", "d", "args", "*args", "kw", "**kw", "p", "rest", "*rest", "**more", "x", "y", "w", "t", "z", "q", "self",
         "prop", "meth", "foo", "_", "A1", "ä", "1x", "a b", "a.b", "", "*", "**")  # fmt: skip
TYPES = ("int", "str", "list[int]", "tuple[int, str]", "Optional[int]", "int or str", "{1, 2}", "{'a', 'b'}", "int, optional",
         "int, default 3", "int, default: 3", "int, default=3", "str, optional, default 'x'", "(", ")", "[", "((int))", "lambda: 0",
         "a.b.c", "'str'", "x y", "1 +", "None", "...", "", " ", "*", "**x", "not valid [", "Iterator[int]", "C", "m.C", "é", "int | None",
         "f(x)", "x:y", "{", "{}", "a, b", ": int", "`int`", "int :",
         # compilable (or nearly) expressions that are unusual as annotations: every ast expression class, incl. the ones Griffe's
         # expression builder has no node for (Await), starred/walrus/f-string/comprehension/conditional forms, long dotted names
         "await x", "await x", "await y.z(1)", "yield", "yield x", "yield from x", "*a", "(a := 1)", "f'{a}'", "f'{a!r:>{w}}'", "a if b else c",
         "[i for i in x]", "{k: v for k, v in x}", "(i async for i in x)", "not a", "-a", "a and b", "a < b <= c", "x[1:2]", "x[1:2, ::3]",
         "{**a}", "{*a}", "[*a, b]", "a @ b", "b'x'", "1j", "x.y(z, *a, k=1, **kw)", "a.b.c.d.e.f.g.h.i.j.k.l.m.n.o.p.q.r.s.t.u.v.w.x.y.z",
         "x[", "x]", "((", "[(])", "a = b", "1 if", "lambda *a, b=1, **k: (yield)", "await", "x[await y]", "list[await x]",
         # tokens on which CPython's compile() itself gives up: nesting beyond the parser's recursion limit, a NUL byte, a lone surrogate
         "-" * 3000 + "1", "a" + ".b" * 3000, "not " * 1500 + "a", "x\x00y", "\ud800")  # fmt: skip
WORDS = ("Summary.", "text", "Some more words here", "e.g. this", "trailing space ", "naïve café", "日本語", "émoji ✓", "a - b", "- bullet",
         "* star", "1. one", "x = y", "(paren)", "`code`", "http //x", "end.", "Returns nothing", "Note", "Args", "deprecated", "0.1.0",
         "--- x", "x ---", "a b", "tab\there", "cr\r", "\x0cff", "> quote", "#", "..", "<BLANKLINE>", "| a | b |")  # fmt: skip
COLON_PROSE = ("Note: inline", "see: that", "key: value: more", "http://example.com/x", "a.b: c", "(see: x)", "time 12:30", "x::y", "trailing:",
               ": leading", "::", ":", " : ", ":x", "a :", "Example::", "int: Summary of the property", "tuple[int, str]: Summary",
               "(: x", "x (: y", "Tip: Check this out:", "UPPER: x", "with-dash: x", "under_score: x", "sp ace: x", "é: x")  # fmt: skip
BLANKS = ("", "", "", " ", "    ", "\t", "        ", " ", "\x0c", " \r", "\x1c")
DASHES = ("-", "--", "---", "----", "-------", "----------", "----------------", "-" * 40, "- -", "--- ---", "-- ", " --", "===", "----=", "~~~~", "_")
FENCES = ("```", "```python", "``` ", "````", "```pycon", "~~~", "``")
DOCTEST = (">>> print(1)", ">>> x = 1  # doctest: +SKIP", ">>> y  # doctest: +ELLIPSIS, +NORMALIZE_WHITESPACE", "... cont", "1", "<BLANKLINE>",
           "  <BLANKLINE>  ", ">>>", ">>>x", ">>> # doctest:", ">>> '''", "Traceback (most recent call last):", "# doctest: +SKIP", ">>> a  #doctest:+SKIP")  # fmt: skip
SPHINX_FIELDS = ("param", "parameter", "arg", "argument", "key", "keyword", "type", "var", "ivar", "cvar", "vartype", "returns", "return", "rtype",
                 "raises", "raise", "except", "exception", "paramx", "types", "returnsx", "rtypes", "meta", "")  # fmt: skip

PROSE_ONLY = ("Summary.", "text", "Some more words here", "e.g. this", "naïve café", "日本語", "émoji ✓", "a - b", "- bullet", "* star",
              "1. one", "x = y", "(paren)", "`code`", "end.", "Returns nothing", "Note", "Args", "Parameters", "deprecated", "--- x", "x ---",
              "> quote", "#", "..", "| a | b |", "http://example.com/x", "a.b: c", "(see: x)", "x (int): y", "f(a: int)", "at 12:30?",
              "trailing space ", "tab\there", "-x", "- -x", ">>> print(1)", "<BLANKLINE>", "param x", "*args", "**kw")  # fmt: skip
PROSE_FENCES = ("```", "```python")
# lines that look like section titles / fields but open no section as long as the line below is not indented contents
# (docs: "section identifier: optional section title" + indented contents directly below, a blank line above)
PROSE_TITLES = ("Note:", "Returns:", "Args:", "Examples:", "key: value", "See also: there", "Returns: nothing special", "Parameters: Title:",
                "Todo:", "Attributes:", "Warning: careful", "réf: x", "with-dash: x", "UPPER:", "Yields:", "Raises: ValueError", "Functions:",
                "Receives:", "Other Parameters:", "Example:", "x: int", "Parameters", "Returns", "Notes")  # fmt: skip


def render(lines) -> str:
    return "\n".join(ind + body for ind, body in lines)


def case_text(case: dict) -> str:
    if "text" in case:
        return case["text"]
    return render(case["lines"])


# --------------------------------------------------------------------------------------------- decoder
# The generator is a deterministic decoder from a byte string to a case; Hypothesis supplies the bytes
# (st.binary) and so does the Atheris target (structure-aware mode). Every decision consumes one byte
# (value modulo the pool size; weights are expressed by repeating pool entries); an exhausted source
# yields zeros, i.e. the first entry of every pool, so short inputs decode to short simple texts.
class Src:
    __slots__ = ("d", "i")

    def __init__(self, data: bytes):
        self.d = data
        self.i = 0

    def byte(self) -> int:
        if self.i < len(self.d):
            b = self.d[self.i]
            self.i += 1
            return b
        return 0

    def pick(self, seq):
        return seq[self.byte() % len(seq)]

    def below(self, n: int) -> int:
        return self.byte() % n

    @property
    def exhausted(self) -> bool:
        return self.i >= len(self.d)


# item syntaxes of all three styles as (name, type, description) -> line; type-less forms are repeated (they reach the
# "annotation from the parent" code paths)
ITEM_FORMS = (
    lambda n, t, d: f"{n}: {d}",
    lambda n, t, d: f"{n} ({t}): {d}",
    lambda n, t, d: f"{n} : {t}",
    lambda n, t, d: f"{n} :",
    lambda n, t, d: f"{n} :",
    lambda n, t, d: f"{n}",
    lambda n, t, d: f"{n}:",
    lambda n, t, d: f": {t}",
    lambda n, t, d: ":",
    lambda n, t, d: ":",
    lambda n, t, d: f"{d}",
    lambda n, t, d: f"({t}): {d}",
    lambda n, t, d: f"{t}: {d}",
    lambda n, t, d: f"{t}",
    lambda n, t, d: f"{n}, {n}2 : {t}",
    lambda n, t, d: f"{n}({t}): {d}",
    lambda n, t, d: f"{n}({t})",
    lambda n, t, d: f"{n} ({t}, optional): {d}",
    lambda n, t, d: f"{n} : {t}, optional",
    lambda n, t, d: f"{n} : {t}, default {d}",
    lambda n, t, d: f"{n}: {d}",
)
ODD_ITEMS = (":", " :", ": ", "():", "( ):", "(", ")", "x (", "x (int", "x int): d", "x (int) y: d", "(int)", "int", "ValueError", "ValueError: msg",
             "UserWarning", "0.1.0", "1.2", "*: d", "a : int, default", "a : , optional", "a : {", "a : {}", "a :int", "a: int", "a:b:c", "a ::")  # fmt: skip
ODD_SPHINX = (":param a b c d: e", ":param  a: two spaces", ":type a:", ":rtype:", ":returns:", ":param:", ":param :", ":raises :",
              ":type a: int or str or None", ":param a:b", ":param a::", "::param a: x", ":return: x: y", ":rtype : int", ":var : x", ":ivar: x",
              ":vartype : T")  # fmt: skip
CAPS = (str.capitalize, str.lower, str.title, str.upper, lambda s: "".join(ch.upper() if i % 2 else ch for i, ch in enumerate(s)), str.capitalize, str.lower)
_HOT = ("returns", "yields", "receives")
G_HEADS = GOOGLE_KW + _HOT * 3 + ("attributes", "parameters", "note", "see also", "example")
N_HEADS = NUMPY_KW + _HOT * 3 + ("attributes", "parameters", "notes", "warnings", "see also")
BASES = (0, 0, 0, 0, 0, 0, 0, 4, 2, 8)
DELTAS = (4, 4, 4, 4, 2, 8, 1, 0, 3, 6)
TITLES = ("", "", "", "", "", " ", " Title", " Title with: colon", " \t", "  x", " :", ":")
ABOVE = (("",), ("",), ("",), ("",), ("", ""), (" ",), ("\t",), (), ())
GAPS = ((), (), (), (), (), (), ("",), (" ",))
G_CONT = (2, 2, 2, 1, 0, 3)
N_CONT = (4, 4, 4, 4, 0, 2, 8, 1)
N_TAILS = ("", "", "", "", "", "", " ", ":", "  ")
SUMMARIES = ((), (), ("Summary.",), ("Summary.", ""), ("Summary.", ""), ("int: Summary.", ""), ("Summary", "second line"), ("Summary.", "", "More text.", ""))
PROSE_WORDS = WORDS + COLON_PROSE


def _words(src: Src, lo: int = 0, hi: int = 3) -> str:
    return " ".join(src.pick(PROSE_WORDS) for _ in range(lo + src.below(hi - lo + 1)))


def _item(src: Src, sec_form: int) -> str:
    how = src.below(10)
    if how == 9:
        return src.pick(ODD_ITEMS)
    form = sec_form if how < 7 else src.below(len(ITEM_FORMS))
    return ITEM_FORMS[form](src.pick(NAMES), src.pick(TYPES), _words(src))


def _sphinx(src: Src) -> str:
    how = src.below(7)
    f = src.pick(SPHINX_FIELDS)
    if how == 0:
        return f":{f} {src.pick(NAMES)}: {_words(src)}"
    if how == 1:
        return f":{f} {src.pick(TYPES)} {src.pick(NAMES)}: {_words(src)}"
    if how == 2:
        return f":{f}: {_words(src)}"
    if how == 3:
        return f":{f} {src.pick(NAMES)}"
    if how == 4:
        return f":{f} {src.pick(NAMES)}: {src.pick(TYPES)}"
    if how == 5:
        return f":{f}"
    return src.pick(ODD_SPHINX)


def _cont_body(src: Src) -> str:
    how = src.below(8)
    if how < 3:
        return _words(src, 1, 3)
    if how == 3:
        return src.pick(BLANKS)
    if how == 4:
        return _item(src, src.below(len(ITEM_FORMS)))
    if how == 5:
        return src.pick(DOCTEST)
    if how == 6:
        return src.pick(FENCES)
    return src.pick(DASHES)


def _head(src: Src, pool) -> str:
    kw = src.pick(pool) if src.below(5) else src.pick(KEYWORDS)
    return src.pick(CAPS)(kw)


def _loose(src: Src, out: list) -> None:
    how = src.below(12)
    ind = src.pick(INDENTS)
    if how < 2:
        body = _words(src, 1, 3)
    elif how == 2:
        body = src.pick(BLANKS)
    elif how == 3:
        body = src.pick(DASHES)
    elif how == 4:
        body = src.pick(FENCES)
    elif how == 5:
        body = src.pick(DOCTEST)
    elif how == 6:
        body = _item(src, src.below(len(ITEM_FORMS)))
    elif how == 7:
        body = _sphinx(src)
    elif how == 8:
        body = _head(src, KEYWORDS)
    elif how == 9:
        body = _head(src, KEYWORDS) + ":"
    elif how == 10:
        body = _head(src, KEYWORDS) + ": " + _words(src)
    else:
        body = src.pick(COLON_PROSE)
    out.append([ind, body])


def _google_section(src: Src, out: list) -> None:
    b, d = src.pick(BASES), src.pick(DELTAS)
    for s in src.pick(ABOVE):
        out.append(["", s])
    out.append([" " * b, _head(src, G_HEADS) + ":" + src.pick(TITLES)])
    for s in src.pick(GAPS):
        out.append(["", s])
    sec_form = src.below(len(ITEM_FORMS))
    for _ in range(src.pick((1, 2, 3, 4, 3, 2, 0))):
        out.append([" " * (b + d), _item(src, sec_form)])
        for _ in range(src.pick((0, 0, 1, 0, 2, 3))):
            out.append([" " * (b + d * src.pick(G_CONT)), _cont_body(src)])


def _numpy_section(src: Src, out: list) -> None:
    b = src.pick(BASES)
    for s in src.pick(ABOVE):
        out.append(["", s])
    head = _head(src, N_HEADS)
    out.append([" " * b, head + src.pick(N_TAILS)])
    out.append([" " * b, "-" * len(head) if src.below(4) else src.pick(DASHES)])
    sec_form = src.below(len(ITEM_FORMS))
    for _ in range(src.pick((1, 2, 3, 4, 3, 2, 0))):
        out.append([" " * b, _item(src, sec_form)])
        for _ in range(src.pick((1, 0, 1, 0, 2, 3))):
            out.append([" " * (b + src.pick(N_CONT)), _cont_body(src)])


def _sphinx_block(src: Src, out: list) -> None:
    b = src.pick(BASES)
    for _ in range(1 + src.below(4)):
        out.append([" " * b, _sphinx(src)])
        for _ in range(src.pick((0, 0, 1, 0, 2))):
            out.append([" " * (b + src.pick((4, 0, 2, 8))), _sphinx(src) if src.below(4) == 0 else (src.pick(BLANKS) if src.below(4) == 0 else _words(src, 1, 3))])


def _examples_block(src: Src, out: list) -> None:
    b = src.pick((0, 4, 8))
    for _ in range(1 + src.below(5)):
        how = src.below(6)
        body = src.pick(DOCTEST) if how < 3 else src.pick(FENCES) if how == 3 else src.pick(BLANKS) if how == 4 else _words(src, 1, 3)
        out.append([" " * b, body])


_BLOCKS = (_google_section, _numpy_section, _loose, _google_section, _numpy_section, _loose, _google_section, _numpy_section, _sphinx_block, _examples_block)


def decode(data: bytes) -> dict:
    """bytes -> case {"parent", "lines"[, "prose"][, "gmasks"]}.

    `gmasks` (a list of Google option masks, index into itertools.product((False, True), repeat=8)) restricts the Google
    option combinations for this text; without it all 256 are run. Numpy (8) and Sphinx (2) combinations are always complete."""
    src = Src(data)
    case: dict = {"parent": src.pick(PARENT_IDS)}
    mode = src.below(16)
    if mode != 0:  # 15/16: all-false, all-true and six sampled Google option combinations; 1/16: all 256
        case["gmasks"] = sorted({0, 255, *(src.byte() for _ in range(6))})
    lines: list = []
    if mode >= 13:  # 3/16 prose-only texts
        case["prose"] = True
        after_title = False
        for _ in range(src.below(9)):
            how = src.below(10)
            ind = src.pick(INDENTS)
            if how == 0:
                body = src.pick(BLANKS)
            elif how == 1:
                body = src.pick(PROSE_FENCES)
            elif how in (2, 3):
                body = src.pick(PROSE_TITLES)
                ind = "" if src.below(4) else ind
                shape = src.below(4)
                if shape < 2:
                    # the shapes the Google look-ahead has to reject: [blank,] title, plain line, indented line
                    if shape == 0 and lines:
                        lines.append(["", ""])
                    lines.append(["", body])
                    lines.append(["", " ".join(src.pick(PROSE_ONLY) for _ in range(1 + src.below(2)))])
                    lines.append([src.pick(("    ", "  ", "        ")), " ".join(src.pick(PROSE_ONLY) for _ in range(1 + src.below(2)))])
                    after_title = False
                    continue
            else:
                body = " ".join(src.pick(PROSE_ONLY) for _ in range(1 + src.below(3)))
            if after_title and body.strip():
                ind = ""  # the line below a title-like line is not indented: the title opens nothing
            after_title = how in (2, 3)
            lines.append([ind, body])
    else:
        for s in src.pick(SUMMARIES):
            lines.append(["", s])
        for _ in range(src.pick((1, 2, 3, 4, 5, 6, 2, 1, 3, 0))):
            src.pick(_BLOCKS)(src, lines)
    case["lines"] = lines
    return case


def soup_cases():
    from hypothesis import strategies as st

    return st.binary(min_size=96, max_size=768).map(decode)


def is_prose_only(text_lines: list[str]) -> bool:
    """Conservative syntactic definition of 'no section syntax' on the *cleaned* lines (double-checks the prose generator;
    independent of Griffe's regexes):
      * no line starts with ':' (Sphinx fields), no dash-only line (Numpy underlines);
      * a title-like line (`identifier:` then end of line or white space; identifier = word characters, blanks, dashes), indented or
        not, is allowed only if the line below it is missing, blank or not indented - Google section syntax is a title with
        indented contents *directly below* (docs/reference/docstrings.md); a blank line in between is documented to be plain markup."""
    import re

    for i, line in enumerate(text_lines):
        s = line.strip()
        if not s:
            continue
        if s.startswith(":"):
            return False
        if not s.replace("-", "").strip():
            return False
        if re.match(r"^[\w][\s\w-]*:(\s|$)", s, re.UNICODE) and i + 1 < len(text_lines):
            below = text_lines[i + 1]
            if below.strip() and below[:1].isspace():
                return False
    return True
