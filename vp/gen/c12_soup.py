"""C12 generator: docstring "fragment soup", parser option tables and parent templates.

A case is a JSON model

    {"parent": <template id>, "lines": [[indent, body], ...]}          (Hypothesis search; text = render(lines))
    {"parent": <template id>, "text": "..."}                            (Atheris target / hand-made witnesses)

optionally narrowed to one parse by {"style": "google|numpy|sphinx", "opts": {option: bool, ...}}; without these keys
the property function runs *every* style and *every* Boolean option combination (2^8 + 2^3 + 2^1 = 266 parses) on the text.

Everything here is deterministic; strategies draw only from fixed pools so that models shrink towards short texts.
"""

from __future__ import annotations

import itertools
from pathlib import Path

# --------------------------------------------------------------------------------------------- options
STYLE_OPTS = {
    "google": (
        "ignore_init_summary",
        "trim_doctest_flags",
        "returns_multiple_items",
        "returns_named_value",
        "returns_type_in_property_summary",
        "receives_multiple_items",
        "receives_named_value",
        "warn_unknown_params",
    ),
    "numpy": ("ignore_init_summary", "trim_doctest_flags", "warn_unknown_params"),
    "sphinx": ("warn_unknown_params",),
}
STYLES = ("google", "numpy", "sphinx")


def option_combos(style: str) -> list[dict]:
    names = STYLE_OPTS[style]
    return [dict(zip(names, bits)) for bits in itertools.product((False, True), repeat=len(names))]


ALL_COMBOS = [(style, opts) for style in STYLES for opts in option_combos(style)]
N_COMBOS = len(ALL_COMBOS)  # 266


def combos_for(case: dict) -> list[tuple[str, dict]]:
    """The (style, options) pairs a case asks for. A partial `opts` dict fixes those options and enumerates the rest."""
    styles = [case["style"]] if case.get("style") else list(STYLES)
    fixed = case.get("opts") or {}
    out = []
    for style in styles:
        for opts in option_combos(style):
            if all(opts.get(k, v) == v for k, v in fixed.items() if k in opts):
                out.append((style, opts))
    return out


# --------------------------------------------------------------------------------------------- parents
PARENT_SRC = '''"""Module summary."""
from typing import Iterator, Generator

x: int = 0
z = 1
t: tuple[int, str] = (0, "")


def f(a, /, b: int = 1, *args: str, c, d: "list[int]" = None, **kw) -> tuple[int, str]:
    """F summary."""


def fs(a, b=2) -> "tuple[int, str]": ...


def fi(a) -> Iterator[tuple[int, str]]: ...


def fi1(a) -> Iterator[int]: ...


def fg(a) -> Generator[tuple[int, str], tuple[str, bool], tuple[bool, float]]: ...


def fg1(a) -> Generator[int, str, None]: ...


def fn(a, b=1, *args, **kw): ...


def fp(a: int = 0, b=1) -> int: ...


def fq(a: int = 0) -> int: ...


class C:
    """C summary."""

    x: int = 0

    def __init__(self, p: int = 3, *rest, **more):
        """Init summary.

        Body.
        """
        self.y: str = ""

    @property
    def prop(self) -> tuple[int, str]:
        """Prop summary."""
        return (0, "")

    @property
    def sprop(self) -> str:
        return ""

    @property
    def nprop(self):
        return 0

    def meth(self, q: bool = False) -> Iterator[int]: ...


class D(C):
    w: float = 1.0
'''


def _plain_tuple(obj):
    obj.returns = "tuple[int, str]"
    obj.parameters["a"].annotation = "int"
    obj.parameters["b"].default = "1"


def _plain_gen(obj):
    obj.returns = "Generator[int, str, None]"


# id -> (module name, has filepath, object path inside the module or "" for the module itself, tweak)
PARENTS = {
    "none": None,
    "module": ("m", True, "", None),
    "class": ("m", True, "C", None),
    "subclass": ("m", True, "D", None),
    "func_kinds_tuple": ("m", True, "f", None),
    "func_tuple_strann": ("m", True, "fs", None),
    "func_tuple_plain": ("m", True, "fp", _plain_tuple),
    "func_iter_tuple": ("m", True, "fi", None),
    "func_iter": ("m", True, "fi1", None),
    "func_gen_tuples": ("m", True, "fg", None),
    "func_gen": ("m", True, "fg1", None),
    "func_gen_plain": ("m", True, "fq", _plain_gen),
    "func_noann": ("m", True, "fn", None),
    "init": ("m", True, "C.__init__", None),
    "method": ("m", True, "C.meth", None),
    "property_tuple": ("m", True, "C.prop", None),
    "property_str": ("m", True, "C.sprop", None),
    "property_noann": ("m", True, "C.nprop", None),
    "attr_int": ("m", True, "x", None),
    "attr_tuple": ("m", True, "t", None),
    "attr_noann": ("m", True, "z", None),
    "attr_class": ("m", True, "C.x", None),
    "attr_instance": ("m", True, "C.y", None),
    "builtin_module": ("b", False, "", None),
    "builtin_func": ("b", False, "f", None),
    "builtin_class": ("b", False, "C", None),
    "builtin_property": ("b", False, "C.prop", None),
}
PARENT_IDS = tuple(PARENTS)


def build_parent(tid: str):
    """(root module | None, parent object | None) for a template id. Built exactly like a loader would:
    `griffe.visit` of the fixed snippet, the module registered in its modules collection."""
    import griffe

    spec = PARENTS[tid]
    if spec is None:
        return None, None
    modname, has_path, path, tweak = spec
    mc = griffe.ModulesCollection()
    lc = griffe.LinesCollection()
    filepath = Path(f"/nonexistent-c12/{modname}.py") if has_path else None
    root = griffe.visit(modname, filepath=filepath, code=PARENT_SRC, modules_collection=mc, lines_collection=lc)
    mc.set_member(modname, root)
    obj = root[path] if path else root
    if tweak is not None:
        tweak(obj)
    return root, obj


def parent_facts(tid: str) -> dict:
    return {
        "is_init": tid == "init",
        "is_property": tid.startswith("property") or tid == "builtin_property",
    }


# --------------------------------------------------------------------------------------------- fragments
INDENTS = ("", "", "", " ", "  ", "   ", "    ", "    ", "     ", "      ", "        ", "            ", "\t", "  \t", "\t\t")

GOOGLE_KW = (
    "args", "arguments", "params", "parameters", "keyword args", "keyword arguments", "other args", "other arguments",
    "other params", "other parameters", "raises", "exceptions", "returns", "yields", "receives", "examples", "attributes",
    "functions", "methods", "classes", "modules", "warns", "warnings",
)  # fmt: skip
NUMPY_KW = (
    "deprecated", "parameters", "other parameters", "returns", "yields", "receives", "raises", "warns", "examples",
    "attributes", "functions", "methods", "classes", "modules",
)  # fmt: skip
ADMONITION_KW = ("note", "notes", "warning", "see also", "example", "tip", "todo", "danger-zone", "return", "param", "x y z", "réf")
KEYWORDS = tuple(dict.fromkeys(GOOGLE_KW + NUMPY_KW + ADMONITION_KW))

NAMES = ("a", "b", "c", "d", "args", "*args", "kw", "**kw", "p", "rest", "*rest", "**more", "x", "y", "w", "t", "z", "q", "self",
         "prop", "meth", "foo", "_", "A1", "ä", "1x", "a b", "a.b", "", "*", "**")  # fmt: skip
TYPES = ("int", "str", "list[int]", "tuple[int, str]", "Optional[int]", "int or str", "{1, 2}", "{'a', 'b'}", "int, optional",
         "int, default 3", "int, default: 3", "int, default=3", "str, optional, default 'x'", "(", ")", "[", "((int))", "lambda: 0",
         "a.b.c", "'str'", "x y", "1 +", "None", "...", "", " ", "*", "**x", "not valid [", "Iterator[int]", "C", "m.C", "é", "int | None",
         "f(x)", "x:y", "{", "{}", "a, b", ": int", "`int`", "int :")  # fmt: skip
WORDS = ("Summary.", "text", "Some more words here", "e.g. this", "trailing space ", "naïve café", "日本語", "émoji ✓", "a - b", "- bullet",
         "* star", "1. one", "x = y", "(paren)", "`code`", "http //x", "end.", "Returns nothing", "Note", "Args", "deprecated", "0.1.0",
         "--- x", "x ---", "a b", "tab\there", "cr\r", "\x0cff", "> quote", "#", "..", "<BLANKLINE>", "| a | b |")  # fmt: skip
COLON_PROSE = ("Note: inline", "see: that", "key: value: more", "http://example.com/x", "a.b: c", "(see: x)", "time 12:30", "x::y", "trailing:",
               ": leading", "::", ":", " : ", ":x", "a :", "Example::", "int: Summary of the property", "tuple[int, str]: Summary",
               "(: x", "x (: y", "Tip: Check this out:", "UPPER: x", "with-dash: x", "under_score: x", "sp ace: x", "é: x")  # fmt: skip
BLANKS = ("", "", "", " ", "    ", "\t", "        ", " ", "\x0c", " \r", "\x1c")
DASHES = ("-", "--", "---", "----", "-------", "----------", "----------------", "-" * 40, "- -", "--- ---", "-- ", " --", "===", "----=", "~~~~", "_")
FENCES = ("```", "```python", "``` ", "````", "```pycon", "~~~", "``")
DOCTEST = (">>> print(1)", ">>> x = 1  # doctest: +SKIP", ">>> y  # doctest: +ELLIPSIS, +NORMALIZE_WHITESPACE", "... cont", "1", "<BLANKLINE>",
           "  <BLANKLINE>  ", ">>>", ">>>x", ">>> # doctest:", ">>> '''", "Traceback (most recent call last):", "# doctest: +SKIP", ">>> a  #doctest:+SKIP")  # fmt: skip
SPHINX_FIELDS = ("param", "parameter", "arg", "argument", "key", "keyword", "type", "var", "ivar", "cvar", "vartype", "returns", "return", "rtype",
                 "raises", "raise", "except", "exception", "paramx", "types", "returnsx", "rtypes", "meta", "")  # fmt: skip

PROSE_ONLY = ("Summary.", "text", "Some more words here", "e.g. this", "naïve café", "日本語", "émoji ✓", "a - b", "- bullet", "* star",
              "1. one", "x = y", "(paren)", "`code`", "end.", "Returns nothing", "Note", "Args", "Parameters", "deprecated", "--- x", "x ---",
              "> quote", "#", "..", "| a | b |", "http://example.com/x", "a.b: c", "(see: x)", "x (int): y", "f(a: int)", "at 12:30?",
              "trailing space ", "tab\there", "-x", "- -x", ">>> print(1)", "<BLANKLINE>", "param x", "*args", "**kw")  # fmt: skip
PROSE_FENCES = ("```", "```python")


def render(lines) -> str:
    return "\n".join(ind + body for ind, body in lines)


def case_text(case: dict) -> str:
    if "text" in case:
        return case["text"]
    return render(case["lines"])


# --------------------------------------------------------------------------------------------- strategies
def _caps():
    from hypothesis import strategies as st

    def weird(s):
        return "".join(ch.upper() if i % 2 else ch for i, ch in enumerate(s))

    return st.sampled_from((str.lower, str.title, str.capitalize, str.upper, weird))


def soup_lines(max_blocks: int = 7):
    """Strategy of line lists [[indent, body], ...] built from structured blocks and loose lines."""
    from hypothesis import strategies as st

    sf = st.sampled_from
    indent = sf(INDENTS)
    name = sf(NAMES)
    typ = sf(TYPES)
    word = sf(WORDS + COLON_PROSE)
    desc = st.lists(word, min_size=0, max_size=3).map(" ".join)
    kw = st.tuples(sf(KEYWORDS), _caps()).map(lambda p: p[1](p[0]))
    gkw = st.tuples(sf(GOOGLE_KW + ("note", "see also", "example")), _caps()).map(lambda p: p[1](p[0]))
    nkw = st.tuples(sf(NUMPY_KW + ("notes", "warnings", "see also")), _caps()).map(lambda p: p[1](p[0]))

    # one-line item syntaxes of all three styles
    item = st.one_of(
        st.tuples(name, typ, desc).map(lambda p: f"{p[0]} ({p[1]}): {p[2]}"),
        st.tuples(name, desc).map(lambda p: f"{p[0]}: {p[1]}"),
        st.tuples(name, typ).map(lambda p: f"{p[0]} : {p[1]}"),
        st.tuples(name, name, typ).map(lambda p: f"{p[0]}, {p[1]} : {p[2]}"),
        typ.map(lambda t: f": {t}"),
        typ.map(lambda t: f"({t}): d"),
        st.tuples(typ, desc).map(lambda p: f"{p[0]}: {p[1]}"),
        name,
        name.map(lambda n: f"{n} :"),
        name.map(lambda n: f"{n}:"),
        st.tuples(name, typ).map(lambda p: f"{p[0]}({p[1]}): sig"),
        st.tuples(name, typ).map(lambda p: f"{p[0]}({p[1]})"),
        sf((":", " :", ": ", "():", "( ):", "(", ")", "x (", "x (int", "x int): d", "x (int) y: d", "(int)", "int", "ValueError", "ValueError: msg",
            "UserWarning", "0.1.0", "1.2", "x (int, optional): d", "*: d", "a : int, default", "a : , optional", "a : {", "a : {}", "a :int", "a: int")),  # fmt: skip
    )
    sphinx = st.one_of(
        st.tuples(sf(SPHINX_FIELDS), name, desc).map(lambda p: f":{p[0]} {p[1]}: {p[2]}"),
        st.tuples(sf(SPHINX_FIELDS), typ, name, desc).map(lambda p: f":{p[0]} {p[1]} {p[2]}: {p[3]}"),
        st.tuples(sf(SPHINX_FIELDS), desc).map(lambda p: f":{p[0]}: {p[1]}"),
        st.tuples(sf(SPHINX_FIELDS), name).map(lambda p: f":{p[0]} {p[1]}"),
        st.tuples(sf(SPHINX_FIELDS), name, typ).map(lambda p: f":{p[0]} {p[1]}: {p[2]}"),
        sf(SPHINX_FIELDS).map(lambda f: f":{f}"),
        sf((":param a b c d: e", ":param  a: two spaces", ":type a:", ":rtype:", ":returns:", ":param:", ":param :", ":raises :", ":type a: int or str or None",
            ":param a:b", ":param a::", "::param a: x", ":return: x: y", ":rtype : int")),  # fmt: skip
    )
    loose_body = st.one_of(
        word, desc, sf(BLANKS), sf(DASHES), sf(FENCES), sf(DOCTEST), item, sphinx, kw, kw.map(lambda k: k + ":"),
        st.tuples(kw, desc).map(lambda p: f"{p[0]}: {p[1]}"),
    )  # fmt: skip
    loose = st.tuples(indent, loose_body).map(lambda p: [list(p)])

    deltas = sf((4, 4, 4, 2, 8, 1, 0, 3, 6))
    base = sf((0, 0, 0, 4, 2, 8))

    def sp(n):
        return " " * n

    title = sf(("", "", "", " ", " Title", " Title with: colon", " \t", "  x", " :", ":"))
    blank_sep = st.lists(sf(BLANKS), min_size=0, max_size=2)

    # google section: [blank] header, then items at base+delta with continuation lines at base+2*delta (or anything)
    g_item = st.tuples(item, st.lists(st.tuples(sf((2, 2, 1, 0, 3)), st.one_of(word, sf(BLANKS), item, sf(DOCTEST), sf(FENCES))), max_size=3))

    def g_section(p):
        b, d, head, ttl, seps, items, gap = p
        out = [["", s] for s in seps]
        out.append([sp(b), f"{head}:{ttl}"])
        out += [["", s] for s in gap]
        for first, conts in items:
            out.append([sp(b + d), first])
            for mult, body in conts:
                out.append([sp(b + d * mult), body])
        return out

    google_section = st.tuples(
        base, deltas, st.one_of(gkw, kw), title, blank_sep, st.lists(g_item, min_size=0, max_size=4), sf(((), (), (), (), ("",), (" ",)))
    ).map(g_section)

    # numpy section: header, dash line, items at base with descriptions at base+4
    n_item = st.tuples(item, st.lists(st.tuples(sf((4, 4, 4, 0, 2, 8, 1)), st.one_of(word, sf(BLANKS), item, sf(DOCTEST), sf(FENCES), sf(DASHES))), max_size=3))

    def n_section(p):
        b, head, dash, seps, items, tail = p
        out = [["", s] for s in seps]
        out.append([sp(b), head + tail])
        out.append([sp(b), dash if dash is not None else "-" * len(head)])
        for first, conts in items:
            out.append([sp(b), first])
            for off, body in conts:
                out.append([sp(b + off), body])
        return out

    numpy_section = st.tuples(
        base, st.one_of(nkw, kw), st.one_of(st.none(), sf(DASHES)), blank_sep, st.lists(n_item, min_size=0, max_size=4), sf(("", "", "", " ", ":", "  "))
    ).map(n_section)

    # sphinx field with continuation lines
    def s_block(p):
        b, fields = p
        out = []
        for first, conts in fields:
            out.append([sp(b), first])
            for off, body in conts:
                out.append([sp(b + off), body])
        return out

    sphinx_block = st.tuples(
        base, st.lists(st.tuples(sphinx, st.lists(st.tuples(sf((4, 0, 2, 8)), st.one_of(word, sf(BLANKS), sphinx)), max_size=2)), min_size=1, max_size=4)
    ).map(s_block)

    # examples-like block
    def e_block(p):
        b, bodies = p
        return [[sp(b), body] for body in bodies]

    examples_block = st.tuples(sf((0, 4, 8)), st.lists(st.one_of(sf(DOCTEST), sf(DOCTEST), sf(FENCES), sf(BLANKS), word), min_size=1, max_size=5)).map(e_block)

    block = st.one_of(loose, loose, google_section, google_section, numpy_section, numpy_section, sphinx_block, examples_block)
    return st.lists(block, min_size=0, max_size=max_blocks).map(lambda bs: [ln for b in bs for ln in b])


def prose_lines(max_lines: int = 8):
    """Lines with no section syntax of any style: no `identifier:` line, no dash-only line, no line starting with ':'.
    (Colons only after a character that cannot be part of a Google section identifier.)"""
    from hypothesis import strategies as st

    sf = st.sampled_from
    word = sf(PROSE_ONLY)
    body = st.one_of(st.lists(word, min_size=1, max_size=3).map(" ".join), st.lists(word, min_size=1, max_size=3).map(" ".join), sf(BLANKS), sf(PROSE_FENCES))
    return st.lists(st.tuples(sf(INDENTS), body).map(list), min_size=0, max_size=max_lines)


def is_prose_only(text_lines: list[str]) -> bool:
    """Conservative syntactic definition of 'no section syntax' on the *cleaned* lines (used to double-check the
    prose generator; independent of Griffe's regexes)."""
    import re

    for line in text_lines:
        s = line.strip()
        if not s:
            continue
        if s.startswith(":"):
            return False
        if not s.replace("-", "").strip():
            return False
        # `identifier:` at end of line or followed by whitespace, identifier made of word characters, blanks, dashes
        if re.match(r"^[\w][\s\w-]*:(\s|$)", s, re.UNICODE):
            return False
    return True


def soup_cases(prose_share: int = 6):
    from hypothesis import strategies as st

    parent = st.sampled_from(PARENT_IDS)
    soup = st.builds(lambda p, ls: {"parent": p, "lines": ls}, parent, soup_lines())
    prose = st.builds(lambda p, ls: {"parent": p, "lines": ls, "prose": True}, parent, prose_lines())
    return st.one_of(*([soup] * prose_share), prose)
