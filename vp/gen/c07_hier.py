"""C07 — class-hierarchy models, renderers and the CPython oracle.

A hierarchy is a JSON model

    {"kind": "one" | "cyc" | "pkg",
     "bases":   [[b, ...], ...]      per class (index = class number, class name C<i>): ordered; b is an int
                                     (another class of the hierarchy) or a str (an external base, see EXTERNALS); the
                                     enumerated spaces use distinct bases, the package search now and then repeats a class
                                     (CPython: "duplicate base class", an MRO it refuses to compute)
     "members": [[k0,k1,k2,k3], ...] per class, one kind code per name of NAMES: 0 absent, 1 function, 2 attribute,
                                     3 nested (member) class, 4 property, 5 staticmethod, 6 classmethod
     -- optional (absent = none) --
     "init":    [v, ...]             per class: -1 no `__init__`; 0 `def __init__(self): pass`;
                                     1..4 `def __init__(self): self.<NAMES[v-1]> = 0` (an *instance* attribute)
     "cgi":     [bool, ...]          the class defines `def __class_getitem__(cls, item): return cls` (so it and its
                                     subclasses can be subscripted: `class B(A[int])`)
     "sub":     [[bool, ...], ...]   parallel to "bases": the base is written subscripted, `Cj[int]`
                                     (the target defines/inherits `__class_getitem__`, or lists the external base `Generic[T]`)
     "depth":   [d, ...]             nesting depth of each class (0 = module level). Numbering = order in which CPython
                                     *finishes* the class statements (post-order): the classes defined in a class's body
                                     precede it; the host of class i is the next class of depth d-1
     "nest":    [bool, ...]          (older, one level) class i is defined inside the next class that is not flagged
     -- kind "pkg" only --
     "mods":    [m, ...]             module number of each class (non-decreasing, so forward edges import earlier modules)
     "via":     [[form, ...], ...]   parallel to "bases": how the base is reached (see FORMS; ignored for externals)
     "resolve": bool                 load(..., resolve_aliases=resolve)
     "lib": {"split": s, "style": "pkg"|"top", "name": str, "modnames": [str, ...]}
                                     optional: modules m0..m(s-1) do not belong to PKG but form a second distribution:
                                     style "pkg" = a top-level package <name> with modules <modnames>; style "top" =
                                     top-level modules <modnames>. Names may repeat names used inside PKG (a top-level
                                     module `m2` next to `c07pkg/m2.py`; package `pkg` next to `c07pkg`)
     "modnames": [str, ...]          optional: the real module names (default m<k>), e.g. mz_x_x, mz_x, mz / m100, m10, m1: the
                                     name of a later module is a string prefix of the names of the modules it imports from
     "clsnames": [str, ...]          optional: the real class names (default C<i>); names may repeat across modules, so that
                                     `c07pkg.m2.C0` can derive from `m2.C0` / `pkg.m2.C0`
     "history": {...}                optional, a history on one loader / modules collection (the answer must be the one
                                     for the *final* tree, whatever was asked before):
         {"type": "late"}                 needs "lib": the library part is loaded only after PKG has been loaded and
                                          every PKG class has been queried
         {"type": "replace", "target": j, "bases": [...], "members": [k0..k3], "also": [src, dst] (optional)}
                                          after everything was loaded and queried, class Cj is replaced in its module
                                          (`module.set_member("Cj", new_class)`) by a new class with these bases
                                          (indices < j) and members (codes 0-3); every class is queried again.
                                          "also": the member object NAMES[src] of the new class is registered a second time
                                          under the key NAMES[dst] (`new.set_member(dst, new.members[src])`, the tree API's
                                          `run = _run_impl`): CPython's class __dict__ has both names
    }

kind "one": one module, bases among classes < i (plus externals), visited with griffe.visit.
kind "cyc": one module, bases among *all* classes (cycles, self loops, forward references).
kind "pkg": a temporary package of 1-3 modules (+ re-export modules), loaded with griffe.load; back edges (base >= i)
            make the graph cyclic, then CPython cannot import the package and only the abstract oracle is used.

The oracle is CPython itself: every class statement is exec'ed in dependency order (one flat statement per class, the
classes defined inside a host are attached to it afterwards); `__mro__` and the class `__dict__`s along it give the
expectation. Forward-only consistent packages are additionally *really imported* from the very files Griffe loads.
"""

from __future__ import annotations

import abc
import itertools
import typing

NAMES = ("ma", "mb", "mc", "md")
# Griffe's kind for each member code (a property is an attribute labelled "property" in Griffe's model)
KIND_NAME = {1: "function", 2: "attribute", 3: "class", 4: "attribute", 5: "function", 6: "function"}

# External bases: never part of the loaded tree.
#   object / Exception      builtins (the name does not resolve in the module)
#   abc.ABC                 dotted path into a standard-library module that is not loaded
#   Unk0 / Unk1             names that are defined nowhere
#   Ext0                    `from c07_notloaded import Ext0`: an alias whose target package is not loaded
#   Generic[T]              `from typing import Generic, TypeVar`: makes the class generic (subscriptable)
EXTERNALS = ("object", "Exception", "abc.ABC", "Unk0", "Unk1", "Ext0", "Generic[T]")
NOTLOADED = "c07_notloaded"
PKG = "c07pkg"
LIB = "c07lib"

# How a class of the package is reached from the class statement that lists it as a base
# (for a class nested in a host the *host* is what is imported, the base is then `<host>.Cj`).
#   d  direct name (same module only)
#   f  from PKG.mJ import Cj as A            (absolute from-import, renamed)
#   r  from .mJ import Cj as A               (relative from-import, renamed)
#   m  import PKG.mJ            + PKG.mJ.Cj  (dotted path through the package)
#   a  import PKG.mJ as M       + M.Cj
#   p  from PKG import mJ as M  + M.Cj
#   x/y/z/v  re-export chains of 1/2/3/4 hops: r1.py: from PKG.mJ import Cj as R1 ; r2.py: from .r1 import R1 as R2 ; ...
#            here: from PKG.r<last> import R<last> as A
#   i  re-export through the package __init__: from PKG.mJ import Cj as P ; here: from PKG import P as A
#   w  from PKG.mJ import *     + Cj         (needs resolve_aliases=True: wildcards are expanded by the loader)
FORMS_CROSS = ("f", "r", "m", "a", "p", "x", "y", "z", "v", "i", "w")
FORMS_SAME = ("d",)
HOPS = {"x": 1, "y": 2, "z": 3, "v": 4}


# ----------------------------------------------------------------------------- enumeration
def base_options(pool) -> list[tuple]:
    """Every ordered tuple of <=3 distinct elements of pool."""
    out: list[tuple] = [()]
    for r in (1, 2, 3):
        out.extend(itertools.permutations(pool, r))
    return out


def acyclic_radices(n: int) -> list[int]:
    return [len(base_options(range(i))) for i in range(n)]


def acyclic_count(n: int) -> int:
    total = 1
    for r in acyclic_radices(n):
        total *= r
    return total


class AcyclicSpace:
    """All hierarchies of exactly n classes, class i with <=3 ordered distinct bases among classes < i."""

    def __init__(self, n: int):
        self.n = n
        self.options = [base_options(range(i)) for i in range(n)]
        self.size = acyclic_count(n)

    def decode(self, index: int) -> list[list[int]]:
        out = []
        for i in range(self.n - 1, -1, -1):
            index, k = divmod(index, len(self.options[i]))
            out.append(list(self.options[i][k]))
        out.reverse()
        return out


class CyclicSpace:
    """All graphs of exactly n classes, every class with <=3 ordered distinct bases among all n classes (itself included)."""

    def __init__(self, n: int):
        self.n = n
        self.options = base_options(range(n))
        self.size = len(self.options) ** n

    def decode(self, index: int) -> list[list[int]]:
        out = []
        for _ in range(self.n):
            index, k = divmod(index, len(self.options))
            out.append(list(self.options[k]))
        return out


MEMBER_TABLE = (0, 0, 0, 0, 0, 0, 1, 1, 1, 2, 2, 2, 3, 4, 5, 6)


def members_from_bits(bits: int, n: int) -> list[list[int]]:
    """Deterministic member placement from an integer, 4 bits per (class, name); 6/16 of the slots stay empty."""
    out = []
    for _ in range(n):
        row = []
        for _ in NAMES:
            row.append(MEMBER_TABLE[bits & 15])
            bits >>= 4
        out.append(row)
    return out


INIT_TABLE = (-1, -1, -1, -1, 0, 0, 9, 9)  # 9 = assigns an instance attribute (name chosen by two more bits)


def init_from_bits(bits: int, members, bases, leaf_only: bool) -> list[int]:
    """Deterministic `__init__` placement, 5 bits per class. An instance attribute never reuses a name the class
    defines at class level. leaf_only: instance attributes only in classes nobody derives from."""
    derived_from = {b for bs in bases for b in bs if isinstance(b, int)}
    out = []
    for i, row in enumerate(members):
        v = INIT_TABLE[bits & 7]
        name = (bits >> 3) & 3
        bits >>= 5
        if v == 9:
            v = 0 if (row[name] or (leaf_only and i in derived_from)) else name + 1
        out.append(v)
    return out


# ----------------------------------------------------------------------------- model accessors
def init_of(case, i: int) -> int:
    v = case.get("init")
    return v[i] if v else -1


def cgi_of(case, i: int) -> bool:
    v = case.get("cgi")
    return bool(v[i]) if v else False


def sub_of(case, i: int, k: int) -> bool:
    v = case.get("sub")
    return bool(v[i][k]) if v else False


def hosts(case) -> list:
    """host[i] = index of the class whose body defines class i, or None."""
    n = len(case["bases"])
    out: list = [None] * n
    depth = case.get("depth")
    if depth:
        for i in range(n):
            if depth[i] > 0:
                out[i] = next(j for j in range(i + 1, n) if depth[j] == depth[i] - 1)
        return out
    nest = case.get("nest")
    if not nest:
        return out
    pending: list[int] = []
    for i in range(n):
        if nest[i] and i < n - 1:
            pending.append(i)
        else:
            for j in pending:
                out[j] = i
            pending = []
    return out


def chain(host, i: int) -> list[int]:
    """Module-level class down to class i."""
    out = [i]
    while host[out[0]] is not None:
        out.insert(0, host[out[0]])
    return out


def referable(host, b: int, i: int) -> bool:
    """Can the class statement of i name class b in valid Python (b finished)? Either both are defined in the same body
    (module or class) with b first, or b lives under another, earlier module-level class (reached from module level)."""
    if b >= i:
        return False
    return host[b] == host[i] or chain(host, b)[0] != chain(host, i)[0]


def hosted_in(case, h: int) -> list[int]:
    return [j for j, x in enumerate(hosts(case)) if x == h]


def class_level_names(case, i: int) -> list[str]:
    """Names in the class's own `__dict__` (what CPython's lookup can find there)."""
    out = [n for n, k in zip(NAMES, case["members"][i]) if k]
    if init_of(case, i) >= 0:
        out.append("__init__")
    if cgi_of(case, i):
        out.append("__class_getitem__")
    out.extend(cls_name(case, j) for j in hosted_in(case, i))
    return out


def instance_attr(case, i: int) -> str | None:
    v = init_of(case, i)
    return NAMES[v - 1] if v >= 1 else None


def declared_names(case, i: int) -> list[str]:
    """Everything Griffe lists as a declared member of the class."""
    out = class_level_names(case, i)
    ia = instance_attr(case, i)
    if ia:
        out.append(ia)
    return out


def universe(case) -> list[str]:
    n = len(case["bases"])
    out = list(NAMES)
    if any(init_of(case, i) >= 0 for i in range(n)):
        out.append("__init__")
    if any(cgi_of(case, i) for i in range(n)):
        out.append("__class_getitem__")
    out.extend(cls_name(case, j) for j, h in enumerate(hosts(case)) if h is not None)
    return list(dict.fromkeys(out))


def member_code(case, definer: int, name: str) -> int:
    if name in NAMES:
        return case["members"][definer][NAMES.index(name)]
    if name in ("__init__", "__class_getitem__"):
        return 1
    return 3  # a class defined in the body


# ----------------------------------------------------------------------------- rendering
def class_body(case, i: int, indent: str = "    ") -> list[str]:
    """Body lines of class i without the classes nested in it."""
    lines = []
    for name, k in zip(NAMES, case["members"][i]):
        if k == 1:
            lines.append(f"{indent}def {name}(self): ...")
        elif k == 2:
            lines.append(f'{indent}{name} = "C{i}"')
        elif k == 3:
            lines.append(f"{indent}class {name}: ...")
        elif k == 4:
            lines += [f"{indent}@property", f"{indent}def {name}(self): return 0"]
        elif k == 5:
            lines += [f"{indent}@staticmethod", f"{indent}def {name}(): ..."]
        elif k == 6:
            lines += [f"{indent}@classmethod", f"{indent}def {name}(cls): ..."]
    if cgi_of(case, i):
        lines.append(f"{indent}def __class_getitem__(cls, item): return cls")
    v = init_of(case, i)
    if v == 0:
        lines.append(f"{indent}def __init__(self): pass")
    elif v >= 1:
        lines += [f"{indent}def __init__(self):", f"{indent}    self.{NAMES[v - 1]} = 0"]
    return lines


def flat_stmt(case, i: int, base_exprs) -> str:
    """`class Ci(...)` with its own members only (oracle / one-module rendering without nesting)."""
    head = f"class C{i}({', '.join(base_exprs)}):" if base_exprs else f"class C{i}:"
    return "\n".join([head, *(class_body(case, i) or ["    pass"])]) + "\n"


def direct_expr(b) -> str:
    return f"C{b}" if isinstance(b, int) else b


def flat_base_exprs(case, i: int, with_externals: bool = True) -> list[str]:
    out = []
    subscript_ok = with_externals or any(case.get("cgi") or ())
    for k, b in enumerate(case["bases"][i]):
        if isinstance(b, str):
            if with_externals:
                out.append(b)
        else:
            out.append(f"C{b}[int]" if subscript_ok and sub_of(case, i, k) else f"C{b}")
    return out


def externals_used(bases) -> set[str]:
    return {b for bs in bases for b in bs if isinstance(b, str)}


def external_prelude(used) -> list[str]:
    lines = []
    if "abc.ABC" in used:
        lines.append("import abc")
    if "Ext0" in used:
        lines.append(f"from {NOTLOADED} import Ext0")
    if "Generic[T]" in used:
        lines += ["from typing import Generic, TypeVar", 'T = TypeVar("T")']
    return lines


def render_one(case) -> str:
    """One module `m` holding every class, in index order, bases by direct name (kinds "one" and "cyc": no nesting)."""
    bases = case["bases"]
    parts = external_prelude(externals_used(bases))
    for i in range(len(bases)):
        parts.append(flat_stmt(case, i, flat_base_exprs(case, i)))
    return "\n".join(parts) + "\n"


def cls_name(case, i: int) -> str:
    names = case.get("clsnames")
    return names[i] if names else f"C{i}"


def in_lib(case, m: int) -> bool:
    lib = case.get("lib")
    return bool(lib) and m < lib["split"]


def mod_name(case, m: int) -> str:
    if in_lib(case, m):
        return case["lib"]["modnames"][m]
    names = case.get("modnames")
    return names[m] if names else f"m{m}"


def pkg_of(case, m: int) -> str:
    """Package holding module number m ("" = the module is a top-level module)."""
    if in_lib(case, m):
        return case["lib"]["name"] if case["lib"]["style"] == "pkg" else ""
    return PKG


def mod_path(case, m: int) -> str:
    p = pkg_of(case, m)
    return f"{p}.{mod_name(case, m)}" if p else mod_name(case, m)


def lib_tops(case) -> list[str]:
    """Top-level names of the library part (what has to be loaded besides PKG)."""
    lib = case.get("lib")
    if not lib:
        return []
    return [lib["name"]] if lib["style"] == "pkg" else list(lib["modnames"][: lib["split"]])


def class_path(case, i: int) -> str:
    local = ".".join(cls_name(case, x) for x in chain(hosts(case), i))
    if case["kind"] == "pkg":
        return f"{mod_path(case, case['mods'][i])}.{local}"
    return f"m.{local}"


def target_name(case, definer: int, name: str) -> str:
    """Name of the object registered under key `name` in class `definer` (differs only for a second key of a "replace" history)."""
    return (case.get("alias_keys") or {}).get(str(definer), {}).get(name, name)


def final_case(case):
    """The model of the tree after the history has been played (only "replace" changes the hierarchy)."""
    hist = case.get("history")
    if not hist or hist["type"] != "replace":
        return case
    j = hist["target"]
    out = dict(case)
    out["bases"] = [list(hist["bases"]) if i == j else bs for i, bs in enumerate(case["bases"])]
    out["members"] = [list(hist["members"]) if i == j else row for i, row in enumerate(case["members"])]
    if hist.get("also"):
        src, dst = hist["also"]
        out["members"][j][dst] = out["members"][j][src]  # same kind of attribute under a second name
        out["alias_keys"] = {str(j): {NAMES[dst]: NAMES[src]}}
    if case.get("init"):
        out["init"] = [-1 if i == j else v for i, v in enumerate(case["init"])]
    if case.get("via"):
        out["via"] = [["d"] * len(hist["bases"]) if i == j else v for i, v in enumerate(case["via"])]
    out["history"] = None
    return out


def render_pkg(case) -> dict[str, str]:
    """Files (relative path -> text) of the package(s)."""
    bases, mods, via = case["bases"], case["mods"], case["via"]
    host = hosts(case)
    nmods = max(mods) + 1
    body: dict[int, list[str]] = {m: [] for m in range(nmods)}
    init_lines: dict[str, list[tuple[int, str]]] = {}
    files: dict[str, str] = {}
    for m in range(nmods):
        mod_used = {b for i, bs in enumerate(bases) if mods[i] == m for b in bs if isinstance(b, str)}
        body[m].extend(external_prelude(mod_used))
        if pkg_of(case, m):
            init_lines.setdefault(pkg_of(case, m), [])
    init_lines.setdefault(PKG, [])
    cn = lambda i: cls_name(case, i)  # noqa: E731

    def base_exprs(i: int, imports: list[str]) -> list[str]:
        here = pkg_of(case, mods[i])
        exprs = []
        for k, b in enumerate(bases[i]):
            if isinstance(b, str):
                exprs.append(b)
                continue
            form = via[i][k]
            hb = host[b]
            down = chain(host, b)
            top = down[0]  # the module-level class that is imported
            tail = "".join(f".{cn(x)}" for x in down[1:])  # path from it to the base
            there = pkg_of(case, mods[b])
            src = mod_path(case, mods[b])
            alias = f"A{i}_{k}"
            if form == "d":
                # same module: a sibling (same host) is a bare name in the host's body, anything else is reached from module level
                expr = cn(b) if (hb is None or hb == host[i]) else cn(top) + tail
            elif form == "f" or (form == "r" and (there != here or not there)) or (form == "i" and not there):
                imports.append(f"from {src} import {cn(top)} as {alias}")
                expr = alias + tail
            elif form == "r":
                imports.append(f"from .{mod_name(case, mods[b])} import {cn(top)} as {alias}")
                expr = alias + tail
            elif form == "m":
                imports.append(f"import {src}")
                expr = f"{src}.{cn(top)}{tail}"
            elif form == "a" or (form == "p" and not there):
                imports.append(f"import {src} as M{i}_{k}")
                expr = f"M{i}_{k}.{cn(top)}{tail}"
            elif form == "p":
                imports.append(f"from {there} import {mod_name(case, mods[b])} as M{i}_{k}")
                expr = f"M{i}_{k}.{cn(top)}{tail}"
            elif form in HOPS:
                # the re-export modules belong to the importing package (to PKG when the importer is a top-level module)
                prefix, folder = f"{here or PKG}.", f"{here or PKG}/"
                prev_mod, prev_name = src, cn(top)
                for hop in range(1, HOPS[form] + 1):
                    name = f"R{hop}_{i}_{k}"
                    files[f"{folder}r{hop}_{i}_{k}.py"] = f"from {prev_mod} import {prev_name} as {name}\n"
                    prev_mod, prev_name = f"{prefix}r{hop}_{i}_{k}", name
                imports.append(f"from {prev_mod} import {prev_name} as {alias}")
                expr = alias + tail
            elif form == "i":
                # re-exported by the __init__ of the package that defines the class
                init_lines[there].append((top, f"from {src} import {cn(top)} as P{i}_{k}"))
                imports.append(f"from {there} import P{i}_{k} as {alias}")
                expr = alias + tail
            elif form == "w":
                imports.append(f"from {src} import *")
                expr = f"{cn(top)}{tail}"
            else:  # pragma: no cover
                raise ValueError(form)
            exprs.append(expr + "[int]" if sub_of(case, i, k) else expr)
        return exprs

    for i in range(len(bases)):
        if host[i] is not None:
            continue
        imports: list[str] = []

        def render(k: int, indent: str) -> list[str]:
            exprs = base_exprs(k, imports)
            out = [f"{indent}class {cn(k)}({', '.join(exprs)}):" if exprs else f"{indent}class {cn(k)}:"]
            inner = class_body(case, k, indent=indent + "    ")
            for j in hosted_in(case, k):
                inner.extend(render(j, indent + "    "))
            return out + (inner or [f"{indent}    pass"])

        lines = render(i, "")
        body[mods[i]].extend(imports)
        body[mods[i]].append("\n".join(lines) + "\n")
    # package __init__: re-exports ordered by source class, so that CPython has executed every module a
    # later module needs before that later module is imported by a later line.
    for p, lines_ in init_lines.items():
        files[f"{p}/__init__.py"] = "\n".join(line for _, line in sorted(lines_)) + "\n"
    for m in range(nmods):
        files[mod_path(case, m).replace(".", "/") + ".py"] = "\n".join(body[m]) + "\n"
    return files


# ----------------------------------------------------------------------------- graph helpers
def int_bases(bs) -> list[int]:
    return [b for b in bs if isinstance(b, int)]


def ancestors(bases) -> list[set[int]]:
    n = len(bases)
    reach = [set(int_bases(bases[i])) for i in range(n)]
    changed = True
    while changed:
        changed = False
        for i in range(n):
            new = set(reach[i])
            for j in reach[i]:
                new |= reach[j]
            if new != reach[i]:
                reach[i] = new
                changed = True
    return reach


def reaches_cycle(bases) -> list[bool]:
    """For each class: does its ancestor graph (itself included) contain a cycle?"""
    n = len(bases)
    reach = ancestors(bases)
    on_cycle = [i in reach[i] for i in range(n)]
    return [on_cycle[i] or any(on_cycle[j] for j in reach[i]) for i in range(n)]


def is_forward(bases) -> bool:
    return all(b < i for i, bs in enumerate(bases) for b in int_bases(bs))


def topo_order(bases, cyclic) -> list[int]:
    """Dependency order of the classes whose ancestor graph is acyclic."""
    order: list[int] = []
    done: set[int] = set()

    def visit(i: int) -> None:
        if i in done:
            return
        done.add(i)
        for b in int_bases(bases[i]):
            visit(b)
        order.append(i)

    for i in range(len(bases)):
        if not cyclic[i]:
            visit(i)
    return order


# ----------------------------------------------------------------------------- CPython oracle
ERR_CYCLE = "cycle"
ERR_MRO = "inconsistent"
ERR_ANCESTOR = "ancestor-uncomputable"
ERR_DUP = "duplicate-base"
EXTERNAL_DEFINER = -1


def _oracle_namespace() -> dict:
    ns: dict = {"__name__": "m", "abc": abc, "Generic": typing.Generic, "T": typing.TypeVar("T")}
    for name in ("Unk0", "Unk1", "Ext0"):
        ns[name] = type(name, (), {"__module__": NOTLOADED})
    return ns


def _build(case, with_externals: bool):
    """Exec every class statement in dependency order. Returns (status, classes):
    status[i] = None (built) | ERR_*; classes[i] = the CPython class."""
    bases = case["bases"]
    n = len(bases)
    host = hosts(case)
    cyclic = reaches_cycle(bases)
    status: list = [ERR_CYCLE if cyclic[i] else None for i in range(n)]
    classes: dict[int, type] = {}
    ns = _oracle_namespace()
    for i in topo_order(bases, cyclic):
        if any(status[b] is not None for b in int_bases(bases[i])):
            status[i] = ERR_ANCESTOR
            continue
        src = flat_stmt(case, i, flat_base_exprs(case, i, with_externals))
        try:
            exec(compile(src, f"<C{i}>", "exec"), ns)  # noqa: S102
        except TypeError as exc:
            msg = str(exc)
            if "duplicate base class" in msg:
                status[i] = ERR_DUP  # raised by type.mro(): a linearization CPython refuses to compute
            elif "consistent method resolution" in msg or "MRO" in msg:
                status[i] = ERR_MRO
            else:
                raise RuntimeError(f"oracle: unexpected TypeError for {src!r}: {msg}") from exc
            continue
        classes[i] = ns[f"C{i}"]
    # classes defined in the body of a host are attributes of the host (found through the MRO by its subclasses)
    for j, h in enumerate(host):
        if h is not None and h in classes and j in classes:
            setattr(classes[h], cls_name(case, j), classes[j])
        elif h is not None and h in classes:
            # the nested class itself cannot be created: CPython would not get to create the host either; the
            # host's *hierarchy* is still well defined, its member Cj is a class statement that fails.
            setattr(classes[h], cls_name(case, j), None)
    return status, classes


def oracle(case) -> list[dict]:
    """Expectation per class:

    {"status": "ok", "mro": [indices, nearest first, self excluded],
     "attrs": {name: [definer, kind code]}     first class along __mro__ whose __dict__ has the name (loaded classes)
     "ext_names": [name, ...]                   names first found in an external class's __dict__ (not judged)
     "ia": {name: definer}}                     names for which a base's *instance attribute* (assigned in __init__)
                                                comes before (or instead of) what CPython finds: Griffe's model lists
                                                these as inherited members, CPython's lookup through the MRO does not
    {"status": "err", "why": ERR_*}
    {"status": "skip", "why": ...}   the external bases change what CPython computes for the loaded classes
                                     (order or consistency): Griffe cannot see them, outside the checked domain
    every entry also has "built": whether CPython (external bases included) could create the class
    """
    bases = case["bases"]
    n = len(bases)
    status, classes = _build(case, with_externals=True)
    if externals_used(bases):
        status0, classes0 = _build(case, with_externals=False)
    else:
        status0, classes0 = status, classes
    index = {id(c): i for i, c in classes.items()}
    index0 = {id(c): i for i, c in classes0.items()}
    names = universe(case)

    out = []
    for i in range(n):
        with_ = ("err",) if status[i] is not None else ("ok", tuple(index[id(c)] for c in classes[i].__mro__[1:] if id(c) in index))
        without = ("err",) if status0[i] is not None else ("ok", tuple(index0[id(c)] for c in classes0[i].__mro__[1:] if id(c) in index0))
        if with_ != without:
            out.append({"status": "skip", "why": "external-bases-change-" + ("consistency" if with_[0] != without[0] else "order"), "built": status[i] is None})
            continue
        if status[i] is not None:
            out.append({"status": "err", "why": status[i], "built": False})
            continue
        attrs: dict = {}
        ext_names: list[str] = []
        ia: dict = {}
        mro = classes[i].__mro__
        for name in names:
            for pos, c in enumerate(mro):
                k = index.get(id(c))
                # an instance attribute of a base seen before CPython finds anything
                if pos and k is not None and name not in ia and instance_attr(case, k) == name:
                    ia[name] = k
                if name in vars(c):
                    if k is None:
                        ext_names.append(name)
                    else:
                        attrs[name] = [k, member_code(case, k, name)]
                    break
        # own instance attribute: the class declares the name, nothing is "inherited" under it
        own_ia = instance_attr(case, i)
        ia = {nm: k for nm, k in ia.items() if nm != own_ia and not (nm in attrs and attrs[nm][0] == i)}
        out.append({"status": "ok", "mro": list(with_[1]), "attrs": attrs, "ext_names": ext_names, "ia": ia, "built": True})
    return out


# ----------------------------------------------------------------------------- structural features (evidence labels)
def naive_dfs_mro(bases, i: int) -> list[int]:
    """Depth-first, left-to-right, first occurrence kept (the pre-C3 'classic' order)."""
    seen: list[int] = []

    def walk(k: int) -> None:
        for b in int_bases(bases[k]):
            if b not in seen:
                seen.append(b)
                walk(b)

    walk(i)
    return seen


def features(case, expect) -> set[str]:
    bases, members = case["bases"], case["members"]
    out: set[str] = set()
    host = hosts(case)
    if any(len(bs) >= 2 for bs in bases):
        out.add("multi-base")
    if any(e["status"] == "err" and e["why"] == ERR_MRO for e in expect):
        out.add("inconsistent-class")
    if any(e["status"] == "err" and e["why"] == ERR_DUP for e in expect):
        out.add("duplicate-base-class")
    if any(len(chain(host, i)) >= 3 for i in range(len(bases))):
        out.add("nesting-depth>=2")
    names = [cls_name(case, i) for i in range(len(bases))]
    for i in range(len(bases)):
        if host[i] is not None and names[i] in [names[x] for x in chain(host, i)[:-1]]:
            out.add("nested-class-named-like-enclosing-class")
            if any(b == i and host[k] == host[i] for k, bs in enumerate(bases) for b in bs):
                out.add("nested-class-named-like-enclosing-class:sibling-derives-by-bare-name")
    if any(e["status"] == "err" and e["why"] == ERR_ANCESTOR for e in expect):
        out.add("descendant-of-inconsistent")
    if any(e["status"] == "err" and e["why"] == ERR_CYCLE for e in expect):
        out.add("cyclic-class")
    if any(e["status"] == "skip" for e in expect):
        out.add("external-dependent-class(skipped)")
    if externals_used(bases):
        out.add("external-bases")
    if any(k >= 4 for row in members for k in row):
        out.add("decorated-members")
    for i, bs in enumerate(bases):
        for k, b in enumerate(bs):
            if not isinstance(b, int):
                continue
            if sub_of(case, i, k):
                out.add("subscripted-base" + ("(Generic)" if "Generic[T]" in bases[b] else "(__class_getitem__)"))
            if host[b] is not None:
                out.add("nested-class-base" + ("(sibling)" if host[b] == host[i] else ""))
            if host[i] is not None:
                out.add("class-in-class-with-bases")
    for i, e in enumerate(expect):
        if e["status"] != "ok":
            continue
        mro = e["mro"]
        if len(mro) >= 3 and mro != naive_dfs_mro(bases, i):
            out.add("c3-differs-from-dfs")
        if len(mro) >= 2 and len(int_bases(bases[i])) >= 2:
            out.add("mro-merge>=2-lists")
        if e["ia"]:
            out.add("instance-attr-inherited(known-finding-shape)")
        if instance_attr(case, i):
            out.add("instance-attr-own")
        own = set(declared_names(case, i))
        for name, (definer, _) in e["attrs"].items():
            if definer == i or name in own:
                continue
            if name == "__init__":
                out.add("inherited-__init__")
            elif name == "__class_getitem__":
                out.add("inherited-__class_getitem__")
            elif name not in NAMES:
                out.add("inherited-class-defined-in-base")
            elif member_code(case, definer, name) >= 4:
                out.add("inherited-decorated-member")
        for k, name in enumerate(NAMES):
            definers = [j for j in mro if members[j][k]]
            if members[i][k] and definers:
                out.add("own-overrides-inherited")
            if not members[i][k] and len(definers) >= 2:
                out.add("nearest-of-several-wins")
                if definers[0] != min(definers) and definers[0] != max(definers):
                    out.add("nearest-is-neither-first-nor-last-defined")
            if not members[i][k] and len(definers) == 1:
                out.add("inherited-single-definer")
    return out
