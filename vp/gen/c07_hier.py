"""C07 — class-hierarchy models, renderers and the CPython oracle.

A hierarchy is a JSON model

    {"kind": "one" | "cyc" | "pkg",
     "bases":   [[b, ...], ...]      per class (index = class number, class name C<i>): ordered, distinct; b is an int
                                     (another class of the hierarchy) or a str (an external base, see EXTERNALS)
     "members": [[k0,k1,k2,k3], ...] per class, one kind code per name of NAMES: 0 absent, 1 function, 2 attribute,
                                     3 nested class
     -- kind "pkg" only --
     "mods":    [m, ...]             module number of each class (non-decreasing, so forward edges import earlier modules)
     "via":     [[form, ...], ...]   parallel to "bases": how the base is reached (see FORMS; ignored for externals)
     "resolve": bool                 load(..., resolve_aliases=resolve)
    }

kind "one": one module, bases among classes < i (plus externals), visited with griffe.visit.
kind "cyc": one module, bases among *all* classes (cycles, self loops, forward references).
kind "pkg": a temporary package of 1-3 modules (+ re-export modules), loaded with griffe.load; back edges (base >= i)
            make the graph cyclic, then CPython cannot import the package and only the abstract oracle is used.

The oracle is CPython itself: every class statement is exec'ed (same text as given to Griffe in the one-module
rendering) in dependency order; `__mro__` and `getattr` give the expectation.
"""

from __future__ import annotations

import abc
import itertools

NAMES = ("ma", "mb", "mc", "md")
KIND_NAME = {1: "function", 2: "attribute", 3: "class"}

# External bases: never part of the loaded tree.
#   object / Exception      builtins (the name does not resolve in the module)
#   abc.ABC                 dotted path into a standard-library module that is not loaded
#   Unk0 / Unk1             names that are defined nowhere
#   Ext0                    `from c07_notloaded import Ext0`: an alias whose target package is not loaded
EXTERNALS = ("object", "Exception", "abc.ABC", "Unk0", "Unk1", "Ext0")
NOTLOADED = "c07_notloaded"
PKG = "c07pkg"

# How a class of the package is reached from the class statement that lists it as a base.
#   d  direct name (same module only)
#   f  from PKG.mJ import Cj as A            (absolute from-import, renamed)
#   r  from .mJ import Cj as A               (relative from-import, renamed)
#   m  import PKG.mJ            + PKG.mJ.Cj  (dotted path through the package)
#   a  import PKG.mJ as M       + M.Cj
#   p  from PKG import mJ as M  + M.Cj
#   x  re-export chain of one hop:  r.py: from PKG.mJ import Cj as R ; here: from PKG.r import R as A
#   y  re-export chain of two hops: rr.py: from PKG.r import R as RR ; here: from PKG.rr import RR as A
#   i  re-export through the package __init__: from PKG.mJ import Cj as P ; here: from PKG import P as A
#   w  from PKG.mJ import *     + Cj         (needs resolve_aliases=True: wildcards are expanded by the loader)
FORMS_CROSS = ("f", "r", "m", "a", "p", "x", "y", "i", "w")
FORMS_SAME = ("d",)


# ----------------------------------------------------------------------------- enumeration
def base_options(pool) -> list[tuple]:
    """Every ordered tuple of <=3 distinct elements of pool."""
    out: list[tuple] = [()]
    for r in (1, 2, 3):
        out.extend(itertools.permutations(pool, r))
    return out


def acyclic_radices(n: int) -> list[int]:
    return [len(base_options(range(i))) for i in range(n)]


def acyclic_count(n: int) -> int:
    total = 1
    for r in acyclic_radices(n):
        total *= r
    return total


class AcyclicSpace:
    """All hierarchies of exactly n classes, class i with <=3 ordered distinct bases among classes < i."""

    def __init__(self, n: int):
        self.n = n
        self.options = [base_options(range(i)) for i in range(n)]
        self.size = acyclic_count(n)

    def decode(self, index: int) -> list[list[int]]:
        out = []
        for i in range(self.n - 1, -1, -1):
            index, k = divmod(index, len(self.options[i]))
            out.append(list(self.options[i][k]))
        out.reverse()
        return out


class CyclicSpace:
    """All graphs of exactly n classes, every class with <=3 ordered distinct bases among all n classes (itself included)."""

    def __init__(self, n: int):
        self.n = n
        self.options = base_options(range(n))
        self.size = len(self.options) ** n

    def decode(self, index: int) -> list[list[int]]:
        out = []
        for _ in range(self.n):
            index, k = divmod(index, len(self.options))
            out.append(list(self.options[k]))
        return out


def members_from_bits(bits: int, n: int) -> list[list[int]]:
    """Deterministic member placement from an integer (2 bits per (class, name)), biased so that about
    half of the slots are empty: code = 0,0,1,2,3 ... taken from 3-bit groups."""
    table = (0, 0, 0, 1, 1, 2, 2, 3)
    out = []
    for _ in range(n):
        row = []
        for _ in NAMES:
            row.append(table[bits & 7])
            bits >>= 3
        out.append(row)
    return out


# ----------------------------------------------------------------------------- rendering
def class_body(i: int, members_i) -> list[str]:
    lines = []
    for name, k in zip(NAMES, members_i):
        if k == 1:
            lines.append(f"    def {name}(self): ...")
        elif k == 2:
            lines.append(f'    {name} = "C{i}"')
        elif k == 3:
            lines.append(f"    class {name}: ...")
    return lines or ["    pass"]


def class_stmt(i: int, base_exprs, members_i) -> str:
    head = f"class C{i}({', '.join(base_exprs)}):" if base_exprs else f"class C{i}:"
    return "\n".join([head, *class_body(i, members_i)]) + "\n"


def direct_expr(b) -> str:
    return f"C{b}" if isinstance(b, int) else b


def externals_used(bases) -> set[str]:
    return {b for bs in bases for b in bs if isinstance(b, str)}


def external_prelude(used) -> list[str]:
    lines = []
    if "abc.ABC" in used:
        lines.append("import abc")
    if "Ext0" in used:
        lines.append(f"from {NOTLOADED} import Ext0")
    return lines


def render_one(case) -> str:
    """One module `m` holding every class, in index order, bases by direct name."""
    bases, members = case["bases"], case["members"]
    parts = external_prelude(externals_used(bases))
    for i, bs in enumerate(bases):
        parts.append(class_stmt(i, [direct_expr(b) for b in bs], members[i]))
    return "\n".join(parts) + "\n"


def class_path(case, i: int) -> str:
    if case["kind"] == "pkg":
        return f"{PKG}.m{case['mods'][i]}.C{i}"
    return f"m.C{i}"


def render_pkg(case) -> dict[str, str]:
    """Files (relative path -> text) of the package."""
    bases, members, mods, via = case["bases"], case["members"], case["mods"], case["via"]
    nmods = max(mods) + 1
    body: dict[int, list[str]] = {m: [] for m in range(nmods)}
    init_lines: list[tuple[int, str]] = []
    files: dict[str, str] = {}
    used = externals_used(bases)
    for m in range(nmods):
        mod_used = {b for i, bs in enumerate(bases) if mods[i] == m for b in bs if isinstance(b, str)}
        body[m].extend(external_prelude(mod_used))
    for i, bs in enumerate(bases):
        m = mods[i]
        exprs = []
        for k, b in enumerate(bs):
            if isinstance(b, str):
                exprs.append(b)
                continue
            form = via[i][k]
            src = f"{PKG}.m{mods[b]}"
            alias = f"A{i}_{k}"
            if form == "d":
                exprs.append(f"C{b}")
            elif form == "f":
                body[m].append(f"from {src} import C{b} as {alias}")
                exprs.append(alias)
            elif form == "r":
                body[m].append(f"from .m{mods[b]} import C{b} as {alias}")
                exprs.append(alias)
            elif form == "m":
                body[m].append(f"import {src}")
                exprs.append(f"{src}.C{b}")
            elif form == "a":
                body[m].append(f"import {src} as M{i}_{k}")
                exprs.append(f"M{i}_{k}.C{b}")
            elif form == "p":
                body[m].append(f"from {PKG} import m{mods[b]} as M{i}_{k}")
                exprs.append(f"M{i}_{k}.C{b}")
            elif form == "x":
                files[f"{PKG}/r{i}_{k}.py"] = f"from {src} import C{b} as R{i}_{k}\n"
                body[m].append(f"from {PKG}.r{i}_{k} import R{i}_{k} as {alias}")
                exprs.append(alias)
            elif form == "y":
                files[f"{PKG}/r{i}_{k}.py"] = f"from {src} import C{b} as R{i}_{k}\n"
                files[f"{PKG}/rr{i}_{k}.py"] = f"from .r{i}_{k} import R{i}_{k} as RR{i}_{k}\n"
                body[m].append(f"from {PKG}.rr{i}_{k} import RR{i}_{k} as {alias}")
                exprs.append(alias)
            elif form == "i":
                init_lines.append((b, f"from {src} import C{b} as P{i}_{k}"))
                body[m].append(f"from {PKG} import P{i}_{k} as {alias}")
                exprs.append(alias)
            elif form == "w":
                body[m].append(f"from {src} import *")
                exprs.append(f"C{b}")
            else:  # pragma: no cover
                raise ValueError(form)
        body[m].append(class_stmt(i, exprs, members[i]))
    # package __init__: re-exports ordered by source class, so that CPython has executed every module a
    # later module needs before that later module is imported by a later line.
    files[f"{PKG}/__init__.py"] = "\n".join(line for _, line in sorted(init_lines)) + "\n"
    for m in range(nmods):
        files[f"{PKG}/m{m}.py"] = "\n".join(body[m]) + "\n"
    del used
    return files


# ----------------------------------------------------------------------------- graph helpers
def int_bases(bs) -> list[int]:
    return [b for b in bs if isinstance(b, int)]


def reaches_cycle(bases) -> list[bool]:
    """For each class: does its ancestor graph (itself included) contain a cycle?"""
    n = len(bases)
    reach = [set(int_bases(bases[i])) for i in range(n)]
    changed = True
    while changed:
        changed = False
        for i in range(n):
            new = set(reach[i])
            for j in reach[i]:
                new |= reach[j]
            if new != reach[i]:
                reach[i] = new
                changed = True
    on_cycle = [i in reach[i] for i in range(n)]
    return [on_cycle[i] or any(on_cycle[j] for j in reach[i]) for i in range(n)]


def is_forward(bases) -> bool:
    return all(b < i for i, bs in enumerate(bases) for b in int_bases(bs))


def topo_order(bases, cyclic) -> list[int]:
    """Dependency order of the classes whose ancestor graph is acyclic."""
    order: list[int] = []
    done: set[int] = set()

    def visit(i: int) -> None:
        if i in done:
            return
        done.add(i)
        for b in int_bases(bases[i]):
            visit(b)
        order.append(i)

    for i in range(len(bases)):
        if not cyclic[i]:
            visit(i)
    return order


# ----------------------------------------------------------------------------- CPython oracle
ERR_CYCLE = "cycle"
ERR_MRO = "inconsistent"
ERR_ANCESTOR = "ancestor-uncomputable"


def _oracle_namespace() -> dict:
    ns: dict = {"__name__": "m", "abc": abc}
    for name in ("Unk0", "Unk1", "Ext0"):
        ns[name] = type(name, (), {"__module__": NOTLOADED})
    return ns


def _build(bases, members, with_externals: bool):
    """Exec every class statement in dependency order. Returns (status, classes):
    status[i] = None (built) | ERR_*; classes[i] = the CPython class."""
    n = len(bases)
    cyclic = reaches_cycle(bases)
    status: list = [ERR_CYCLE if cyclic[i] else None for i in range(n)]
    classes: dict[int, type] = {}
    ns = _oracle_namespace()
    for i in topo_order(bases, cyclic):
        bs = bases[i] if with_externals else int_bases(bases[i])
        if any(isinstance(b, int) and status[b] is not None for b in bs):
            status[i] = ERR_ANCESTOR
            continue
        src = class_stmt(i, [direct_expr(b) for b in bs], members[i])
        try:
            exec(compile(src, f"<C{i}>", "exec"), ns)  # noqa: S102
        except TypeError as exc:
            msg = str(exc)
            if "consistent method resolution" not in msg and "MRO" not in msg:
                raise RuntimeError(f"oracle: unexpected TypeError for {src!r}: {msg}") from exc
            status[i] = ERR_MRO
            continue
        classes[i] = ns[f"C{i}"]
    return status, classes


def _index_of(cls: type) -> int | None:
    name = cls.__name__
    if cls.__module__ == "m" and name.startswith("C") and name[1:].isdigit() and "." not in cls.__qualname__:
        return int(name[1:])
    return None


def _lookup(cls: type, name: str):
    """What CPython's attribute lookup finds for cls.name: (definer index, kind code) or None."""
    missing = object()
    obj = getattr(cls, name, missing)
    if obj is missing:
        return None
    if isinstance(obj, str):
        return int(obj[1:]), 2
    if isinstance(obj, type):
        return int(obj.__qualname__.split(".")[0][1:]), 3
    return int(obj.__qualname__.split(".")[0][1:]), 1


def oracle(case) -> list[dict]:
    """Expectation per class:

    {"status": "ok", "mro": [indices, nearest first, self excluded], "attrs": {name: [definer, kind]}}
    {"status": "err", "why": ERR_*}
    every entry also has "built": whether CPython (external bases included) could create the class
    {"status": "skip", "why": ...}   the external bases change what CPython computes for the loaded classes
                                     (order or consistency): Griffe cannot see them, outside the checked domain
    """
    bases, members = case["bases"], case["members"]
    n = len(bases)
    status, classes = _build(bases, members, with_externals=True)
    has_ext = bool(externals_used(bases))
    if has_ext:
        status0, classes0 = _build(bases, members, with_externals=False)
    else:
        status0, classes0 = status, classes

    def restricted(cls: type) -> list[int]:
        return [k for k in (_index_of(c) for c in cls.__mro__[1:]) if k is not None]

    out = []
    for i in range(n):
        with_ = ("err",) if status[i] is not None else ("ok", tuple(restricted(classes[i])))
        without = ("err",) if status0[i] is not None else ("ok", tuple(restricted(classes0[i])))
        if with_ != without:
            out.append({"status": "skip", "why": "external-bases-change-" + ("consistency" if with_[0] != without[0] else "order"), "built": status[i] is None})
            continue
        if status[i] is not None:
            out.append({"status": "err", "why": status[i], "built": False})
            continue
        attrs = {}
        for name in NAMES:
            found = _lookup(classes[i], name)
            if found is not None:
                attrs[name] = list(found)
        out.append({"status": "ok", "mro": list(with_[1]), "attrs": attrs, "built": True})
    return out


# ----------------------------------------------------------------------------- structural features (evidence labels)
def naive_dfs_mro(bases, i: int) -> list[int]:
    """Depth-first, left-to-right, first occurrence kept (the pre-C3 'classic' order)."""
    seen: list[int] = []

    def walk(k: int) -> None:
        for b in int_bases(bases[k]):
            if b not in seen:
                seen.append(b)
                walk(b)

    walk(i)
    return seen


def features(case, expect) -> set[str]:
    bases, members = case["bases"], case["members"]
    out: set[str] = set()
    if any(len(bs) >= 2 for bs in bases):
        out.add("multi-base")
    if any(e["status"] == "err" and e["why"] == ERR_MRO for e in expect):
        out.add("inconsistent-class")
    if any(e["status"] == "err" and e["why"] == ERR_ANCESTOR for e in expect):
        out.add("descendant-of-inconsistent")
    if any(e["status"] == "err" and e["why"] == ERR_CYCLE for e in expect):
        out.add("cyclic-class")
    if any(e["status"] == "skip" for e in expect):
        out.add("external-dependent-class(skipped)")
    if externals_used(bases):
        out.add("external-bases")
    for i, e in enumerate(expect):
        if e["status"] != "ok":
            continue
        mro = e["mro"]
        if len(mro) >= 3 and mro != naive_dfs_mro(bases, i):
            out.add("c3-differs-from-dfs")
        if len(mro) >= 2 and len(int_bases(bases[i])) >= 2:
            out.add("mro-merge>=2-lists")
        for k, name in enumerate(NAMES):
            definers = [j for j in mro if members[j][k]]
            if members[i][k] and definers:
                out.add("own-overrides-inherited")
            if not members[i][k] and len(definers) >= 2:
                out.add("nearest-of-several-wins")
                if definers[0] != min(definers) and definers[0] != max(definers):
                    out.add("nearest-is-neither-first-nor-last-defined")
            if not members[i][k] and len(definers) == 1:
                out.add("inherited-single-definer")
    return out
