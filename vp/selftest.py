#!/venv/bin/python
"""Sensitivity self-test (development tool, not a manifest check).

    python vp/selftest.py C10                 # every mutant of vp/mutants/c10.py must turn the quick check red
    python vp/selftest.py C10 --seeds 1 2 3   # and the unchanged tree must stay green at each of these seeds
    python vp/selftest.py C10 --only NAME

A mutant is (name, relative file under src/, old text, new text); it is applied to a scratch copy of /repo/src
under /dev/shm (removed afterwards) and the check is run with VERIF_SRC pointing at the copy.
"""

from __future__ import annotations

import argparse
import importlib
import os
import shutil
import subprocess
import sys
import tempfile
import time
from pathlib import Path

VERIF = Path(__file__).resolve().parents[1]
sys.path.insert(0, str(VERIF))


def run_check(prop: str, env_extra: dict, tier: str = "quick", timeout: int = 900) -> tuple[int, str, float]:
    env = dict(os.environ)
    env.update(env_extra)
    t0 = time.time()
    p = subprocess.run(
        [sys.executable, str(VERIF / "vp" / "run.py"), prop, "--tier", tier, "--no-shrink"],
        capture_output=True, text=True, env=env, timeout=timeout, cwd=str(VERIF),
    )
    return p.returncode, p.stdout + p.stderr, time.time() - t0


def main() -> int:
    ap = argparse.ArgumentParser()
    ap.add_argument("prop")
    ap.add_argument("--seeds", nargs="*", type=int, default=[])
    ap.add_argument("--only")
    ap.add_argument("--keep-evidence", action="store_true")
    ap.add_argument("--base", default="/repo/src", help="source tree the mutants are applied to (default /repo/src)")
    ap.add_argument("--shards", default=None)
    args = ap.parse_args()
    prop = args.prop.upper()
    ev = VERIF / "evidence" / f"{prop}.json"
    saved = ev.read_text() if ev.exists() else None
    rc_all = 0
    try:
        for seed in args.seeds:
            rc, out, dt = run_check(prop, {"VERIF_SEED": str(seed)})
            ok = rc == 0
            print(f"[unchanged seed={seed}] exit={rc} {dt:.0f}s {'ok' if ok else 'NOT QUIET'}")
            if not ok:
                print(out[-3000:])
                rc_all = 1
        try:
            muts = importlib.import_module(f"vp.mutants.{prop.lower()}").MUTANTS
        except ModuleNotFoundError:
            muts = []
        for name, rel, old, new in muts:
            if args.only and args.only != name:
                continue
            scratch = Path(tempfile.mkdtemp(prefix=f"verif-mut-{prop}-", dir="/dev/shm"))
            try:
                shutil.copytree(args.base, scratch / "src")
                f = scratch / "src" / rel
                text = f.read_text()
                if text.count(old) != 1:
                    print(f"[mutant {name}] pattern occurs {text.count(old)} times in {rel}: SKIPPED (fix the mutant)")
                    rc_all = 1
                    continue
                f.write_text(text.replace(old, new))
                rc, out, dt = run_check(prop, {"VERIF_SRC": str(scratch / "src")})
                verdict = "caught" if rc == 1 else ("HARNESS ERROR" if rc == 2 else "MISSED")
                print(f"[mutant {name}] exit={rc} {dt:.0f}s {verdict}")
                if rc == 1:
                    lines = [l for l in out.splitlines() if l.strip().startswith("bucket")]
                    for l in lines[:3]:
                        print("     " + l.strip()[:260])
                else:
                    print(out[-1500:])
                    rc_all = 1
            finally:
                shutil.rmtree(scratch, ignore_errors=True)
    finally:
        if not args.keep_evidence:
            if saved is not None:
                ev.write_text(saved)
        # replay files written by mutant runs are noise
        for p in (VERIF / "replays").glob(f"{prop}-*.json"):
            p.unlink()
    return rc_all


if __name__ == "__main__":
    sys.exit(main())
