#!/venv/bin/python
"""Confirm a seeded change and run a check against it (development tool).

    python vp/seedtest.py C10 /tmp/seed/out/C10 [--suffix -b] [--tier quick] [--skip-suite] [--checks C10 C11]

Steps (all on a scratch copy of /repo under /dev/shm, removed afterwards; /repo itself is not touched):
  1. demo.py passes on the clean copy;  2. patch applies;  3. demo.py fails on the patched copy;
  4. the repository's test suite, run against the patched sources (PYTHONPATH=<copy>/src), still passes (825 tests);
  5. the named checks' quick commands run with VERIF_SRC=<copy>/src: exit 1 expected.
Prints a JSON summary line at the end.
"""

from __future__ import annotations

import argparse
import json
import os
import shutil
import subprocess
import sys
import tempfile
from pathlib import Path

VERIF = Path(__file__).resolve().parents[1]


def sh(cmd, env=None, cwd=None, timeout=1800):
    p = subprocess.run(cmd, capture_output=True, text=True, env=env, cwd=cwd, timeout=timeout)
    return p.returncode, (p.stdout + p.stderr)


def main() -> int:
    ap = argparse.ArgumentParser()
    ap.add_argument("prop")
    ap.add_argument("dir")
    ap.add_argument("--suffix", default="")
    ap.add_argument("--tier", default="quick")
    ap.add_argument("--skip-suite", action="store_true")
    ap.add_argument("--checks", nargs="*")
    ap.add_argument("--as", dest="store_as", default=None, help="directory name under /verif/seeded (default <ID><suffix>)")
    ap.add_argument("--store", action="store_true", help="keep the confirmed change under /verif/seeded/<ID><suffix>/")
    args = ap.parse_args()
    d = Path(args.dir)
    patch = d / f"patch{args.suffix}.diff"
    demo = d / f"demo{args.suffix}.py"
    scratch = Path(tempfile.mkdtemp(prefix="verif-seed-", dir="/dev/shm"))
    out: dict = {"property": args.prop, "patch": str(patch)}
    try:
        for sub in ("src", "tests", "docs"):
            shutil.copytree(f"/repo/{sub}", scratch / sub)
        for f in ("pyproject.toml", "mkdocs.yml", "README.md", "CHANGELOG.md", "duties.py"):
            if Path(f"/repo/{f}").exists():
                shutil.copy(f"/repo/{f}", scratch / f)
        shutil.copytree("/repo/config", scratch / "config", dirs_exist_ok=True) if Path("/repo/config").exists() else None
        shutil.copytree("/repo/scripts", scratch / "scripts", dirs_exist_ok=True) if Path("/repo/scripts").exists() else None
        env = dict(os.environ, PYTHONPATH=str(scratch / "src"), PYTHONDONTWRITEBYTECODE="1")
        if demo.exists():
            rc, o = sh(["/venv/bin/python", str(demo)], env=env, cwd=str(scratch))
            out["demo_clean_rc"] = rc
            if rc != 0:
                out["demo_clean_out"] = o[-1500:]
        rc, o = sh(["git", "apply", "--unsafe-paths", f"--directory={scratch}", str(patch)], cwd="/")
        if rc != 0:
            rc, o = sh(["patch", "-p1", "-i", str(patch)], cwd=str(scratch))
        out["apply_rc"] = rc
        if rc != 0:
            out["apply_out"] = o[-1500:]
            print(json.dumps(out, indent=1))
            return 2
        if demo.exists():
            rc, o = sh(["/venv/bin/python", str(demo)], env=env, cwd=str(scratch))
            out["demo_patched_rc"] = rc
            out["demo_patched_tail"] = o.strip().splitlines()[-1][:300] if o.strip() else ""
        if not args.skip_suite:
            rc, o = sh(
                ["/venv/bin/python", "-m", "pytest", "-q", "-p", "no:cacheprovider", "--continue-on-collection-errors", "-x", "-q"],
                env=env, cwd=str(scratch),
            )
            out["suite_rc"] = rc
            out["suite_tail"] = o.strip().splitlines()[-1][:200] if o.strip() else ""
        for chk in args.checks or [args.prop]:
            env2 = dict(os.environ, VERIF_SRC=str(scratch / "src"))
            rc, o = sh(["/venv/bin/python", str(VERIF / "vp" / "run.py"), chk, "--tier", args.tier, "--no-shrink"], env=env2, cwd=str(VERIF))
            out[f"check_{chk}_rc"] = rc
            out[f"check_{chk}_buckets"] = [l.strip()[:300] for l in o.splitlines() if l.strip().startswith("bucket")][:6]
            if rc not in (0, 1):
                out[f"check_{chk}_err"] = o[-1500:]
            for p in (VERIF / "replays").glob(f"{chk}-*.json"):
                p.unlink()
    finally:
        shutil.rmtree(scratch, ignore_errors=True)
    print(json.dumps(out, indent=1))
    confirmed = out.get("demo_clean_rc") == 0 and out.get("demo_patched_rc") not in (0, None) and out.get("suite_rc") in (0, None) and out.get("apply_rc") == 0
    if args.store and confirmed:
        dest = VERIF / "seeded" / (args.store_as or f"{args.prop}{args.suffix}")
        dest.mkdir(parents=True, exist_ok=True)
        if patch.resolve() != (dest / "patch.diff").resolve():
            shutil.copy(patch, dest / "patch.diff")
            shutil.copy(demo, dest / "demo.py")
        meta = {}
        mp_ = d / f"meta{args.suffix}.json"
        if mp_.exists():
            try:
                meta = json.loads(mp_.read_text())
            except ValueError:
                meta = {"raw": mp_.read_text()}
        meta["property"] = args.prop
        prev = meta.get("confirmed_by_coordinator")
        if prev:
            # keep the history: what the checks said the first time (before any strengthening)
            meta.setdefault("earlier_results", []).append(prev.get("result"))
        meta["confirmed_by_coordinator"] = {
            "how": "vp/seedtest.py on a scratch copy of /repo: demo.py exit 0 on clean copy, patch applies, demo.py non-zero on patched copy, "
            "repository test suite (PYTHONPATH=<copy>/src pytest -x) still green, then the checks' quick commands with VERIF_SRC=<copy>/src",
            "result": out,
        }
        (dest / "meta.json").write_text(json.dumps(meta, indent=1) + "\n")
        print("stored under", dest)
    elif args.store:
        print("NOT stored: change not confirmed")
    return 0


if __name__ == "__main__":
    sys.exit(main())
