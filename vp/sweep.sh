#!/bin/sh
# usage: vp/sweep.sh <seed> [tier] [ids...]   — runs every registered check once and prints one line per check
SEED=${1:-1}; TIER=${2:-quick}
[ $# -ge 1 ] && shift; [ $# -ge 1 ] && shift
IDS="$*"
[ -z "$IDS" ] && IDS=$(/venv/bin/python -c "import json;print(' '.join(c['property_id'] for c in json.load(open('MANIFEST.json'))['checks']))")
for id in $IDS; do
  S=$(date +%s)
  OUT=$(VERIF_SEED=$SEED /venv/bin/python vp/run.py $id --tier $TIER 2>&1); RC=$?
  E=$(( $(date +%s) - S ))
  echo "$id seed=$SEED tier=$TIER exit=$RC ${E}s :: $(echo "$OUT" | grep -E "^C[0-9]+ tier" | cut -c1-160)"
  if [ $RC -ne 0 ]; then echo "$OUT" | grep -E "bucket|VIOLATION|HARNESS|Error" | head -8 | cut -c1-300; fi
done
