#!/bin/sh
# Offline setup: make hypothesis / jsonschema importable in /venv and atheris in /verif/.deps (thorough C12 only).
set -u
PY=/venv/bin/python
WH=/opt/veriftools/wheels
$PY -c "import hypothesis" 2>/dev/null || /venv/bin/pip install -q --no-index --find-links $WH hypothesis || exit 1
$PY -c "import jsonschema" 2>/dev/null || /venv/bin/pip install -q --no-index --find-links $WH jsonschema || exit 1
mkdir -p /verif/.deps
PYTHONPATH=/verif/.deps $PY -c "import atheris" 2>/dev/null || /venv/bin/pip install -q --no-index --find-links $WH --target /verif/.deps atheris || echo "atheris unavailable: C12 thorough falls back to Hypothesis only"
$PY - <<'PY'
import sys
sys.path.insert(0, "/verif")
from vp.common import bootstrap
bootstrap.setup()
import griffe, hypothesis
print("setup ok: griffe from", griffe.__file__, "hypothesis", hypothesis.__version__)
PY
