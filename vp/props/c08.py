"""C08 — JSON serialisation round-trips without loss.

Domain (DESIGN 4/C08): G-PKG profile `all_fields` (vp/gen/c08_pkg.py) loaded statically or — the importable flavour —
with force_inspection=True, regular and namespace layouts, +- alias resolution, docstring parser in {None, google, numpy,
sphinx}; the fixed built-in/extension modules itertools, math, time, zlib, array; the CLI `dump` command.

Clauses (each one is a sentence of the property statement):
  dump-total      obj.as_json(full=f) does not raise                      ("Serialising a loaded tree never fails")
  reload-total    type(obj).from_json(J) does not raise                   ("loading it back yields ... a tree")
  identical-json  reloaded.as_json(full=f) == J, f in {minimal, full}     ("serialises to the identical JSON, in both ... form")
  equivalent-tree structural walk: kind, name, line span, docstring (full form: its parsed sections too), labels, parameters,
                  returns, decorators, bases, attribute value/annotation, alias target_path, module filepath, member order;
                  expressions compared by str()
  names-resolve   every ExprName of the flat iteration of every expression (roots and the tails of dotted chains) has the same
                  canonical_path and the same path before and after; same for the canonical_path of keyword arguments
  minimal-is-enough  the tree reloaded from the minimal dump has the original's full dump (no docstring parser)
  (deep)          dump-total / reload-total / identical-json on expressions nested 100-450 levels (8 shapes), when the visitor
                  loaded them
  cli             `griffe dump` (in-process griffe.main, stdout / -o file / -o '{package}.json'; each package requested by
                  name, relative path, ./relative/path/, absolute path or dotted sub-module) emits, per requested
                  package, exactly json.loads(module.as_json(full=f)) of an identically configured loader; exit code 0
"""

from __future__ import annotations

import contextlib
import importlib
import io
import json
import os
import shutil
import sys
import tempfile
import warnings
from dataclasses import fields as dc_fields
from pathlib import Path

from hypothesis import strategies as st

from vp.common.harness import Fail, GriffeRaised, call, digest
from vp.gen import c08_pkg as G

ID = "C08"
LEVEL = "exploration"
RULE = (
    "Hypothesis-generated packages (profile all_fields: 1-5 modules in regular or two-portion namespace layout; classes, "
    "dataclasses, functions, overloads, properties, attributes, instance attributes and defs nested in __init__, docstrings in "
    "the style of the selected parser, "
    "imports of every form incl. wildcards and missing modules; every expression slot filled from a recursive generator over "
    "all 28 node types of _griffe.expressions._node_map, every Expr dataclass field that has a default exercised with each of its value "
    "kinds - see the exprfield:* classes) x agent {static, dynamic} x alias resolution {off, default, implicit} x "
    "docstring parser {none, google, numpy, sphinx} x cwd {outside, inside the search path}; plus the 5 fixed built-in modules "
    "under every configuration; plus CLI dump cases (1-2 packages, 3 output modes). Each tree is dumped/reloaded in minimal and "
    "full form. non-trivial = the serialised tree holds >=1 alias and (>=1 expression nested >=2 deep or >=1 object without "
    "line number or a list/null filepath); distinct = digest of the (path-normalised) minimal JSON + configuration"
)
ASSUMPTIONS = [
    "equivalence of expressions is judged by str() and by canonical_path/path of their names (parse-equivalence of str() is C03); ExprName.canonical_path is public API, so a scope change of a reloaded expression is observable and counts",
    "loading (GriffeLoader.load / resolve_aliases) is trusted; a package that fails to load is skipped and counted (load-error:*)",
    "the importable flavour is really imported by CPython in-process (unique temp dir, sys.modules purged afterwards)",
    "alias resolution never loads external packages (external=False / default None) to keep cases small",
    "docstring parser options are defaults; parsed sections (kind, title, elements, annotation expressions and their names) are compared in the full form only: the parser is loader configuration, the minimal form re-derives the sections without it",
    "CLI is driven in-process through griffe.main with captured stdout; logging is silenced",
]
BUDGET_S = {"quick": 75.0, "thorough": 1100.0}
SHRINK_MAX_EXAMPLES = 3000

BUILTINS = ("itertools", "math", "time", "zlib", "array")
PARSERS = (None, "google", "numpy", "sphinx")


# ----------------------------------------------------------------------------- loading
class _Skip(Exception):
    def __init__(self, label: str) -> None:
        super().__init__(label)
        self.label = label


def _purge(names, roots) -> None:
    for k in [k for k in sys.modules if any(k == n or k.startswith(n + ".") for n in names)]:
        del sys.modules[k]
    for k in [k for k in sys.path_importer_cache if any(k.startswith(r) for r in roots)]:
        del sys.path_importer_cache[k]
    importlib.invalidate_caches()


def _parser(name):
    import griffe

    return griffe.Parser(name) if name else None


def _resolve(loader, mode: int) -> None:
    if mode == 1:
        loader.resolve_aliases()
    elif mode == 2:
        loader.resolve_aliases(implicit=True, external=False)


def load_generated(case, root: Path, name: str = G.PKG, pkg=None):
    """Render + load one generated package. Returns (loader, module, info)."""
    import griffe

    pkg = pkg if pkg is not None else case["pkg"]
    info = G.render_package(pkg, root, style=case.get("parser"), name=name, steer=case.get("steer", ()))
    dynamic = case.get("agent") == "dynamic"
    if dynamic and not pkg["importable"]:
        raise _Skip("not-importable")
    loader = griffe.GriffeLoader(
        search_paths=info["search_paths"],
        docstring_parser=_parser(case.get("parser")),
        force_inspection=dynamic,
    )
    try:
        module = loader.load(name)
        _resolve(loader, case.get("resolve", 0))
    except Exception as exc:  # noqa: BLE001  loading is not what C08 is about
        raise _Skip(f"load-error:{type(exc).__name__}") from exc
    return loader, module, info


# ----------------------------------------------------------------------------- tree summaries
def _expr_nodes(expr):
    """Every Expr node reachable through dataclass fields (not through `parent`)."""
    from _griffe.expressions import Expr

    stack = [expr]
    while stack:
        e = stack.pop()
        if isinstance(e, Expr):
            yield e
            for f in dc_fields(e):
                if f.name != "parent":
                    stack.append(getattr(e, f.name))
        elif isinstance(e, (list, tuple)):
            stack.extend(e)


def _path(node) -> str:
    try:
        return node.path
    except Exception as exc:  # noqa: BLE001
        return f"<raises {type(exc).__name__}>"


def _canon(node) -> str:
    try:
        return node.canonical_path
    except Exception as exc:  # noqa: BLE001
        return f"<raises {type(exc).__name__}>"


# (class, field, value kind) triples of expression fields that have a dataclass default, seen while walking the
# original tree of the current case (filled by _expr, read by roundtrip)
_FIELDS_SEEN: set = set()
# triples Griffe's own builder cannot produce: `_build_call` always passes the callee to its keywords, lambda
# parameters have no annotations
UNREACHABLE_FIELD_KINDS = {("ExprKeyword", "function", "None"), ("ExprParameter", "annotation", "set")}
_FIELD_KINDS_CACHE: dict = {}


def _value_kind(value, default) -> str:
    import enum

    if isinstance(default, bool):
        return str(bool(value))
    if isinstance(default, enum.Enum):
        return getattr(value, "name", f"str:{value}")
    if default is None:
        return "None" if value is None else "set"
    return "default" if value == default else "other"


def expr_field_kinds() -> dict:
    """{(class, field): (default, [value kinds])} for every field of every Expr dataclass of the tree under test that
    has a default, enumerated with dataclasses.fields; the kinds are what the generator has to exercise."""
    if not _FIELD_KINDS_CACHE:
        import dataclasses
        import enum

        from _griffe import expressions

        for name in sorted(dir(expressions)):
            cls = getattr(expressions, name)
            if not (isinstance(cls, type) and issubclass(cls, expressions.Expr) and dataclasses.is_dataclass(cls)):
                continue
            for f in dataclasses.fields(cls):
                if f.name == "parent" or f.default is dataclasses.MISSING:
                    continue
                d = f.default
                if isinstance(d, bool):
                    kinds = ["True", "False"]
                elif isinstance(d, enum.Enum):
                    kinds = [m.name for m in type(d)]
                elif d is None:
                    kinds = ["None", "set"]
                else:
                    kinds = ["default", "other"]
                _FIELD_KINDS_CACHE[(name, f.name)] = (d, kinds)
    return _FIELD_KINDS_CACHE


def expected_field_labels() -> list[str]:
    return sorted(
        f"exprfield:{c}.{f}={k}" for (c, f), (_, kinds) in expr_field_kinds().items() for k in kinds if (c, f, k) not in UNREACHABLE_FIELD_KINDS
    )


def _expr(e):
    from _griffe.expressions import Expr, ExprKeyword, ExprName

    if not isinstance(e, Expr):
        return {"str": e if (e is None or isinstance(e, str)) else repr(e)}
    table = expr_field_kinds()
    for node in _expr_nodes(e):
        cname = type(node).__name__
        for (c, f), (default, _kinds) in table.items():
            if c == cname:
                _FIELDS_SEEN.add((c, f, _value_kind(getattr(node, f), default)))
    flat = [x for x in e.iterate(flat=True) if isinstance(x, ExprName)]  # roots and attribute tails alike
    names = [f"{x.name}->{_canon(x)}" for x in flat]
    paths = [f"{x.name}->{_path(x)}" for x in flat]
    kws = sorted(f"{x.name}=->{_canon(x)}" for x in _expr_nodes(e) if isinstance(x, ExprKeyword))
    return {"str": str(e), "names": names, "paths": paths, "keywords": kws}


def _doc(d, parsed: bool = False):
    if d is None:
        return None
    out = {"value": d.value, "lineno": d.lineno, "endlineno": d.endlineno}
    if parsed:
        out["parsed"] = _parsed(d)
    return out


def _parsed(d):
    """Parsed sections of a docstring: kind, title, elements (annotations as expressions, so that their names count)."""
    try:
        sections = d.parsed
    except Exception as exc:  # noqa: BLE001  totality of the parsers is C12; the dump clause reports it here
        return f"<raises {type(exc).__name__}>"

    def element(e):
        if hasattr(e, "description"):
            return {"name": getattr(e, "name", None), "description": e.description, "value": getattr(e, "value", None), "annotation": _expr(e.annotation)}
        if isinstance(e, (tuple, list)):
            return [getattr(x, "value", x) for x in e]
        return e

    return [
        {"kind": s.kind.value, "title": s.title, "value": [element(e) for e in s.value] if isinstance(s.value, list) else element(s.value)}
        for s in sections
    ]


def _without_parsed(summary):
    if isinstance(summary, dict):
        return {k: _without_parsed(v) for k, v in summary.items() if not (k == "parsed" and "lineno" in summary and "value" in summary)}
    if isinstance(summary, list):
        return [_without_parsed(v) for v in summary]
    return summary


def _decorators(obj):
    return [{"value": _expr(d.value), "lineno": d.lineno, "endlineno": d.endlineno} for d in obj.decorators]


def summarize(obj, parsed: bool = False) -> dict:
    """JSON-able summary of everything the statement lists; aliases are never dereferenced."""
    if obj.is_alias:
        return {
            "type": "Alias",
            "name": obj.name,
            "target_path": obj.target_path,
            "lineno": obj.alias_lineno,
            "endlineno": obj.alias_endlineno,
        }
    out = {
        "type": type(obj).__name__,
        "kind": obj.kind.value,
        "name": obj.name,
        "lineno": obj.lineno,
        "endlineno": obj.endlineno,
        "docstring": _doc(obj.docstring, parsed),
        "labels": sorted(obj.labels),
    }
    kind = obj.kind.value
    if kind == "module":
        fp = obj._filepath
        out["filepath"] = [str(p) for p in fp] if isinstance(fp, list) else (None if fp is None else str(fp))
    elif kind == "class":
        out["bases"] = [_expr(b) for b in obj.bases]
        out["decorators"] = _decorators(obj)
    elif kind == "function":
        out["decorators"] = _decorators(obj)
        out["returns"] = _expr(obj.returns)
        out["parameters"] = [
            {
                "name": p.name,
                "kind": getattr(p.kind, "value", p.kind),
                "kind_type": type(p.kind).__name__,
                "annotation": _expr(p.annotation),
                "default": _expr(p.default),
                "docstring": _doc(p.docstring),
            }
            for p in obj.parameters
        ]
    elif kind == "attribute":
        out["value"] = _expr(obj.value)
        out["annotation"] = _expr(obj.annotation)
    out["members"] = {name: summarize(member, parsed) for name, member in obj.members.items()}
    out["member_order"] = list(obj.members)
    return out


_EXPR_SLOTS = {"value", "annotation", "default", "returns", "bases", "decorators"}


def first_diff(a, b, path=()):
    """First difference between two JSON-able values: (generic path, a, b) or None. Member names and list indexes are
    generalised so that the path names the field, not the instance."""
    if type(a) is not type(b):
        return path, a, b
    if isinstance(a, dict):
        for k in a:
            if k not in b:
                return (*path, _gen(path, k)), a[k], "<missing>"
        for k in b:
            if k not in a:
                return (*path, _gen(path, k)), "<missing>", b[k]
        if list(a) != list(b) and path and path[-1] == "members":
            return (*path, "<order>"), list(a), list(b)
        for k in a:
            d = first_diff(a[k], b[k], (*path, _gen(path, k)))
            if d:
                return d
        return None
    if isinstance(a, list):
        if len(a) != len(b):
            return (*path, "<len>"), len(a), len(b)
        for x, y in zip(a, b):
            d = first_diff(x, y, (*path, "[]"))
            if d:
                return d
        return None
    return None if a == b else (path, a, b)


def _gen(path, key):
    return "*" if path and path[-1] == "members" else key


def _kind_of(path) -> str:
    # drop the members/* prefix chain: the field is what matters
    p = [x for x in path]
    while "members" in p:
        i = p.index("members")
        p = p[i + 2 :] if len(p) > i + 1 else p[i + 1 :]
    if not p:
        return "member" if "members" in path else "<root>"
    return ".".join(p)


def _short(v, root=None) -> str:
    s = json.dumps(v, default=repr) if not isinstance(v, str) else v
    if root:
        s = s.replace(root, "<ROOT>")
    return s[:300]


# ----------------------------------------------------------------------------- features of a serialised tree
def features(doc: dict) -> dict:
    f = {"aliases": 0, "kinds": set(), "exprs": set(), "depth": 0, "no_lineno": 0, "odd_filepath": 0, "sections": set(), "param_doc": 0}

    def expr(e, depth):
        if isinstance(e, dict):
            if "cls" in e:
                depth += 1
                f["exprs"].add(e["cls"])
                f["depth"] = max(f["depth"], depth)
            for v in e.values():
                expr(v, depth)
        elif isinstance(e, list):
            for v in e:
                expr(v, depth)

    def walk(o):
        kind = o.get("kind")
        f["kinds"].add(kind)
        if kind == "alias":
            f["aliases"] += 1
            if "lineno" not in o:
                f["no_lineno"] += 1
            return
        if kind != "module" and "lineno" not in o:
            f["no_lineno"] += 1
        if kind == "module" and not isinstance(o.get("filepath"), str):
            f["odd_filepath"] += 1
        if isinstance(o.get("docstring"), dict) and not o["docstring"].get("value"):
            f["empty_doc"] = f.get("empty_doc", 0) + 1
        for sec in (o.get("docstring") or {}).get("parsed", []) or []:
            if isinstance(sec, dict):
                f["sections"].add(sec.get("kind"))
                expr(sec.get("value"), 0)
        for key in ("bases", "decorators", "returns", "value", "annotation"):
            expr(o.get(key), 0)
        for p in o.get("parameters", []) or []:
            expr(p.get("annotation"), 0)
            expr(p.get("default"), 0)
            if "docstring" in p:
                f["param_doc"] += 1
        for m in (o.get("members") or {}).values():
            walk(m)

    walk(doc)
    return f


# ----------------------------------------------------------------------------- the round trip
def _strip_parsed(doc):
    if isinstance(doc, dict):
        return {k: _strip_parsed(v) for k, v in doc.items() if not (k == "parsed" and "value" in doc and "lineno" in doc)}
    if isinstance(doc, list):
        return [_strip_parsed(v) for v in doc]
    return doc


def roundtrip(module, root: str | None, parser, forms=(False, True), steer=()) -> tuple[list[Fail], dict]:
    """All non-CLI clauses on one loaded module. Returns (fails, {"min": J_min or None, "full": J_full or None})."""
    import griffe

    fails: list[Fail] = []
    dumps: dict = {}
    before = None
    _FIELDS_SEEN.clear()
    try:
        before = summarize(module, parsed=True)
        dumps["expr_fields"] = sorted(f"{c}.{f}={k}" for c, f, k in _FIELDS_SEEN)
    except Exception as exc:  # noqa: BLE001
        fails.append(Fail("equivalent-tree", f"summary-raises:{type(exc).__name__}", f"walking the original tree raised {exc!r}"))
    cls = type(module)
    for full in forms:
        form = "full" if full else "min"
        try:
            J = call("dump-total", module.as_json, full=full, what=f"as_json(full={full})")
        except GriffeRaised as gr:
            fails.append(gr.fail)
            continue
        dumps[form] = J
        try:
            again = call("reload-total", cls.from_json, J, what=f"from_json of the {form} dump")
        except GriffeRaised as gr:
            gr.fail.kind = f"{form}:{gr.fail.kind}"
            fails.append(gr.fail)
            continue
        try:
            J2 = call("identical-json", again.as_json, full=full, what=f"as_json(full={full}) of the tree reloaded from the {form} dump")
        except GriffeRaised as gr:
            gr.fail.kind = f"{form}:{gr.fail.kind}"
            fails.append(gr.fail)
            J2 = None
        if J2 is not None and J2 != J:
            d1, d2 = json.loads(J), json.loads(J2)
            if full and parser and "parsed-sections" in steer:
                # known finding parsed-sections: compare modulo docstring.parsed
                d1, d2 = _strip_parsed(d1), _strip_parsed(d2)
            d = first_diff(d1, d2)
            if d is None and d1 is not None and (full and parser and "parsed-sections" in steer):
                pass
            elif d is None:
                fails.append(Fail("identical-json", f"{form}:text-only", "JSON texts differ although the parsed documents are equal (key order / formatting)"))
            else:
                path, a, b = d
                fails.append(
                    Fail(
                        "identical-json",
                        f"{form}:{_kind_of(path)}",
                        f"{form} form: re-serialising the reloaded tree differs at {'.'.join(path)}: original {_short(a, root)} / after reload {_short(b, root)}",
                    )
                )
        if before is not None:
            try:
                # parsed docstring sections are data of the full form only (the minimal form re-derives them without
                # the parser); under the known finding parsed-sections they are not compared at all
                with_parsed = full and not (parser and "parsed-sections" in steer)
                after = summarize(again, parsed=with_parsed)
            except Exception as exc:  # noqa: BLE001
                fails.append(Fail("equivalent-tree", f"{form}:summary-raises:{type(exc).__name__}", f"walking the tree reloaded from the {form} dump raised {exc!r}"))
                continue
            fails.extend(_compare_summaries(before if with_parsed else _without_parsed(before), after, form, root))
    # the tree reloaded from the minimal form serialises to the identical JSON "in both minimal and full form": its full
    # dump must equal the original full dump (docs: "the JSON will only contain the fields required to load it back";
    # tests/test_encoders.py::test_minimal_data_is_enough). Only without a docstring parser: the parser is configuration,
    # not data, and is not part of either form.
    if not parser and dumps.get("min") is not None and dumps.get("full") is not None and not any(f.clause == "reload-total" for f in fails):
        try:
            again = cls.from_json(dumps["min"])
            J3 = call("minimal-is-enough", again.as_json, full=True, what="as_json(full=True) of the tree reloaded from the minimal dump")
        except GriffeRaised as gr:
            fails.append(gr.fail)
            J3 = None
        if J3 is not None and J3 != dumps["full"]:
            d = first_diff(json.loads(dumps["full"]), json.loads(J3))
            path, a, b = d if d else (("<text-only>",), None, None)
            fails.append(
                Fail(
                    "minimal-is-enough",
                    _kind_of(path),
                    f"full dump of the tree reloaded from the minimal dump differs from the original full dump at {'.'.join(path)}: original {_short(a, root)} / reloaded {_short(b, root)}",
                )
            )
    return fails, dumps


def _split(summary, keep_names: bool):
    """Two views of a summary: structure (names lists removed) and name resolution (only names lists)."""
    if isinstance(summary, dict):
        if "str" in summary and ("names" in summary or len(summary) == 1):
            if keep_names:
                return {"names": summary.get("names", []), "paths": summary.get("paths", []), "keywords": summary.get("keywords", [])}
            return {"str": summary["str"]}
        return {k: _split(v, keep_names) for k, v in summary.items()}
    if isinstance(summary, list):
        return [_split(v, keep_names) for v in summary]
    return None if keep_names else summary


def _compare_summaries(before, after, form: str, root) -> list[Fail]:
    fails = []
    d = first_diff(_split(before, False), _split(after, False))
    if d:
        path, a, b = d
        fails.append(
            Fail(
                "equivalent-tree",
                f"{form}:{_kind_of(path)}",
                f"{form} form: reloaded tree differs from the original at {'.'.join(path)}: original {_short(a, root)} / reloaded {_short(b, root)}",
            )
        )
    # names: one Fail per field (slot) whose names resolve differently; its detail lists every such place, so that a
    # known-finding predicate has to explain all of them
    groups: dict = {}
    for path, where, a, b in _all_name_diffs(_split(before, True), _split(after, True)):
        groups.setdefault(_kind_of(path), []).append((path, where, a, b))
    for kind, diffs in groups.items():
        path, _where, a, b = diffs[0]
        fails.append(
            Fail(
                "names-resolve",
                f"{form}:{kind}",
                f"{form} form: names resolve differently after reload at {'.'.join(path)} ({len(diffs)} place(s)): before {_short(a, root)} / after {_short(b, root)}",
                {"diffs": [{"where": list(w), "before": x, "after": y} for _, w, x, y in diffs[:50]], "n": len(diffs)},
            )
        )
    return fails


def _all_name_diffs(a, b, path=(), where=()):
    """Yields (generic path, concrete path, before, after) for every expression whose names resolve differently."""
    if isinstance(a, dict) and isinstance(b, dict):
        if "names" in a and "names" in b and isinstance(a["names"], list):
            if a["names"] != b["names"]:
                yield (*path, "names"), (*where, "names"), a["names"], b["names"]
            if a.get("paths") != b.get("paths"):
                yield (*path, "paths"), (*where, "paths"), a.get("paths"), b.get("paths")
            if a.get("keywords") != b.get("keywords"):
                yield (*path, "keywords"), (*where, "keywords"), a.get("keywords"), b.get("keywords")
            return
        for k in a:
            if k in b:
                yield from _all_name_diffs(a[k], b[k], (*path, _gen(path, k)), (*where, k))
    elif isinstance(a, list) and isinstance(b, list):
        for i, (x, y) in enumerate(zip(a, b)):
            yield from _all_name_diffs(x, y, (*path, "[]"), (*where, i))


# ----------------------------------------------------------------------------- case kinds
@contextlib.contextmanager
def _workdir(case):
    root = Path(tempfile.mkdtemp(prefix="verif-C08-case-", dir="/dev/shm" if os.access("/dev/shm", os.W_OK) else None))
    cwd = os.getcwd()
    try:
        yield root
    finally:
        os.chdir(cwd)
        shutil.rmtree(root, ignore_errors=True)


def _check_pkg(case, observe=None) -> list[Fail]:
    with _workdir(case) as root, warnings.catch_warnings():
        warnings.simplefilter("ignore")
        names = [G.PKG]
        try:
            try:
                _loader, module, info = load_generated(case, root)
            except _Skip as skip:
                if observe is not None:
                    observe["skip"] = skip.label
                return []
            if case.get("cwd") == "inside":
                os.chdir(info["search_paths"][0])
            elif case.get("cwd") == "root":
                os.chdir(root)  # an ancestor of every search path: relative_filepath of namespace packages depends on their order
            fails, dumps = roundtrip(module, str(root), case.get("parser"), steer=case.get("steer", ()))
            if observe is not None:
                observe["dumps"] = dumps
                observe["root"] = str(root)
            return fails
        finally:
            _purge(names, [str(root)])


def _check_builtin(case, observe=None) -> list[Fail]:
    import griffe

    loader = griffe.GriffeLoader(docstring_parser=_parser(case.get("parser")))
    try:
        module = loader.load(case["module"])
        _resolve(loader, case.get("resolve", 0))
    except Exception as exc:  # noqa: BLE001
        if observe is not None:
            observe["skip"] = f"load-error:{type(exc).__name__}"
        return []
    fails, dumps = roundtrip(module, None, case.get("parser"), steer=case.get("steer", ()))
    if observe is not None:
        observe["dumps"] = dumps
    return fails


REQUEST_FORMS = ("name", "relative-path", "dot-relative-path-slash", "absolute-path", "dotted-submodule")


def _cli_request(case, i: int, name: str, pkg, root: Path) -> str:
    """How package i is named on the command line (case["req"][i] indexes REQUEST_FORMS; default: its name).
    Path forms need a directory with an `__init__.py` (regular layout); the dotted form needs a sub-module."""
    req = case.get("req") or []
    form = REQUEST_FORMS[req[i] % len(REQUEST_FORMS)] if i < len(req) else "name"
    regular = pkg["layout"] != "namespace"
    if form == "relative-path" and regular:
        return f"p{i}/sp1/{name}"
    if form == "dot-relative-path-slash" and regular:
        return f"./p{i}/sp1/{name}/"
    if form == "absolute-path" and regular:
        return str(root / f"p{i}" / "sp1" / name)
    if form == "dotted-submodule":
        subs = [slot for slot in G._present_slots(pkg) if slot]
        if subs:
            return f"{name}.{subs[0]}"
    return name


def _check_cli(case, observe=None) -> list[Fail]:
    import griffe

    fails: list[Fail] = []
    with _workdir(case) as root, warnings.catch_warnings():
        warnings.simplefilter("ignore")
        names = [f"{G.PKG}{i}" for i in range(len(case["pkgs"]))]
        try:
            search: list[str] = []
            requests: list[str] = []
            dynamic = case.get("agent") == "dynamic"
            for i, (name, pkg) in enumerate(zip(names, case["pkgs"])):
                if dynamic and not pkg["importable"]:
                    if observe is not None:
                        observe["skip"] = "not-importable"
                    return []
                info = G.render_package(pkg, root / f"p{i}", style=case.get("parser"), name=name, steer=case.get("steer", ()))
                search += info["search_paths"]
                requests.append(_cli_request(case, i, name, pkg, root))
            os.chdir(root)  # relative path requests are relative to the working directory
            # reference: an identically configured loader (what _griffe.cli._load_packages builds)
            loader = griffe.GriffeLoader(
                search_paths=search,
                docstring_parser=_parser(case.get("parser")),
                docstring_options={},
                force_inspection=dynamic,
                store_source=False,
            )
            tops = []
            try:
                for request in requests:
                    loaded = loader.load(request, try_relative_path=True)
                    tops.append(loaded.package.name)
                if case.get("resolve"):
                    loader.resolve_aliases(implicit=case["resolve"] == 2, external=None)
            except Exception as exc:  # noqa: BLE001
                if observe is not None:
                    observe["skip"] = f"load-error:{type(exc).__name__}"
                return []
            full = bool(case.get("full"))
            # "for each requested package": the top-level package each request designates, however it was written
            # (name, relative / absolute path, trailing slash, dotted sub-module)
            if sorted(set(tops)) != sorted(names):
                if observe is not None:
                    observe["skip"] = "request-resolves-elsewhere"
                return []
            expected = {}
            for name in names:
                try:
                    expected[name] = json.loads(loader.modules_collection.members[name].as_json(full=full))
                except Exception:  # noqa: BLE001  dump-total is judged by the pkg cases; nothing to compare here
                    if observe is not None:
                        observe["skip"] = "reference-dump-raises"
                    return []
            args = ["dump", *requests]
            for sp in search:
                args += ["-s", sp]
            if full:
                args.append("-f")
            if case.get("parser"):
                args += ["-d", case["parser"]]
            if case.get("resolve"):
                args.append("-r")
                if case["resolve"] == 2:
                    args.append("-I")
            if dynamic:
                args.append("-x")
            args += ["-L", "CRITICAL"]
            out_mode = case.get("out", "stdout")
            outdir = root / "out"
            outdir.mkdir()
            if out_mode == "file":
                args += ["-o", str(outdir / "all.json")]
            elif out_mode == "template":
                args += ["-o", str(outdir / "{package}.json")]
            buf = io.StringIO()
            with contextlib.redirect_stdout(buf), contextlib.redirect_stderr(io.StringIO()):
                rc = call("cli", griffe.main, args, what="griffe " + " ".join(a.replace(str(root), "<ROOT>") for a in args))
            if rc != 0:
                fails.append(Fail("cli", "exit-code", f"griffe dump of {len(names)} loadable package(s) requested as {[r.replace(str(root), '<ROOT>') for r in requests]} returned {rc}"))
            try:
                if out_mode == "stdout":
                    got = json.loads(buf.getvalue())
                elif out_mode == "file":
                    got = json.loads((outdir / "all.json").read_text())
                else:
                    got = {p.stem: json.loads(p.read_text()) for p in sorted(outdir.glob("*.json"))}
            except (OSError, ValueError) as exc:
                fails.append(Fail("cli", f"{out_mode}:unreadable", f"output of griffe dump ({out_mode}) is not JSON: {exc!r}"))
                return fails
            if out_mode != "stdout" and buf.getvalue().strip():
                fails.append(Fail("cli", f"{out_mode}:stdout-not-empty", "griffe dump -o wrote to stdout as well"))
            if sorted(got) != sorted(expected):
                fails.append(Fail("cli", f"{out_mode}:packages", f"griffe dump {[r.replace(str(root), '<ROOT>') for r in requests]} ({out_mode}) dumped packages {sorted(got)}, requested {sorted(expected)}"))
            for name in names:
                if name in got and got[name] != expected[name]:
                    path, a, b = first_diff(expected[name], got[name]) or ((), None, None)
                    fails.append(
                        Fail(
                            "cli",
                            f"{out_mode}:{_kind_of(path)}",
                            f"griffe dump ({out_mode}, full={full}) differs from module.as_json at {'.'.join(path)}: as_json {_short(a, str(root))} / cli {_short(b, str(root))}",
                        )
                    )
            if observe is not None:
                observe["dumps"] = {"min": None, "full": None, "cli": json.dumps(got[names[0]]) if names[0] in got else None}
            return fails
        finally:
            root_logger_cleanup()
            _purge(names, [str(root)])


# ----------------------------------------------------------------------------- deeply nested expressions
DEEP_SHAPES = ("binop-left", "str-add-left", "pow-right", "unary", "subscript-left", "call-left", "ifexp-right", "attribute-chain")
DEEP_DEPTHS = (100, 200, 300, 400, 450)


def deep_expr_text(shape: str, depth: int) -> str:
    """Source text of an expression nested `depth` levels (no parentheses/brackets are nested: the tokenizer allows 200)."""
    if shape == "binop-left":  # ((A | B) | C) | ...
        return " | ".join(["A"] + [f"B{i % 7}" for i in range(depth)])
    if shape == "str-add-left":
        return " + ".join(["'a'"] + [f"'b{i % 7}'" for i in range(depth)])
    if shape == "pow-right":  # a ** (b ** (c ** ...))
        return " ** ".join(["A"] + [f"B{i % 7}" for i in range(depth)])
    if shape == "unary":
        return "not " * depth + "A"
    if shape == "subscript-left":  # A[0][1][2]...
        return "A" + "".join(f"[{i % 7}]" for i in range(depth))
    if shape == "call-left":  # A()()()...
        return "A" + "()" * depth
    if shape == "ifexp-right":  # A if B else (A if B else (...))
        return "A if B else " * depth + "C"
    if shape == "attribute-chain":  # A.b.b.b (one flat ExprAttribute)
        return "A" + ".b" * depth
    raise ValueError(shape)


def _check_deep(case, observe=None) -> list[Fail]:
    """dump-total / reload-total / identical-json (+ minimal-is-enough) on a module whose attribute value and annotation,
    parameter default and decorator are one expression nested `depth` levels. Only trees that were loaded count: when the
    visitor itself gave the expression up (it logs an error and stores None) the case is skipped. The structural walk is
    not run: str() and the flat iteration of expressions recurse deeper than the serialisation does."""
    import griffe
    from _griffe.expressions import Expr

    text = deep_expr_text(case["shape"], case["depth"])
    with _workdir(case) as root, warnings.catch_warnings():
        warnings.simplefilter("ignore")
        pkg = root / "c08deep"
        pkg.mkdir()
        (pkg / "__init__.py").write_text(f"x: {text} = {text}\n@({text})\ndef f(a={text}): ...\n", encoding="utf8")
        loader = griffe.GriffeLoader(search_paths=[str(root)])
        try:
            module = loader.load("c08deep")
        except Exception as exc:  # noqa: BLE001
            if observe is not None:
                observe["skip"] = f"load-error:{type(exc).__name__}"
            return []
        loaded = [module["x"].value, module["x"].annotation, module["f"].parameters["a"].default] + [d.value for d in module["f"].decorators]
        if len(loaded) < 4 or not all(isinstance(e, Expr) for e in loaded):
            if observe is not None:
                observe["skip"] = "visitor-gave-up"
            return []
        fails: list[Fail] = []
        dumps: dict = {}
        for full in (False, True):
            form = "full" if full else "min"
            try:
                J = call("dump-total", module.as_json, full=full, what=f"as_json(full={full}) of a {case['shape']} expression nested {case['depth']} deep")
                dumps[form] = J
                again = call("reload-total", griffe.Module.from_json, J, what=f"from_json of the {form} dump ({case['shape']}, depth {case['depth']})")
                J2 = call("identical-json", again.as_json, full=full, what=f"as_json(full={full}) of the reloaded tree ({case['shape']}, depth {case['depth']})")
            except GriffeRaised as gr:
                gr.fail.kind = f"deep:{form}:{gr.fail.kind}"
                fails.append(gr.fail)
                continue
            if J2 != J:
                fails.append(Fail("identical-json", f"deep:{form}", f"{form} form of a {case['shape']} expression nested {case['depth']} deep is not reproduced by the reloaded tree"))
        if observe is not None:
            observe["deep"] = True
        return fails


def root_logger_cleanup() -> None:
    """griffe.main calls logging.basicConfig: drop the handler it installs so that nothing accumulates."""
    import logging

    rl = logging.getLogger()
    for h in list(rl.handlers):
        rl.removeHandler(h)


def check_case(case, observe=None) -> list[Fail]:
    kind = case.get("kind", "pkg")
    if kind == "pkg":
        return _check_pkg(case, observe)
    if kind == "builtin":
        return _check_builtin(case, observe)
    if kind == "deep":
        return _check_deep(case, observe)
    if kind == "cli":
        return _check_cli(case, observe)
    raise ValueError(f"unknown case kind {kind!r}")


# ----------------------------------------------------------------------------- strategies / search
def _pkg_cases(ctx):
    leaves = ctx.scale(5, 7)
    steer = sorted(ctx.known & set(STEERING))
    static = st.fixed_dictionaries(
        {
            "kind": st.just("pkg"),
            "pkg": G.packages(None, leaves),
            "agent": st.just("static"),
            "resolve": st.sampled_from((0, 1, 2)),
            "parser": st.sampled_from(PARSERS),
            "cwd": st.sampled_from(("outside", "inside", "root")),
            "steer": st.just(steer),
        },
    )
    dynamic = st.fixed_dictionaries(
        {
            "kind": st.just("pkg"),
            "pkg": G.packages(True, leaves),
            "agent": st.just("dynamic"),
            "resolve": st.sampled_from((0, 1, 2)),
            "parser": st.sampled_from(PARSERS),
            "cwd": st.sampled_from(("outside", "inside", "root")),
            "steer": st.just(steer),
        },
    )
    def cli(agent, importable):
        return st.fixed_dictionaries(
            {
                "kind": st.just("cli"),
                "pkgs": st.lists(G.packages(importable, 4), min_size=1, max_size=2),
                "agent": st.just(agent),
                "resolve": st.sampled_from((0, 1, 2)),
                "parser": st.sampled_from(PARSERS),
                "full": st.sampled_from((True, False)),
                "out": st.sampled_from(("template", "file", "stdout")),
                "req": st.lists(st.integers(0, len(REQUEST_FORMS) - 1), min_size=2, max_size=2),
                "steer": st.just(steer),
            },
        )

    # one_of() merges identical branches, so weights are drawn explicitly (the branch strategies are built once)
    branches = {"static": static, "dynamic": dynamic, "cli-static": cli("static", None), "cli-dynamic": cli("dynamic", True)}
    weights = ("static",) * 5 + ("dynamic",) * 3 + ("cli-static", "cli-dynamic")
    return st.sampled_from(weights).flatmap(branches.__getitem__)


def _known_parsed_sections(case, fail: Fail) -> bool:
    """Full dump made with a docstring parser: the reloaded tree has no parser, `docstring.parsed` is re-derived as
    a single text section. Only this difference, only in the full form, only when a parser was selected."""
    return bool(case.get("parser")) and fail.clause == "identical-json" and fail.kind.startswith("full:") and "docstring.parsed" in fail.kind


def _name_diffs(fail: Fail):
    """[(where, [(before, after) per differing name])] of a names-resolve Fail, or None when it cannot be read."""
    if fail.clause != "names-resolve" or not isinstance(fail.detail, dict):
        return None
    diffs = fail.detail.get("diffs")
    if not isinstance(diffs, list) or not diffs or fail.detail.get("n") != len(diffs):
        return None
    out = []
    for d in diffs:
        before, after = d.get("before"), d.get("after")
        if not isinstance(before, list) or not isinstance(after, list) or len(before) != len(after):
            return None
        out.append((d.get("where") or [], [(x, y) for x, y in zip(before, after) if x != y]))
    return out


def _known_init_param_names(case, fail: Fail) -> bool:
    """Instance attributes assigned in `__init__` are built in the scope of the `__init__` function, where a name equal to
    one of its parameters resolves to `Class(param)`, a name defined in its body to `Class.__init__.name` and the name of the
    enclosing class to that class (even when the class has a member of the same name); the reloaded attribute is attached
    to the class. Every name that differs must have one of these three forms, in an attribute value/annotation."""
    import re

    diffs = _name_diffs(fail)
    if not diffs:
        return False
    for where, pairs in diffs:
        if "parameters" in where or not pairs:
            return False
        # `name -> pkg.Class(name)` (a parameter of __init__), `name -> pkg.Class.__init__.name` (defined in its body), or
        # `Class -> pkg.Class` becoming `pkg.Class.Class` (from the function scope the name of the enclosing class wins,
        # from the class scope its member of the same name does)
        for x, y in pairs:
            name, _, before = x.partition("->")
            if re.fullmatch(r"(\w+)->[\w.]+\(\1\)", x) or re.fullmatch(r"(\w+)->[\w.]+\.__init__\.\1", x):
                continue
            if (before == name or before.endswith("." + name)) and y == f"{name}->{before}.{name}":
                continue
            return False
    return True


def _known_init_forwarded_annotation(case, fail: Fail) -> bool:
    """The decoder resolves the expressions of an attribute in the scope of `__init__` when the attribute lies within the
    lines of the class's `__init__` member, in the scope of the class otherwise. Two shapes defeat that rule, because the JSON
    does not record the scope an expression was built in:
    (a) `class A: x: T` followed by `self.x = ...` in `__init__`: the visitor forwards the class-level annotation (class scope)
        to the attribute assigned in `__init__` (reloaded in `__init__` scope);
    (b) a class body that defines `__init__` twice: attributes assigned by the first definition (its scope) lie outside the
        lines of the surviving member (reloaded in class scope).
    Only values/annotations of attributes, and for every name that differs exactly one side must have an `__init__`-scope form
    (`name -> pkg.A(name)`, `name -> pkg.A.__init__.name`, or the class-name rule `A -> pkg.A` vs `pkg.A.A`)."""
    import re

    def init_form(entry: str) -> bool:
        return bool(re.fullmatch(r"(\w+)->[\w.]+\(\1\)", entry) or re.fullmatch(r"(\w+)->[\w.]+\.__init__\.\1", entry))

    def classes(stmts):
        for stmt in stmts:
            if stmt[0] == "class":
                yield stmt[2]
                yield from classes(stmt[2]["body"])
            elif stmt[0] == "func":
                yield from classes(stmt[2].get("inner", ()))

    pkgs = case.get("pkgs") or ([case["pkg"]] if "pkg" in case else [])
    specs = [spec for pkg in pkgs for m in pkg["mods"].values() if m for spec in classes(m["body"])]
    inits = lambda spec: [st_ for st_ in spec["body"] if st_[0] == "func" and st_[1] == "__init__"]  # noqa: E731
    double_init = any(len(inits(spec)) > 1 for spec in specs)  # shape (b)
    forwarding = any(  # shape (a): class-level annotated attribute + assignment without annotation in __init__
        st_[0] == "attr" and st_[2] is not None and any(sa[0] == st_[1] and sa[1] is None for init in inits(spec) for sa in init[2]["selfattrs"])
        for spec in specs
        for st_ in spec["body"]
    )
    diffs = _name_diffs(fail)
    if not diffs:
        return False
    for where, pairs in diffs:
        if "parameters" in where or not ({"annotation", "value"} & set(where)) or not pairs:
            return False
        for x, y in pairs:
            name = x.partition("->")[0]
            lost = (init_form(x) and not init_form(y)) or y == f"{x}.{name}"  # __init__ scope before, class scope after
            gained = (init_form(y) and not init_form(x)) or x == f"{y}.{name}"  # class scope before, __init__ scope after
            if lost and double_init:
                continue
            if gained and forwarding and "annotation" in where:
                continue
            return False
    return True


def _known_parsed_annotation_scope(case, fail: Fail) -> bool:
    """Items of parsed docstring sections that carry no type borrow the annotation *object* of the documented attribute /
    function (returns, parameters), whose names live in the scope of that signature - for an attribute assigned in
    `__init__` the scope of the method (`a -> pkg.A(a)`); the decoder attaches every annotation of the parsed sections to
    the documented object (`a -> a`). Only annotations inside docstring.parsed, full form, and only names that gain or
    lose an `__init__`-scope form (or the class-name rule)."""
    import re

    def init_form(entry: str) -> bool:
        return bool(re.fullmatch(r"(\w+)->[\w.]+\(\1\)", entry) or re.fullmatch(r"(\w+)->[\w.]+\.__init__\.\1", entry))

    diffs = _name_diffs(fail)
    if not diffs or not fail.kind.startswith("full:"):
        return False
    for where, pairs in diffs:
        if "parsed" not in where or "annotation" not in where or not pairs:
            return False
        for x, y in pairs:
            name = x.partition("->")[0]
            if init_form(x) != init_form(y) or x == f"{y}.{name}" or y == f"{x}.{name}":
                continue
            return False
    return True


def _known_dataclass_inherited_fields(case, fail: Fail) -> bool:
    """The `__init__` synthesised for a dataclass re-uses the field expressions of its parent dataclasses: their names
    live in the scope of the parent class; after reload every parameter expression is attached to the subclass. Only
    parameters of an `__init__`, only a change of the scope prefix of a resolved name, only with dataclasses around."""
    diffs = _name_diffs(fail)
    if not diffs or '"dc": true' not in json.dumps(case) and '["known", 2]' not in json.dumps(case):
        return False
    for where, pairs in diffs:
        if "parameters" not in where or where[where.index("parameters") - 1] != "__init__" or not pairs:
            return False
        for x, y in pairs:
            nx, _, px = x.partition("->")
            ny, _, py = y.partition("->")
            if nx != ny or "." not in px or not px.endswith("." + nx.split("=")[0]) and not px.endswith(")"):
                return False
    return True


# slug -> what the generator / comparison does while the finding is listed
STEERING: dict = {
    "parsed-sections": "full-form identity is compared modulo docstring.parsed when a docstring parser is selected",
    "init-param-names": "`__init__` parameters, objects defined in `__init__` bodies and nested classes named like their enclosing class are renamed so that no expression of an instance attribute resolves differently from the function scope",
    "dataclass-inherited-fields": "classes decorated with dataclasses.dataclass are rendered without bases",
    "init-forwarded-annotation": "attributes assigned in `__init__` get names (`x_i`) that no class-level attribute has, so no annotation is forwarded to them; a class body defines `__init__` at most once",
    "parsed-annotation-scope": "docstrings of attributes assigned in `__init__` are rendered without sections",
}
KNOWN: dict = {
    "parsed-sections": _known_parsed_sections,
    "init-param-names": _known_init_param_names,
    "dataclass-inherited-fields": _known_dataclass_inherited_fields,
    "init-forwarded-annotation": _known_init_forwarded_annotation,
    "parsed-annotation-scope": _known_parsed_annotation_scope,
}


def _steered(slug: str, case) -> bool:
    """Did the steering switch `slug` change what this case renders / compares?"""
    if slug == "parsed-sections":
        return bool(case.get("parser")) and case.get("kind") in ("pkg", "builtin")
    if slug == "dataclass-inherited-fields":
        text = json.dumps(case)
        return '"dc": true' in text or '["known", 2]' in text
    if slug == "parsed-annotation-scope":
        return bool(case.get("parser")) and '"selfattrs": [[' in json.dumps(case)
    if slug == "init-forwarded-annotation":
        return '"selfattrs": [[' in json.dumps(case)
    if slug == "init-param-names":

        def walk(stmts, enclosing=None):
            for stmt in stmts:
                if stmt[0] == "class":
                    if stmt[1] == enclosing or walk(stmt[2]["body"], stmt[1]):
                        return True
                elif stmt[0] == "func" and stmt[1] == "__init__" and stmt[2]["selfattrs"]:
                    p = stmt[2]["params"]
                    names = [e[0] for e in p["po"] + p["pk"] + p["ko"]] + [e[0] for e in (p["va"], p["vk"]) if e]
                    names += [inner[1] for inner in stmt[2].get("inner", ())]
                    if '"param"' in json.dumps(stmt[2]["selfattrs"]) or any(n in G.EXPR_NAMES for n in names):
                        return True
            return False

        pkgs = case.get("pkgs") or ([case["pkg"]] if "pkg" in case else [])
        return any(walk(m["body"]) for pkg in pkgs for m in pkg["mods"].values() if m)
    return False


def strategy(ctx):
    return _pkg_cases(ctx), "c08"


def _normalise(text: str | None, root: str | None) -> str | None:
    if text is None or not root:
        return text
    return text.replace(root, "<ROOT>")


def describe_with(observed: dict, case):
    classes = [f"kind:{case['kind']}"]
    if "skip" in observed:
        classes.append("skip:" + observed["skip"])
        return None, classes, None
    dumps = observed.get("dumps") or {}
    src = dumps.get("min") or dumps.get("full") or dumps.get("cli")
    if case["kind"] == "cli":
        classes += [f"cli:out={case['out']}", f"cli:n={len(case['pkgs'])}", f"cli:full={case['full']}", f"cli:agent={case['agent']}"]
        classes += sorted({f"cli:req={REQUEST_FORMS[r % len(REQUEST_FORMS)]}" for r in (case.get("req") or [0])[: len(case["pkgs"])]})
    else:
        classes += [f"agent:{case.get('agent', 'builtin')}", f"resolve:{case.get('resolve')}", f"parser:{case.get('parser')}"]
        if case["kind"] == "pkg":
            classes += [f"layout:{case['pkg']['layout']}", f"cwd:{case.get('cwd')}"]
            if case["pkg"]["layout"] == "namespace":
                classes.append(f"search-paths:{'swapped' if case['pkg'].get('swap') else 'alphabetical'}")
        for form in ("min", "full"):
            if dumps.get(form) is None:
                classes.append(f"dump-failed:{form}")
    classes += [f"exprfield:{label}" for label in dumps.get("expr_fields", ())]
    if not src:
        return None, classes, None
    key = None
    sample = None
    try:
        doc = json.loads(src)
        f = features(doc)
        if dumps.get("full"):
            f["sections"] |= features(json.loads(dumps["full"]))["sections"]
    except Exception:  # noqa: BLE001
        return None, classes, None
    classes += [f"objkind:{k}" for k in sorted(k for k in f["kinds"] if k)]
    classes += [f"expr:{c}" for c in sorted(f["exprs"])]
    classes += [f"section:{s}" for s in sorted(s for s in f["sections"] if s)]
    if f["aliases"]:
        classes.append("has:alias")
    if f["depth"] >= 2:
        classes.append("has:nested-expr")
    if f["no_lineno"]:
        classes.append("has:no-lineno")
    if f["odd_filepath"]:
        classes.append("has:list-or-null-filepath")
    if f["param_doc"]:
        classes.append("has:parameter-docstring")
    if f.get("empty_doc"):
        classes.append("has:empty-docstring")
    if f["aliases"] and (f["depth"] >= 2 or f["no_lineno"] or f["odd_filepath"]):
        norm = _normalise(src, observed.get("root"))
        key = digest([norm, case["kind"], case.get("agent"), case.get("resolve"), case.get("parser"), case.get("cwd"), case.get("full"), case.get("out")])
        sample = {
            "kind": case["kind"],
            "agent": case.get("agent"),
            "resolve": case.get("resolve"),
            "parser": case.get("parser"),
            "layout": case["pkg"]["layout"] if case["kind"] == "pkg" else None,
            "aliases": f["aliases"],
            "expr_classes": sorted(f["exprs"]),
            "json_chars": len(src),
        }
    return key, classes, sample


def run_shard(ctx) -> None:
    from vp.common.harness import run_check

    # every (Expr class, field with a default, value kind) the generator has to exercise shows up in the class histogram
    # of the evidence, with a count of 0 when it never occurred
    expected = expected_field_labels()
    for label in expected:
        ctx.res.classes[label] += 0

    # fixed built-in modules: every configuration, spread over the shards (enumerated, so counted exactly)
    configs = [(m, r, p) for m in BUILTINS for r in (0, 1, 2) for p in PARSERS]
    for i, (m, r, p) in enumerate(configs):
        if i % ctx.nshards != ctx.shard:
            continue
        case = {"kind": "builtin", "module": m, "resolve": r, "parser": p, "steer": sorted(ctx.known & set(STEERING))}
        observed: dict = {}
        fails = run_check(lambda c, o=observed: check_case(c, o), case)
        key, classes, sample = describe_with(observed, case)
        ctx.case(key, classes, sample, enumerated=key is not None)
        for f in fails:
            ctx.fail(f, case)

    # very deeply nested expressions (enumerated, outside Hypothesis so that the stack they start from is shallow)
    deep = [(sh, d) for sh in DEEP_SHAPES for d in DEEP_DEPTHS]
    for i, (sh, d) in enumerate(deep):
        if i % ctx.nshards != ctx.shard:
            continue
        case = {"kind": "deep", "shape": sh, "depth": d}
        observed = {}
        fails = run_check(lambda c, o=observed: check_case(c, o), case)
        label = "skip:" + observed["skip"] if "skip" in observed else "roundtrip"
        ctx.case(("deep", sh, d) if "deep" in observed else None, ("kind:deep", f"deep:{sh}:{label}", f"deep:depth={d}:{label}"), None, enumerated="deep" in observed)
        for f in fails:
            ctx.fail(f, case)

    observed_box: dict = {}

    def checked(case):
        observed_box.clear()
        for slug in case.get("steer", ()):
            if _steered(slug, case):
                ctx.excluded(slug)
        return check_case(case, observed_box)

    def describe(case):
        return describe_with(dict(observed_box), case)

    strat, salt = strategy(ctx)
    for slug in sorted(ctx.known & set(STEERING)):
        ctx.excluded(slug, 0)  # make the slug visible in the evidence even when no case needed steering
    ctx.run_hypothesis(strat, checked, max_examples=ctx.scale(120, 2500), describe=describe, salt=salt)
    # (shard, triple) pairs that never occurred: 0 in a thorough run means every shard exercised every field value
    ctx.res.extra["exprfield_kinds_expected"] = f"{len(expected)} (class, field, value-kind) triples from dataclasses.fields; not buildable by Griffe: {sorted(UNREACHABLE_FIELD_KINDS)}"
    ctx.res.extra["exprfield_kinds_unseen_shard_pairs"] = sum(1 for label in expected if not ctx.res.classes[label])
