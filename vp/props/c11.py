"""C11 — API diff: silent on compatible change, reports every public removal / re-kinding / base removal /
attribute value change, respects the public frontier, skips unresolvable or cyclic re-exports, and the CLI check
exits non-zero exactly when something is reported.

Domain: two-version histories = (generated package model, edit script of 1-4 catalogue edits applied at locations of
the ORIGINAL model).  Packages: `pk` with public / private modules and sub-packages, `__all__` in some modules
(list / tuple / built with `+=` / declared EMPTY as `[]`, `()` or assembled from another module's empty `__all__`),
re-exports (also chains) from private modules, wildcard re-exports (`from m import *` in modules that declare `__all__`),
module aliases, classes with (private / imported) bases (also two bases sharing a short name), nested classes,
imports written inside class bodies, `__all__`-listed re-exports written under `if TYPE_CHECKING:`, unresolvable (external module, dynamic
name) and cyclic (name cycles, module-alias cycles) re-exports in public positions.
Oracle: the public-frontier reference model of vp/gen/c11_model.py, computed from the generator's model with the
documented is_public decision table — never from Griffe's output.

Clauses
  compatible-silent      script made only of catalogue-compatible edits (add fresh public objects / modules / methods,
                         add an optional keyword-only parameter, docstring/body change, reorder, newly export a name,
                         any change of an object the public surface cannot observe)  =>  no breakage at all
  incompatible-reported  each remove / re-kind / value change / base removal of an object that is public under every
                         reading of the table, and that stays publicly reachable through a route no other edit of the
                         script touches  =>  >=1 breakage of the expected kind whose obj.path is the object's canonical
                         path or <canonical path of a publicly reached container>.<member name>  (DESIGN 5.3); a removal
                         is demanded only on such a route where the name really disappears (no inherited fallback)
  public-frontier        every breakage's obj.path designates something publicly reachable (liberal reading) in the
                         old or the new model
  no-abort               load + find_breaking_changes + explain(every style) never raise, whatever unresolvable /
                         cyclic re-exports the package contains
  cli-exit               (sampled) both versions in a scratch git repository: griffe.check(...) != 0  <=>  the in-process
                         comparison of the same two trees reported something  <=>  something was printed
"""

from __future__ import annotations

import contextlib
import io
import os
import shutil
import subprocess
import sys
import tempfile
from pathlib import Path

from vp.common.harness import Fail, GriffeRaised, call
from vp.gen import c11_model as M

ID = "C11"
LEVEL = "exploration"
RULE = (
    "Hypothesis-generated histories: package model (2-7 modules, __all__ incl. empty / += / assembled forms, re-export chains, "
    "wildcard re-exports, module aliases, private bases, nested classes, unresolvable/cyclic public re-exports) + edit script of 1-4 catalogue edits placed at locations of the original model "
    "(location class direct / reexport / inherit / dead / gray chosen by construction). non-trivial = the script has an "
    "expectation-bearing incompatible edit on an object that is public only through a re-export, alias or inheritance, or it "
    "mixes compatible and incompatible edits; distinct = distinct (package model, script)"
)
ASSUMPTIONS = [
    "publicness oracle = decision table of docs/guide/users/navigating.md and the is_public docstring; a non-underscore "
    "sub-module that a non-empty __all__ does not list is treated as ambiguous (no removal is demanded below it, reports below it are accepted)",
    "a breakage identifies an object when obj.path is the object's canonical path or <canonical path of a publicly reached "
    "container>.<name> (DESIGN 5.3: reports against the resolved target of a re-export are accepted)",
    "removing a definition also removes the import statements that import it (a coherent new version); classes used as a "
    "base elsewhere are never removed / re-kinded; un-exporting a name that stays defined is not generated (not a removal)",
    "both versions are loaded statically with the options griffe.check uses (resolve_aliases=True, resolve_external=None, allow_inspection=False)",
    "CLI clause: git 2.39 from PATH with GIT_CONFIG_GLOBAL/SYSTEM=/dev/null; check() is called in-process with cwd = repository",
    "names are unique per scope, member names never collide with sub-module names",
    "a re-export listed in a non-empty __all__ may be written under `if TYPE_CHECKING:` (lazy-loading layout); it is public because it "
    "is listed (is_public does not look at `runtime`), but it is not provided to wildcard importers (is_wildcard_exposed requires runtime); "
    "names that are type-guarded and NOT listed are never generated (their publicness is not documented)",
    "a removal is demanded only on a route whose container stays publicly reachable without the removed object and its cascade "
    "(a module can be reached through one of its own members)",
    "an import written inside a class body is imported-but-not-exported there (docs: class-level objects are public unless private-named "
    "or imported): private under both readings in its own class; seen through a subclass the code no longer knows it was imported, "
    "so there it is treated as ambiguous (neither demanded nor forbidden)",
    "a class may derive from two classes that share their short name but live in different modules (second one imported under an alias, "
    "from pk.b import K as K_b); removing either is a removed base like any other (the property text names 'removing a base class')",
    "attribute values are source texts from a fixed pool (constants, operators, containers, calls, names, attribute chains, "
    "comprehension, lambda, subscript, conditional); a value change = two different pool texts, old and new drawn independently "
    "(constant<->expression both ways, expression->expression, constant->constant); all 992 ordered pairs were checked to be reported on the unchanged tree",
    "an empty __all__ is a declared __all__ (docs + is_public docstring, /repo 7432fdb): every non-module member below it is private "
    "under both readings; edits to them are unobservable and no breakage may name them; names are never added to an empty __all__",
    "wildcard imports are generated only in modules that declare __all__ (publicness of the provided names = listed or not; without "
    "__all__ the code comment and the docs disagree), only from modules later in the module order (acyclic) and never when a "
    "provided name collides with a bound name; provided names follow is_wildcard_exposed (source __all__, else no leading underscore, no sub-modules)",
]
BUDGET_S = {"quick": 75.0, "thorough": 1150.0}
SHRINK_MAX_EXAMPLES = 4000

STYLES = ("oneline", "verbose", "markdown", "github")
_TMP_BASE: str | None = None


# ----------------------------------------------------------------------------- strategy
def _strategies():
    from hypothesis import strategies as st

    small = st.integers(0, 7)

    def weighted(*pairs):
        """one_of() with integer weights.  one_of() drops duplicate branches, so a branch is repeated as distinct
        (identity-mapped) strategy objects."""
        branches = []
        for strat, weight in pairs:
            branches += [strat] + [strat.map(lambda x: x) for _ in range(weight - 1)]
        return st.one_of(*branches)

    # attribute values: index into M.VALUES (constants, operators, containers, calls, names, attribute chains)
    value = st.integers(0, len(M.VALUES) - 1)
    func = st.fixed_dictionaries({"k": st.just("func"), "name": small, "sig": small, "doc": st.integers(0, 2)}, optional={"exp": st.booleans()})
    attr = st.fixed_dictionaries({"k": st.just("attr"), "name": small, "val": value}, optional={"exp": st.booleans()})
    meth = st.fixed_dictionaries({"k": st.just("meth"), "name": small, "sig": small, "doc": st.integers(0, 1)})
    cattr = st.fixed_dictionaries({"k": st.just("cattr"), "name": small, "val": value})
    ncls = st.fixed_dictionaries({"k": st.just("ncls"), "name": st.integers(0, 1), "body": st.lists(st.one_of(meth, cattr), min_size=1, max_size=3)})
    cimp = st.fixed_dictionaries(
        {"k": st.just("cimp"), "name": st.integers(0, 1), "mod": small, "pick": small, "form": st.sampled_from(["name", "name", "name", "missing_mod"])}
    )
    cmem = weighted((meth, 3), (cattr, 3), (ncls, 1), (cimp, 1))
    cls = st.fixed_dictionaries(
        {
            "k": st.just("cls"),
            "name": small,
            "bases": weighted((st.lists(small, min_size=1, max_size=2), 2), (st.just([]), 1)),
            "body": st.lists(cmem, min_size=1, max_size=4),
            "doc": st.integers(0, 1),
        },
        optional={"exp": st.booleans()},
    )
    imp = st.fixed_dictionaries(
        {
            "k": st.just("imp"),
            "name": weighted((st.none(), 2), (small, 1)),
            "mod": small,
            "pick": small,
            "prefer": st.sampled_from(["any", "any", "cls", "cls", "imp"]),
            "form": st.sampled_from(["name"] * 10 + ["module", "module", "missing_mod", "missing_name", "cycle", "modcycle"]),
            "exp": st.sampled_from([True, True, True, False]),
            "rel": st.sampled_from([False, False, True]),
            "tc": st.sampled_from([False, False, True]),  # written under `if TYPE_CHECKING:` (only kept when listed in __all__)
        }
    )
    star = st.fixed_dictionaries({"k": st.just("star"), "mod": small})
    allspec = weighted(
        (st.none(), 2),
        (
            st.fixed_dictionaries(
                {
                    "bits": st.integers(0, 0xFFFF),
                    "subs": st.sampled_from(["public"] * 6 + ["all", "none"]),
                    "form": st.sampled_from(["list", "list", "list", "tuple", "aug"]),  # [..] / (..) / [..] then += [..]
                    "stars": st.sampled_from([True, True, True, False]),  # list the names wildcard imports provide
                }
            ),
            4,
        ),
        # declared but empty: literal [] / (), [] then += [], or assembled from another module's empty __all__
        (st.fixed_dictionaries({"empty": st.sampled_from(["list", "tuple", "aug", "from"]), "src": small}), 1),
    )
    modname = st.sampled_from([0, 1, 2, 3, 4, 4, 5, 5])  # private module names twice as likely
    # implementation modules are definition heavy, the root (and "facade" modules) import heavy
    member_def = weighted((func, 2), (attr, 2), (cls, 6), (imp, 2), (star, 1))
    member_imp = weighted((func, 1), (attr, 1), (cls, 1), (imp, 4), (star, 1))
    impl_module = st.fixed_dictionaries(
        {"name": modname, "parent": small, "all": allspec, "body": st.lists(member_def, min_size=2, max_size=6), "doc": st.integers(0, 1)}
    )
    facade_module = st.fixed_dictionaries(
        {"name": modname, "parent": small, "all": allspec, "body": st.lists(member_imp, min_size=2, max_size=6), "doc": st.integers(0, 1)}
    )
    module = weighted((impl_module, 2), (facade_module, 1))
    pkg = st.builds(lambda root, rest: {"mods": [root, *rest]}, facade_module, st.lists(module, min_size=2, max_size=6))

    at = st.integers(0, 63)
    inc_where = st.sampled_from(["direct", "direct", "reexport", "reexport", "reexport", "inherit", "inherit", "inherit", "gray"])
    incompat = st.fixed_dictionaries(
        {
            "op": st.sampled_from(["remove", "remove", "rekind", "rekind", "chvalue", "chvalue", "rmbase"]),
            "at": at,
            "where": inc_where,
            "arg": small,
            "val": value,  # chvalue: the new value, drawn independently of the old one
        }
    )
    dead = st.fixed_dictionaries(
        {
            "op": st.sampled_from(["remove", "rekind", "chvalue", "rmbase", "chsig", "chsig"]),
            "at": at,
            "where": st.just("dead"),
            "arg": small,
            "hidden": st.sampled_from([True, True, False]),  # prefer public-looking objects below an empty __all__
            "focus": st.sampled_from(["any", "any", "cimp"]),  # prefer imports written inside a class body
            "val": value,
        }
    )
    compat = st.fixed_dictionaries(
        {
            "op": st.sampled_from([o for o in M.COMPAT_OPS if o != "identity"]),
            "at": at,
            "where": st.sampled_from(["any", "direct", "reexport", "inherit"]),
            "arg": small,
            "flag": st.booleans(),
        }
    )
    ident = st.fixed_dictionaries({"op": st.just("identity")})
    script_compat = st.lists(weighted((compat, 10), (dead, 6), (ident, 1)), min_size=1, max_size=4)
    script_mixed = st.lists(weighted((incompat, 3), (compat, 1), (dead, 1)), min_size=1, max_size=4)
    script = weighted((script_compat, 1), (script_mixed, 2))
    # the script is drawn before the package (Hypothesis fills the tail of an example with minimal choices quite often);
    # one CLI history for every ~40 in-process histories (a CLI run costs ~10 git sub-processes); the CLI options are
    # always drawn and ignored by "diff" cases (one_of() would not honour a 39:1 weighting of identical branches)
    cli_opts = st.fixed_dictionaries(
        {
            "layout": st.sampled_from(["flat", "src"]),
            "commit_new": st.booleans(),
            "against": st.sampled_from(["tag", "latest", "sha-branch"]),
            "style": st.sampled_from([None, *STYLES]),
            "verbose": st.booleans(),
            "color": st.sampled_from([None, None, True, False]),
        }
    )
    return st.fixed_dictionaries({"kind": st.sampled_from(["diff"] * 39 + ["cli"]), "cli": cli_opts, "script": script, "pkg": pkg})


def strategy(ctx):
    return _strategies()


# ----------------------------------------------------------------------------- Griffe side
_SWEPT: list = []


def _scratch() -> Path:
    base = _TMP_BASE or os.environ.get("VERIF_TMP") or ("/dev/shm" if os.access("/dev/shm", os.W_OK) else "/var/tmp")
    if not _SWEPT:
        # housekeeping only (never part of a verdict): a shrink worker that the runner terminates on its time-out cannot
        # remove its current case directory; remove such leftovers once per process when they are older than 15 minutes
        _SWEPT.append(True)
        import time

        for old in Path(base).glob("verif-C11-case-*"):
            with contextlib.suppress(OSError):
                if time.time() - old.stat().st_mtime > 900:
                    shutil.rmtree(old, ignore_errors=True)
    return Path(tempfile.mkdtemp(prefix="verif-C11-case-", dir=base))


def _write_tree(root: Path, files: dict[str, str]) -> None:
    for rel, text in files.items():
        f = root / rel
        f.parent.mkdir(parents=True, exist_ok=True)
        f.write_text(text)


def _load(directory: Path):
    import griffe

    # the options of _griffe.cli.check
    return call(
        "no-abort",
        griffe.load,
        M.ROOT,
        try_relative_path=False,
        search_paths=[str(directory)],
        allow_inspection=False,
        resolve_aliases=True,
        resolve_external=None,
        what=f"griffe.load({M.ROOT!r})",
    )


def _breakages(old, new) -> list[tuple[str, str]]:
    import griffe

    found = call("no-abort", lambda: list(griffe.find_breaking_changes(old, new)), what="find_breaking_changes")
    out = []
    for b in found:
        path = call("no-abort", lambda b=b: b.obj.path, what="breakage.obj.path")
        for style in griffe.ExplanationStyle:
            call("no-abort", b.explain, style, what=f"Breakage.explain({style.value}) of {b.kind.name} on {path}")
        out.append((b.kind.name, path))
    return out


# ----------------------------------------------------------------------------- oracle
def analyse(case: dict) -> dict:
    """Everything that does not need Griffe: models, rendered trees, expectations."""
    old_model = M.build(case["pkg"])
    new_model, records, ed = M.apply_script(old_model, case["script"])
    opkg, npkg = ed.opkg, M.Pkg(new_model)
    applied = [r for r in records if not r.get("skipped")]

    # edits the public surface cannot observe must only cascade into unobservable entities (harness sanity)
    for r in applied:
        if r["op"] in M.INCOMPAT_OPS and r["loc"] == "dead" and any(ed.loc_class(c) != "dead" for c in r.get("cascade", ())):
            r["loc"] = "gray"

    def compatible(r) -> bool:
        return r["op"] in M.COMPAT_OPS or r["op"] in M.PRIVATE_ONLY_OPS or (r["op"] in M.INCOMPAT_OPS and r["loc"] == "dead")

    compat_only = all(compatible(r) for r in applied)

    expectations = []
    for i, r in enumerate(applied):
        if r["op"] not in M.INCOMPAT_OPS or r["loc"] not in ("direct", "reexport", "inherit"):
            continue
        blocked: set[str] = set()
        no_inherit: set[str] = set()
        for j, o in enumerate(applied):
            if j == i:
                continue
            if o["op"] in ("remove", "rekind"):
                blocked.add(o["ent"])
                blocked.update(o.get("cascade", ()))
            elif o["op"] == "rmbase":
                no_inherit.add(o["ent"])
        fr = opkg.frontier("sure", frozenset(blocked), frozenset(no_inherit)) if (blocked or no_inherit) else ed.sure
        if r["ent"] not in fr.tags:
            r["subsumed"] = True
            continue
        paths = sorted(fr.acc[r["ent"]])
        if r["op"] == "remove":
            # a removal is only demanded where the name really disappears: a removed override / first-in-MRO member
            # can leave another inherited member of the same name behind (then nothing was removed at that path)
            paths = [p for p in sorted(fr.via.get(r["ent"], ())) if not _name_exists(npkg, p)]
            # ... and whose container stays publicly reachable without the removed object itself (a module can be reached
            # through one of its own members, e.g. via a wildcard re-export of a module alias defined inside it)
            own = frozenset(blocked | {r["ent"]} | set(r.get("cascade", ())))
            fr_own = opkg.frontier("sure", own, frozenset(no_inherit))
            paths = [p for p in paths if p.rsplit(".", 1)[0] in fr_own.tags]
            if not paths:
                r["shadowed"] = True
                continue
        expectations.append(
            {
                "op": r["op"],
                "ent": r["ent"],
                "loc": fr.label(r["ent"]),
                "ekind": opkg.kind(r["ent"]),
                "nature": r.get("nature"),
                "kind": M.EXPECTED_KIND[r["op"]],
                "paths": paths,
            }
        )

    accept_all = opkg.frontier("maybe").all_paths() | npkg.frontier("maybe").all_paths()

    # features (evidence histogram / non-triviality)
    statuses = [opkg.alias_status(p) for p, (k, _, _) in opkg.ent.items() if k == "imp"]
    pub_alias = [p for p in ed.maybe.tags if opkg.kind(p) == "imp"]
    pub_status = {opkg.alias_status(p) for p in pub_alias}
    classes = []
    classes.append("script:" + ("identity" if all(r["op"] == "identity" for r in applied) else "compatible-only" if compat_only else "has-incompatible"))
    for r in applied:
        classes.append(f"edit:{r['op']}:{r['loc']}" + (":subsumed" if r.get("subsumed") else "") + (":shadowed" if r.get("shadowed") else ""))
    for r in records:
        if r.get("skipped"):
            classes.append(f"edit-skipped:{r['op']}")
    for e in expectations:
        classes.append(f"expect:{e['op']}:{e['loc']}:{e['ekind']}")
        if e.get("nature"):
            classes.append(f"expect:chvalue-nature:{e['nature']}")
    if "cyclic" in pub_status:
        classes.append("pkg:public-cyclic-reexport")
    if "unresolvable" in pub_status:
        classes.append("pkg:public-unresolvable-reexport")
    if any(opkg.kind(opkg.final(p) or "") == "module" for p in pub_alias):
        classes.append("pkg:public-module-alias")
    if any(ed.sure.label(e) == "inherit" for e in ed.sure.tags):
        classes.append("pkg:inherited-public-member")
    if any(ed.sure.label(e) == "reexport" for e in ed.sure.tags):
        classes.append("pkg:reexported-public-object")
    if any(m["all"] is not None for m in old_model["mods"].values()):
        classes.append("pkg:has-__all__")
    empties = {p for p, m in old_model["mods"].items() if m["all"] == []}
    if empties:
        classes.append("pkg:empty-__all__")
        if any(p in ed.maybe.tags for p in empties):
            classes.append("pkg:empty-__all__:module-public")
        for p in empties:
            if old_model["mods"][p].get("all_form") == "from":
                classes.append("pkg:empty-__all__:assembled")
                break
    for r in applied:
        if r["op"] != "identity" and r["loc"] == "dead" and opkg.module_of(r["ent"]) in empties and not M.is_private_name(r["ent"].rsplit(".", 1)[1]):
            classes.append(f"edit-below-empty-__all__:{r['op']}")
    if any(n.get("virtual") for p_, (k_, n, _x) in opkg.ent.items() if k_ == "imp" and p_ in ed.maybe.tags):
        classes.append("pkg:public-wildcard-reexport")
    if any(k_ == "cls" and opkg.ent[par][0] == "cls" for _p, (k_, _n, par) in opkg.ent.items() if par):
        classes.append("pkg:nested-class")
    guarded = [p_ for p_, (k_, n_, _par) in opkg.ent.items() if k_ == "imp" and n_.get("tc")]
    if any(p_ in ed.sure.tags for p_ in guarded):
        classes.append("pkg:public-type-guarded-reexport")
    for e in expectations:
        if e["ent"] in guarded or any(p_ in guarded for p_ in e["paths"]):
            classes.append(f"expect:{e['op']}:through-type-guarded-reexport")
    cimps = [p_ for p_, (k_, _n, par) in opkg.ent.items() if k_ == "imp" and par and opkg.ent[par][0] == "cls"]
    if any(opkg.ent[p_][2] in ed.sure.tags for p_ in cimps):
        classes.append("pkg:class-level-import-in-public-class")
    for r in applied:
        if r["op"] in M.INCOMPAT_OPS and r["ent"] in cimps:
            classes.append(f"edit-class-level-import:{r['op']}:{r['loc']}")
    twin_classes = set()
    for p_, (k_, n_, _par) in opkg.ent.items():
        if k_ == "cls" and len(n_["bases"]) > 1:
            fins = [opkg.final(f"{opkg.module_of(p_)}.{b}") for b in n_["bases"]]
            shorts = [f.rsplit(".", 1)[1] for f in fins if f]
            if len(set(shorts)) < len(shorts):
                twin_classes.add(p_)
    if twin_classes:
        classes.append("pkg:bases-sharing-a-short-name")
    for e in expectations:
        if e["op"] == "rmbase" and e["ent"] in twin_classes:
            classes.append("expect:rmbase:bases-sharing-a-short-name")
    del statuses
    n_inc = sum(1 for r in applied if not compatible(r))
    n_comp = len(applied) - n_inc
    nontrivial = any(e["loc"] in ("reexport", "inherit") for e in expectations) or (n_inc and n_comp)
    if nontrivial:
        classes.append("nontrivial")
    return {
        "old_model": old_model,
        "new_model": new_model,
        "old_files": M.render(old_model),
        "new_files": M.render(new_model),
        "records": records,
        "compat_only": compat_only,
        "expectations": expectations,
        "accept_all": accept_all,
        "classes": classes,
        "nontrivial": bool(nontrivial),
    }


def _name_exists(pkg, path: str) -> bool:
    """Does <container>.<name> still designate something in this model (own member, sub-module or inherited member)?"""
    if "." not in path:
        return path in pkg.ent
    cont, name = path.rsplit(".", 1)
    kind = pkg.kind(cont)
    if kind == "module":
        return path in pkg.ent
    if kind == "cls":
        return name in pkg.all_members(cont)
    return False


def judge(an: dict, breakages: list[tuple[str, str]]) -> list[Fail]:
    fails: list[Fail] = []
    script = [{k: v for k, v in r.items() if k != "cascade" or v} for r in an["records"]]
    if an["compat_only"] and breakages:
        kinds = sorted({k for k, _ in breakages})
        fails.append(
            Fail(
                "compatible-silent",
                "reported:" + kinds[0],  # coarse: first breakage kind (alphabetically); all of them are in the message
                f"script of compatible edits only {script} but find_breaking_changes reported {breakages}",
                {"old": an["old_files"], "new": an["new_files"]},
            )
        )
    for e in an["expectations"]:
        if not any(k == e["kind"] and p in e["paths"] for k, p in breakages):
            fails.append(
                Fail(
                    "incompatible-reported",
                    f"{e['op']}:unreported",  # coarse on purpose: location class / entity kind are in the message
                    f"{e['op']} of public {e['ekind']} {e['ent']} ({e['loc']}): expected a {e['kind']} breakage on one of {e['paths']}; "
                    f"reported: {breakages}; script {script}",
                    {"old": an["old_files"], "new": an["new_files"]},
                )
            )
    for k, p in breakages:
        if p not in an["accept_all"]:
            fails.append(
                Fail(
                    "public-frontier",
                    f"{k}:not-public",
                    f"breakage {k} on {p}: not publicly reachable in either version of the model; script {script}",
                    {"old": an["old_files"], "new": an["new_files"]},
                )
            )
    return fails


def _diff_in_process(an: dict, tmp: Path) -> list[tuple[str, str]]:
    _write_tree(tmp / "old", an["old_files"])
    _write_tree(tmp / "new", an["new_files"])
    old = _load(tmp / "old")
    new = _load(tmp / "new")
    return _breakages(old, new)


# ----------------------------------------------------------------------------- CLI clause
_GIT_ENV = {
    "GIT_CONFIG_GLOBAL": "/dev/null",
    "GIT_CONFIG_SYSTEM": "/dev/null",
    "GIT_CONFIG_NOSYSTEM": "1",
    "GIT_AUTHOR_NAME": "verif",
    "GIT_AUTHOR_EMAIL": "verif@example.invalid",
    "GIT_COMMITTER_NAME": "verif",
    "GIT_COMMITTER_EMAIL": "verif@example.invalid",
    "GIT_AUTHOR_DATE": "2020-01-01T00:00:00+0000",
    "GIT_COMMITTER_DATE": "2020-01-01T00:00:00+0000",
    "GIT_TERMINAL_PROMPT": "0",
}


def _git(repo: Path, *args: str) -> str:
    from vp.common.bootstrap import HarnessError

    p = subprocess.run(["git", "-C", str(repo), *args], capture_output=True, text=True, env={**os.environ, **_GIT_ENV}, check=False)
    if p.returncode:
        raise HarnessError(f"git {' '.join(args)} failed: {p.stderr}")
    return p.stdout.strip()


@contextlib.contextmanager
def _cli_environment(repo: Path, tmpdir: Path):
    """cwd = repository, hermetic git configuration, worktrees under our scratch directory, colorama state reset."""
    old_env = {k: os.environ.get(k) for k in _GIT_ENV}
    old_cwd = os.getcwd()
    old_tempdir = tempfile.tempdir
    old_out, old_err = sys.stdout, sys.stderr
    try:
        import colorama.initialise as ci

        ci.orig_stdout = ci.orig_stderr = ci.wrapped_stdout = ci.wrapped_stderr = None
    except Exception:  # noqa: BLE001
        ci = None
    buf = io.StringIO()
    try:
        os.environ.update(_GIT_ENV)
        os.chdir(repo)
        tempfile.tempdir = str(tmpdir)
        sys.stderr = buf
        yield buf
    finally:
        sys.stdout, sys.stderr = old_out, old_err
        if ci is not None:
            ci.orig_stdout = ci.orig_stderr = ci.wrapped_stdout = ci.wrapped_stderr = None
        tempfile.tempdir = old_tempdir
        os.chdir(old_cwd)
        for k, v in old_env.items():
            if v is None:
                os.environ.pop(k, None)
            else:
                os.environ[k] = v


def _cli_check(case: dict, an: dict, tmp: Path, in_process: list[tuple[str, str]]) -> list[Fail]:
    import griffe

    opts = case["cli"]
    repo = tmp / "repo"
    repo.mkdir()
    sub = "src" if opts["layout"] == "src" else "."
    _git(repo, "init", "-q", "-b", "main")
    _write_tree(repo / sub, an["old_files"])
    (repo / "README").write_text("scratch\n")
    _git(repo, "add", "-A")
    _git(repo, "commit", "-q", "-m", "v1")
    _git(repo, "tag", "v1")
    old_sha = _git(repo, "rev-parse", "HEAD")
    shutil.rmtree(repo / sub / M.ROOT)
    _write_tree(repo / sub, an["new_files"])
    base_ref = None
    if opts["commit_new"]:
        _git(repo, "add", "-A")
        _git(repo, "commit", "-q", "--allow-empty", "-m", "v2")
        base_ref = "main" if opts["against"] == "sha-branch" else "HEAD"
    against = {"tag": "v1", "latest": None, "sha-branch": old_sha}[opts["against"]]
    wt = tmp / "worktrees"
    wt.mkdir()
    with _cli_environment(repo, wt) as buf:
        rc = call(
            "cli-exit",
            griffe.check,
            M.ROOT,
            against,
            base_ref=base_ref,
            search_paths=[sub],
            allow_inspection=False,
            verbose=opts["verbose"],
            color=opts.get("color"),
            style=opts["style"],
            what=f"griffe.check({M.ROOT!r}, against={against!r}, base_ref={base_ref!r}, search_paths=[{sub!r}], style={opts['style']!r})",
        )
    printed = buf.getvalue()
    fails = []
    detail = {"old": an["old_files"], "new": an["new_files"], "cli": opts, "stderr": printed[-2000:]}
    if (rc != 0) != bool(in_process):
        fails.append(
            Fail(
                "cli-exit",
                "exit-nonzero-but-nothing-reported" if rc else "exit-zero-but-reported",
                f"griffe.check returned {rc} but the in-process comparison of the same two trees reported {in_process}",
                detail,
            )
        )
    if (rc != 0) != bool(printed.strip()):
        fails.append(
            Fail(
                "cli-exit",
                "exit-nonzero-silent" if rc else "exit-zero-but-printed",
                f"griffe.check returned {rc} and printed {printed[:300]!r}",
                detail,
            )
        )
    return fails


# ----------------------------------------------------------------------------- entry points
_LAST: list = [None, None]


def _analysed(case) -> dict:
    """analyse() of the case just checked (describe() is called right after check_case() on the same object)."""
    if _LAST[0] is not case:
        _LAST[0], _LAST[1] = case, analyse(case)
    return _LAST[1]


def check_case(case) -> list[Fail]:
    an = _analysed(case)
    an["observed"] = []
    tmp = _scratch()
    try:
        fails: list[Fail] = []
        try:
            breakages = _diff_in_process(an, tmp)
        except GriffeRaised as gr:
            gr.fail.detail = {"old": an["old_files"], "new": an["new_files"]}
            if case["kind"] != "cli":
                return [gr.fail]
            fails.append(gr.fail)
            breakages = None
        if breakages is not None:
            an["observed"].append("griffe:reported" if breakages else "griffe:silent")
            fails += judge(an, breakages)
        if case["kind"] == "cli" and breakages is not None:
            fails += _cli_check(case, an, tmp, breakages)
        return fails
    finally:
        shutil.rmtree(tmp, ignore_errors=True)


def describe(case):
    an = _analysed(case)
    classes = list(an["classes"]) + ["kind:" + case["kind"]] + [("cli:" if case["kind"] == "cli" else "") + o for o in an.get("observed", ())]
    key = None
    if an["nontrivial"]:
        key = {"pkg": an["old_files"], "script": [r for r in an["records"] if not r.get("skipped")]}
    sample = None
    if an["nontrivial"]:
        sample = {"old": an["old_files"], "script": an["records"], "new": an["new_files"]}
    return key, classes, sample


KNOWN: dict = {}


def run_shard(ctx) -> None:
    global _TMP_BASE
    _TMP_BASE = str(ctx.tmp)
    # chunks: Hypothesis keeps generating (only) after the wall budget is spent, so the search is cut into pieces and the
    # next piece is not started once the budget is gone.  The first piece uses the salt strategy() announces to the shrinker.
    total, chunk = ctx.scale(500, 8000), ctx.scale(100, 500)
    done = 0
    while done < total and not ctx.out_of_budget():
        ctx.run_hypothesis(strategy(ctx), check_case, min(chunk, total - done), describe=describe, salt="" if done == 0 else f"chunk{done}")
        done += chunk
