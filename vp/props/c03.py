"""C03 — Stored expressions render back to equivalent Python code.

Domain: G-EXPR trees (vp/gen/c03_expr.py) placed in every storage position of a one-module program (attribute value,
annotation of AnnAssign/parameter/return, parameter default, decorator, base class), with/without
`from __future__ import annotations`, with every spelling of typing.Literal.
Oracle: CPython's parser. The stored expression's string must parse (eval mode) to the source expression's tree
(positions/ctx ignored, constants by type and value) after the documented string-annotation expansion; the flat and
the layered iteration must both spell that string out of str / ExprName pieces; every Name of the tree must be an
ExprName of the flat iteration whose canonical_path can be computed (and is the module path for module-level names).
"""

from __future__ import annotations

import ast
import warnings
from collections import Counter

from vp.common.harness import Fail, call
from vp.gen import c03_expr as G

warnings.filterwarnings("ignore", category=SyntaxWarning)  # generated string constants hold arbitrary escapes

ID = "C03"
LEVEL = "exploration"
RULE = (
    "Hypothesis draws a choice sequence from which a recursive expression model is built deterministically (all 28 ast classes of "
    "_node_map, all operators, depth <=4 quick / <=6 thorough); the model is rendered by ast.unparse into one of 16 storage positions x {future import, none} x 9 Literal spellings x {module m, p.m, p.q.m with/without the future import in the top package} x {referenced names bound before, after the carrier statement}. "
    "In addition every lambda / def parameter-list shape within the bounds of EXHAUSTIVE_NOTE is enumerated (distinct integer defaults; lambdas at "
    "rotating positions, defs judged per stored parameter default; non-trivial = at least one parameter, each shape visited once). "
    "Sampled cases: non-trivial = nesting depth >=2 and (CPython's unparser parenthesises at least one operand, or the tree holds a "
    "comprehension / lambda / f-string / starred / slice node, or a string constant sits in an annotation position); "
    "distinct = distinct (position kind, future import, normalised dump of the expected tree)"
)
ASSUMPTIONS = [
    "CPython 3.12 ast.parse/ast.unparse are the reference for 'valid Python' and 'same syntax tree'; trees are compared without "
    "positions/ctx/kind, constants by type and repr (so redundant parentheses and literal spelling cannot matter)",
    "expressions come from ast.unparse of generated trees, i.e. the grammar accepted by ast.parse (yield only inside lambda bodies); "
    "names that griffe special-cases (ClassVar, property, overload, dataclass...) are not in the name pool",
    "string annotation = a str constant that is the whole annotation or is reached from it only through subscript slices (not of "
    "Literal), tuple/list elements and `|` operands: those MUST be parsed when the module has no `from __future__ import annotations` "
    "(if they compile in eval mode) and MUST NOT otherwise; str constants below a typing/typing_extensions Literal[...] and in "
    "non-annotation positions MUST NOT be parsed; str constants elsewhere inside an annotation (call arguments, subscript receivers, "
    "lambda defaults, strings inside an already parsed string, a `Literal` that is not typing's) are accepted parsed or not, "
    "because the property text does not say whether they are 'string annotations'",
    "a top-level starred base class (`class K(*a)`) is compared inside a list display because `*a` alone is not an eval-mode expression",
    "the resolvable-name clause demands canonical_path == 'm.A' / 'pkg.B' / 'pk' only for the module-level class A, the imported B and the "
    "imported package pk when the expression does not rebind them; for all other names only that canonical_path does not raise; along a "
    "dotted chain whose root is a name, path and canonical_path of each element must be the previous element's + '.' + its name "
    "(ExprName's documented 'full, resolved name'); attribute names after a non-name receiver (call/subscript/literal) are not judged",
]
EXHAUSTIVE = True
EXHAUSTIVE_NOTE = {
    "quick": "every lambda / def parameter-list shape with <=3 positional-only, <=4 regular, <=2 keyword-only parameters, any right-aligned run "
    "of positional defaults, any subset of keyword-only defaults, with/without *args and **kwargs (2520 shapes x {lambda, def}); "
    "everything else is sampled",
    "thorough": "the same with <=4 positional-only, <=5 regular, <=3 keyword-only parameters (9900 shapes x {lambda, def}); everything else is sampled",
}
BUDGET_S = {"quick": 45.0, "thorough": 1000.0}
SHRINK_MAX_EXAMPLES = 70000

ANNOTATION_POS = ("ann-module", "ann-module-value", "ann-class", "param-ann", "return", "method-param-ann", "init-ann")
VALUE_POS = ("value-module", "value-class", "default", "kwdefault", "method-default", "decorator-func", "decorator-class", "base", "init-value")
POSITIONS = ANNOTATION_POS + VALUE_POS


# ----------------------------------------------------------------------------- rendering a case
def _lit(case):
    form = case.get("lit")
    if form is None:
        return "", "Literal", None
    return G.LITERAL_FORMS[form]


def _fn(name, args=None, returns=None, decorators=(), body=None):
    a = args or ast.arguments(posonlyargs=[], args=[], vararg=None, kwonlyargs=[], kw_defaults=[], kwarg=None, defaults=[])
    return ast.FunctionDef(name=name, args=a, body=body or [ast.Expr(ast.Constant(...))], decorator_list=list(decorators), returns=returns, type_params=[])


def _cls(name, bases=(), decorators=(), body=None):
    return ast.ClassDef(name=name, bases=list(bases), keywords=[], body=body or [ast.Expr(ast.Constant(...))], decorator_list=list(decorators), type_params=[])


def _arguments(**kw):
    base = dict(posonlyargs=[], args=[], vararg=None, kwonlyargs=[], kw_defaults=[], kwarg=None, defaults=[])
    base.update(kw)
    return ast.arguments(**base)


def carrier(pos: str, e: ast.expr) -> ast.stmt:
    """The statement that stores expression `e` at position `pos`."""
    v = ast.Name("v", ast.Store())
    if pos == "value-module":
        return ast.Assign([v], e)
    if pos == "value-class":
        return _cls("K", body=[ast.Assign([v], e)])
    if pos == "ann-module":
        return ast.AnnAssign(v, e, None, 1)
    if pos == "ann-module-value":
        return ast.AnnAssign(v, e, ast.Constant(0), 1)
    if pos == "ann-class":
        return _cls("K", body=[ast.AnnAssign(v, e, None, 1)])
    if pos in ("init-value", "init-ann"):
        target = ast.Attribute(ast.Name("self", ast.Load()), "v", ast.Store())
        stmt = ast.Assign([target], e) if pos == "init-value" else ast.AnnAssign(target, e, ast.Constant(0), 0)
        return _cls("K", body=[_fn("__init__", _arguments(args=[ast.arg("self")]), body=[stmt])])
    if pos == "param-ann":
        return _fn("f", _arguments(args=[ast.arg("p", e)]))
    if pos == "method-param-ann":
        return _cls("K", body=[_fn("f", _arguments(args=[ast.arg("self"), ast.arg("p", e)]))])
    if pos == "return":
        return _fn("f", returns=e)
    if pos == "default":
        return _fn("f", _arguments(args=[ast.arg("p")], defaults=[e]))
    if pos == "kwdefault":
        return _fn("f", _arguments(kwonlyargs=[ast.arg("p")], kw_defaults=[e]))
    if pos == "method-default":
        return _cls("K", body=[_fn("f", _arguments(args=[ast.arg("self"), ast.arg("p")], defaults=[e]))])
    if pos == "decorator-func":
        return _fn("f", decorators=[e])
    if pos == "decorator-class":
        return _cls("K", decorators=[e])
    if pos == "base":
        return _cls("K", bases=[e])
    raise G.ModelError(f"unknown position {pos}")


def locate(pos: str, stmt: ast.stmt) -> ast.expr:
    """Inverse of carrier on the re-parsed module."""
    if pos == "value-module":
        return stmt.value
    if pos == "value-class":
        return stmt.body[0].value
    if pos in ("ann-module", "ann-module-value"):
        return stmt.annotation
    if pos == "ann-class":
        return stmt.body[0].annotation
    if pos == "init-value":
        return stmt.body[0].body[0].value
    if pos == "init-ann":
        return stmt.body[0].body[0].annotation
    if pos == "param-ann":
        return stmt.args.args[0].annotation
    if pos == "method-param-ann":
        return stmt.body[0].args.args[1].annotation
    if pos == "return":
        return stmt.returns
    if pos == "default":
        return stmt.args.defaults[0]
    if pos == "kwdefault":
        return stmt.args.kw_defaults[0]
    if pos == "method-default":
        return stmt.body[0].args.defaults[0]
    if pos in ("decorator-func", "decorator-class"):
        return stmt.decorator_list[0]
    if pos == "base":
        return stmt.bases[0]
    raise G.ModelError(pos)


def fetch(module, pos: str):
    """The expression Griffe stored for the position (observation points of the property)."""
    if pos == "value-module":
        return module.members["v"].value
    if pos in ("value-class", "init-value"):
        return module.members["K"].members["v"].value
    if pos in ("ann-module", "ann-module-value"):
        return module.members["v"].annotation
    if pos in ("ann-class", "init-ann"):
        return module.members["K"].members["v"].annotation
    if pos == "param-ann":
        return module.members["f"].parameters["p"].annotation
    if pos == "method-param-ann":
        return module.members["K"].members["f"].parameters["p"].annotation
    if pos == "return":
        return module.members["f"].returns
    if pos in ("default", "kwdefault"):
        return module.members["f"].parameters["p"].default
    if pos == "method-default":
        return module.members["K"].members["f"].parameters["p"].default
    if pos == "decorator-func":
        decs = module.members["f"].decorators
        return decs[0].value if decs else None
    if pos == "decorator-class":
        decs = module.members["K"].decorators
        return decs[0].value if decs else None
    if pos == "base":
        return module.members["K"].bases[0]
    raise G.ModelError(pos)


class Rendered:
    __slots__ = ("text", "expr", "pos", "future", "lit_text", "lit_is", "starred_root", "modpath", "parents")


_memo: dict = {}


def render(case) -> Rendered:
    """Module text of a case and the source expression node (from the re-parsed text). Harness code: raises ModelError."""
    key = id(case)
    hit = _memo.get(key)
    if hit is not None and hit[0] is case:
        return hit[1]
    imp, lit_text, lit_is = _lit(case)
    pos = case["pos"]
    e = G.to_ast(case["expr"], lit_text)
    if isinstance(e, (ast.Slice,)) or (isinstance(e, ast.Starred) and pos != "base"):
        raise G.ModelError("slice/starred at the root")
    body: list = []
    if case.get("future"):
        body.append(ast.ImportFrom("__future__", [ast.alias("annotations")], 0))
    if imp:
        body.extend(ast.parse(imp).body)
    # the names the expression refers to are bound before the carrier statement, or (late) after it: Griffe's scope
    # resolution does not depend on statement order (legal for annotations under PEP 563 / in string annotations)
    bindings = [_cls("A"), *ast.parse("from pkg import B\nimport pk").body]
    late = bool(case.get("late"))
    if not late:
        body.extend(bindings)
    index = len(body)
    body.append(carrier(pos, e))
    if late:
        body.extend(bindings)
    text = ast.unparse(ast.fix_missing_locations(ast.Module(body, []))) + "\n"
    tree = ast.parse(text)
    r = Rendered()
    r.text, r.pos, r.future, r.lit_text, r.lit_is = text, pos, bool(case.get("future")), lit_text, lit_is
    # package layout: the judged module is `m`, `p.m` or `p.q.m`; the top package may import the future annotations
    depth = int(case.get("layout") or 0)
    pkg_code = "from __future__ import annotations\n" if case.get("pfuture") else ""
    r.parents = [("p", pkg_code), ("q", "")][:depth]
    r.modpath = ".".join([name for name, _ in r.parents] + ["m"])
    r.expr = locate(pos, tree.body[index])
    r.starred_root = isinstance(r.expr, ast.Starred)
    _memo.clear()
    _memo[key] = (case, r)
    return r


# ----------------------------------------------------------------------------- expected tree (string annotations)
class Either:
    """Either of several trees is accepted at this place."""

    def __init__(self, *options):
        self.options = options


def try_parse(text: str):
    try:
        return compile(text, "<string-annotation>", "eval", flags=ast.PyCF_ONLY_AST).body
    except (SyntaxError, ValueError, RecursionError, MemoryError):
        return None


def expand(node, state: str, r: Rendered, stats: Counter):
    """Copy of `node` with string constants replaced according to `state`:
    "must": a string annotation (parse it), "may": undetermined (either), "no": never parsed."""
    if isinstance(node, list):
        return [expand(n, state, r, stats) for n in node]
    if not isinstance(node, ast.AST):
        return node
    if isinstance(node, ast.Constant):
        if isinstance(node.value, str) and state != "no":
            parsed = try_parse(node.value)
            if parsed is None:
                stats["str:unparsable:" + state] += 1
                return node
            inner = expand(parsed, "may", r, stats)
            stats["str:parsable:" + state] += 1
            return inner if state == "must" else Either(node, inner)
        if isinstance(node.value, str):
            stats["str:no"] += 1
        return node
    below = "no" if state == "no" else "may"
    new = type(node)()
    for field, value in ast.iter_fields(node):
        if isinstance(node, ast.JoinedStr) and field == "values":
            # literal text of an f-string is not a string constant of its own
            new.values = [v if isinstance(v, ast.Constant) else expand(v, below, r, stats) for v in value]
            continue
        sub = below
        if state != "no":
            if isinstance(node, ast.Subscript) and field == "slice":
                is_lit = r.lit_is if ast.unparse(node.value) == r.lit_text else False
                if is_lit is True:
                    sub = "no"
                    stats["literal"] += 1
                elif is_lit is None:
                    sub = "may"
                else:
                    sub = state
            elif isinstance(node, (ast.Tuple, ast.List)) and field == "elts":
                sub = state
            elif isinstance(node, ast.BinOp) and isinstance(node.op, ast.BitOr) and field in ("left", "right"):
                sub = state
        setattr(new, field, expand(value, sub, r, stats))
    return new


def same(e, g) -> bool:
    if isinstance(e, Either):
        return any(same(o, g) for o in e.options)
    if isinstance(e, ast.AST):
        if type(e) is not type(g):
            return False
        if isinstance(e, ast.Constant):
            return type(e.value) is type(g.value) and repr(e.value) == repr(g.value)
        for field in e._fields:
            if field in ("ctx", "kind", "type_comment"):
                continue
            if not same(getattr(e, field, None), getattr(g, field, None)):
                return False
        return True
    if isinstance(e, list):
        return isinstance(g, list) and len(e) == len(g) and all(same(x, y) for x, y in zip(e, g))
    return type(e) is type(g) and e == g


def dump(node) -> str:
    """Normalised dump (Either shown as alternatives)."""
    if isinstance(node, Either):
        return "<" + " | ".join(dump(o) for o in node.options) + ">"
    if isinstance(node, list):
        return "[" + ", ".join(dump(n) for n in node) + "]"
    if isinstance(node, ast.Constant):
        return f"Constant({type(node.value).__name__}:{node.value!r})"
    if isinstance(node, ast.AST):
        fields = [f"{f}={dump(getattr(node, f, None))}" for f in node._fields if f not in ("ctx", "kind", "type_comment")]
        return f"{type(node).__name__}({', '.join(fields)})"
    return repr(node)


def parse_eval(text: str, starred_root: bool):
    """Parse str(expr) as an expression; returns (node, None) or (None, error)."""
    try:
        if starred_root:
            body = ast.parse(f"[{text}]", mode="eval").body
            if not (isinstance(body, ast.List) and len(body.elts) == 1):
                return None, "not a single starred element"
            return body.elts[0], None
        return ast.parse(text, mode="eval").body, None
    except (SyntaxError, ValueError) as exc:
        return None, f"{type(exc).__name__}: {exc}"
    except (RecursionError, MemoryError) as exc:  # pragma: no cover
        return None, type(exc).__name__


# ----------------------------------------------------------------------------- root-cause localisation
_TRANSPARENT = (ast.Slice, ast.Starred, ast.FormattedValue, ast.Yield, ast.YieldFrom)


def expr_children(node):
    """Nearest descendants that are stand-alone expressions (slices, starred, formatted values and format specs are
    looked through)."""
    for field, value in ast.iter_fields(node):
        for child in value if isinstance(value, list) else [value]:
            if not isinstance(child, ast.AST):
                continue
            # a format spec and an index tuple (it may hold slices) are not stand-alone expressions either
            inline = (isinstance(node, ast.FormattedValue) and field == "format_spec") or (
                isinstance(node, ast.Subscript) and field == "slice" and isinstance(child, ast.Tuple)
            )
            if isinstance(child, ast.expr) and not isinstance(child, _TRANSPARENT) and not inline:
                yield child
            else:
                yield from expr_children(child)


def _plain_roundtrip(node) -> str | None:
    """None if str(get_expression(node)) parses back to node (no string parsing), else 'syntax' / 'differs' / 'raises:X'."""
    import griffe

    try:
        expr = griffe.get_expression(node, parent=griffe.Module("m"), parse_strings=False)
        text = str(expr)
    except Exception as exc:  # noqa: BLE001
        return f"raises:{type(exc).__name__}"
    got, err = parse_eval(text, False)
    if got is None:
        return "syntax"
    return None if same(node, got) else "differs"


def localise(node):
    """Deepest stand-alone sub-expression that does not round-trip although all of its own sub-expressions do."""
    if isinstance(node, ast.Name) and not isinstance(node.ctx, ast.Load):
        return None
    for child in expr_children(node):
        found = localise(child)
        if found is not None:
            return found
    why = _plain_roundtrip(node)
    return None if why is None else (node, why)


def _hints(node) -> list[str]:
    """Structural features of the locus that separate root causes of the same node class."""
    out: list[str] = []
    if isinstance(node, ast.Dict) and any(k is None for k in node.keys):
        out.append("unpack")
    if isinstance(node, ast.Lambda):
        a = node.args
        if a.posonlyargs and not (a.args or a.vararg or a.kwonlyargs or a.kwarg):
            out.append("posonly-last")
        if a.posonlyargs and not a.args and (a.vararg or (a.kwarg and not a.kwonlyargs)):
            out.append("posonly-then-variadic")
        if a.vararg and a.kwonlyargs:
            out.append("vararg+kwonly")
    if isinstance(node, ast.Constant):
        out.append(type(node.value).__name__)
    if isinstance(node, ast.Subscript):
        if isinstance(node.slice, ast.Tuple) and not node.slice.elts:
            out.append("empty-tuple")
        if isinstance(node.slice, ast.Tuple) and any(isinstance(e, ast.Starred) for e in node.slice.elts):
            out.append("starred-index")
        if isinstance(node.slice, ast.Tuple) and len(node.slice.elts) == 1:
            out.append("singleton-index")
        if any(isinstance(n, ast.Tuple) and n is not node.slice for n in ast.walk(node.slice)):
            out.append("inner-tuple")
    if isinstance(node, ast.JoinedStr):
        for part in node.values:
            if isinstance(part, ast.FormattedValue):
                if part.conversion != -1:
                    out.append("conversion")
                if part.format_spec is not None:
                    out.append("spec")
            elif isinstance(part, ast.Constant) and any(c in part.value for c in "'\"\\{}\n\t\r"):
                out.append("escape")
            if isinstance(part, ast.FormattedValue) and ast.unparse(part.value).startswith("{"):
                out.append("brace-value")
        out = sorted(set(out)) or ["field"]
    if isinstance(node, ast.Call) and any(isinstance(a, ast.GeneratorExp) for a in node.args):
        out.append("genexp-arg")
    return out


def _region(node) -> set[int]:
    """ids of the locus and of the non-stand-alone nodes (comprehension, keyword, starred, slice ...) directly inside it."""
    out = {id(node)}

    def walk(n):
        for child in ast.iter_child_nodes(n):
            index_tuple = isinstance(n, ast.Subscript) and child is n.slice and isinstance(child, ast.Tuple)
            if isinstance(child, ast.expr) and not isinstance(child, _TRANSPARENT) and not index_tuple:
                continue
            out.add(id(child))
            walk(child)

    walk(node)
    return out


_DEFINITE_HINTS = ("unpack", "posonly-last", "posonly-then-variadic", "vararg+kwonly", "empty-tuple", "conversion", "spec", "escape", "brace-value")


def root_cause(src: ast.expr) -> tuple[str, str]:
    """(bucket kind, explanation) for a source expression whose stored string is wrong."""
    if isinstance(src, ast.Starred):
        src = ast.List([src], ast.Load())  # `*a` alone is not an expression
    found = localise(src)
    if found is None:
        return "whole-expression-only", "every sub-expression round-trips when built alone without string parsing"
    node, why = found
    name = type(node).__name__
    where = f"locus {ast.unparse(node)!r} ({why})"
    hints = _hints(node)
    definite = [h for h in hints if h in _DEFINITE_HINTS]
    if definite:
        return f"{name}:{'+'.join(definite)}", where
    region = _region(node)
    if isinstance(node, ast.GeneratorExp):
        # a generator expression is parenthesised everywhere but as the sole argument of a call (also when written alone)
        return "GeneratorExp:parens", where
    if isinstance(node, ast.Attribute) and isinstance(node.value, ast.Constant) and G.int_receiver_sites(node):
        return "Attribute:int-receiver", where
    sites = sorted({G.site_label(p, f, c) for p, f, c in G.needs_parens_sites(node) if p is not None and id(p) in region})
    if sites:
        parent_cls = sites[0].split("<-")[0].split(".")[0]
        return f"parens:{parent_cls}", f"{where}; CPython parenthesises {sites}"
    return f"{name}:{'+'.join(hints)}" if hints else name, where


# ----------------------------------------------------------------------------- the property on one case
def rec_text(expr) -> str:
    """Recursive concatenation of the layered (non-flat) iteration."""
    import griffe

    if isinstance(expr, str):
        return expr
    if isinstance(expr, griffe.ExprName):
        return expr.name
    return "".join(rec_text(piece) for piece in expr)


def _bound_names(node) -> set[str]:
    """Names (re)bound inside the expression: lambda parameters, comprehension targets, walrus targets."""
    out = set()
    for n in ast.walk(node):
        if isinstance(n, ast.Name) and not isinstance(n.ctx, ast.Load):
            out.add(n.id)
        elif isinstance(n, ast.arg):
            out.add(n.arg)
    return out


def check_signature(case) -> list[Fail]:
    """Default values stored for a whole `def` parameter list: every stored default must be the source default of
    *that* parameter (a default stored where the source has none has no source expression to be equivalent to)."""
    import griffe

    lam = G.to_ast(G.signature_lambda(tuple(case["sig"])))
    fn = _fn("f", lam.args)
    stmt = _cls("K", body=[fn]) if case.get("method") else fn
    text = ast.unparse(ast.fix_missing_locations(ast.Module([stmt], []))) + "\n"
    tree = ast.parse(text)
    src_fn = tree.body[0].body[0] if case.get("method") else tree.body[0]
    a = src_fn.args
    pos = a.posonlyargs + a.args
    source = dict(zip([x.arg for x in pos], [None] * (len(pos) - len(a.defaults)) + list(a.defaults)))
    source.update(zip([x.arg for x in a.kwonlyargs], a.kw_defaults))
    module = call("total", griffe.visit, "m", filepath=None, code=text, what=f"visit of {text!r}")
    try:
        function = module.members["K"].members["f"] if case.get("method") else module.members["f"]
        params = {p.name: p for p in function.parameters}
    except (KeyError, AttributeError) as exc:
        return [Fail("stored", "missing:def-signature", f"{text!r}: function not stored: {exc!r}")]
    fails: list[Fail] = []
    sig = ast.unparse(a)
    for name, src in source.items():
        if name not in params:
            fails.append(Fail("stored", "missing:parameter", f"def f({sig}): parameter {name} not stored"))
            continue
        stored = params[name].default
        if src is None:
            if stored is not None:
                fails.append(Fail("equivalent", "Parameter:default-without-source", f"def f({sig}): parameter {name} has no default in the source, Griffe stored {str(stored)!r}"))
            continue
        if stored is None:
            fails.append(Fail("stored", "none:parameter-default", f"def f({sig}): default of {name} ({ast.unparse(src)!r}) was not stored"))
            continue
        got, err = parse_eval(call("render", str, stored, what=f"str() of the default of {name}"), False)
        if got is None or not same(src, got):
            fails.append(Fail("equivalent", "Parameter:wrong-default", f"def f({sig}): default of {name} is {ast.unparse(src)!r} in the source, Griffe stored {str(stored)!r}"))
    return fails


def visit_rendered(r: Rendered):
    """Visit the judged module, below its parent packages if any (what the loader does: visit with parent=, then
    set_member on the parent)."""
    from pathlib import Path

    import griffe

    parent = None
    directory = Path("/nonexistent")
    for name, code in r.parents:
        directory = directory / name
        pkg = griffe.visit(name, filepath=directory / "__init__.py", code=code, parent=parent)
        if parent is not None:
            parent.set_member(name, pkg)
        parent = pkg
    module = griffe.visit("m", filepath=(directory / "m.py") if r.parents else None, code=r.text, parent=parent)
    if parent is not None:
        parent.set_member("m", module)
    return module


def check_case(case) -> list[Fail]:
    import griffe

    if case.get("pos") == "def-signature":
        return check_signature(case)
    r = render(case)
    fails: list[Fail] = []
    module = call("total", visit_rendered, r, what=f"visit of {r.modpath}: {r.text!r}")
    try:
        stored = fetch(module, r.pos)
    except (KeyError, IndexError, AttributeError) as exc:
        return [Fail("stored", f"missing:{r.pos}", f"{r.text!r}: no object/expression stored at {r.pos}: {exc!r}")]
    src_text = ast.unparse(r.expr)
    if stored is None:
        return [Fail("stored", f"none:{type(r.expr).__name__}", f"{r.pos}: expression {src_text!r} was not stored (None)")]

    annotation = r.pos in ANNOTATION_POS
    stats: Counter = Counter()
    expected = expand(r.expr, "must" if annotation and not r.future else "no", r, stats)

    # clause 1: str(expr) is valid Python and parses to the expected tree
    text = call("render", str, stored, what=f"str() of the expression stored for {src_text!r}")
    got, err = parse_eval(text, r.starred_root)
    tree_ok = got is not None and same(expected, got)
    if not tree_ok:
        plain = expand(r.expr, "no", r, Counter())
        # is it a string-annotation decision (the unexpanded or fully expanded tree would have matched) or the rendering?
        kind = None
        if got is not None and annotation:
            full = expand(r.expr, "must", r, Counter())
            if same(plain, got) or same(_all_parsed(r.expr, r), got) or same(full, got):
                if r.future:
                    which = "parsed-although-postponed"
                elif same(plain, got):
                    which = "not-parsed"
                else:
                    which = "parsed-inside-literal" if stats.get("literal") else "wrong-strings-parsed"
                kind = f"strings:{which}"
        if got is not None and not annotation and kind is None and same(_all_parsed(r.expr, r), got):
            kind = "strings:parsed-outside-annotation"
        if kind is not None:
            fails.append(Fail("string-annotations", kind, f"{r.pos} future={r.future} literal={r.lit_text}: source {src_text!r} stored as {text!r}; expected tree {dump(expected)}"))
        else:
            kind, why = root_cause(r.expr)
            if kind == "whole-expression-only" and annotation:
                kind, why = root_cause(_parsed_strings(r.expr))
            what = f"is not valid Python ({err})" if got is None else "parses to a different tree"
            fails.append(
                Fail(
                    "equivalent",
                    kind,
                    f"{r.pos}: source {src_text!r} is stored as {text!r}, which {what}; {why}",
                    {"source": src_text, "stored": text},
                )
            )

    # clause 2: flat iteration = pieces of that string (str / ExprName only); layered iteration spells the same string
    if isinstance(stored, str):
        pieces = [stored]
    else:
        pieces = call("flat", lambda: list(stored.iterate(flat=True)), what=f"iterate(flat=True) for {src_text!r}")
        odd = [p for p in pieces if not isinstance(p, (str, griffe.ExprName))]
        if odd:
            fails.append(Fail("flat", f"piece-type:{type(odd[0]).__name__}", f"{src_text!r}: flat iteration yields a {type(odd[0]).__name__}: {odd[0]!r}"))
        else:
            flat_text = "".join(p if isinstance(p, str) else p.name for p in pieces)
            if flat_text != text:
                fails.append(Fail("flat", "flat-differs", f"{src_text!r}: flat pieces spell {flat_text!r}, str() is {text!r}"))
            layered = call("flat", rec_text, stored, what=f"iter() for {src_text!r}")
            if layered != text:
                fails.append(Fail("flat", f"layered-differs:{type(stored).__name__}", f"{src_text!r}: recursive iter() spells {layered!r}, str() is {text!r}"))
            if call("flat", lambda: list(iter(stored)), what="iter()") != call("flat", lambda: list(stored.iterate(flat=False)), what="iterate(flat=False)"):
                fails.append(Fail("flat", "iter-vs-iterate", f"{src_text!r}: iter(expr) differs from expr.iterate(flat=False)"))

    # clause 3: every referenced name is a resolvable name element (judged on the tree that str(expr) parsed to)
    if tree_ok and not isinstance(stored, str):
        want = Counter(n.id for n in ast.walk(got) if isinstance(n, ast.Name))
        tails = attribute_tails(stored)
        names = [p for p in pieces if isinstance(p, griffe.ExprName) and id(p) not in tails]
        have = Counter(p.name for p in names)
        missing = want - have
        if missing:
            fails.append(Fail("names", "missing-name-element", f"{r.pos}: {src_text!r} stored as {text!r}: names {dict(missing)} are not ExprName elements of the flat iteration"))
        rebound = _bound_names(got)
        for p in pieces:
            if not isinstance(p, griffe.ExprName):
                continue
            path = call("names", lambda p=p: p.canonical_path, what=f"canonical_path of name {p.name!r} in {src_text!r}")
            if id(p) not in tails and p.name in ("A", "B", "pk") and p.name not in rebound:
                exp_path = {"A": r.modpath + ".A", "B": "pkg.B", "pk": "pk"}[p.name]
                if path != exp_path:
                    fails.append(Fail("names", "unresolved", f"{r.pos}: name {p.name} in {src_text!r} has canonical_path {path!r}, expected {exp_path!r} (parent={type(p.parent).__name__})"))
                    break
        # resolution follows the scope: once the module binds a so far unknown name, its name elements resolve to it
        if not fails:
            unknown = sorted({p.name for p in pieces if isinstance(p, griffe.ExprName) and id(p) not in tails and p.name in ("b", "c") and p.name not in rebound})
            for name in unknown[:1]:
                call("names", module.set_member, name, griffe.Attribute(name), what="set_member")
                for p in pieces:
                    if isinstance(p, griffe.ExprName) and id(p) not in tails and p.name == name:
                        path = call("names", lambda p=p: p.canonical_path, what=f"canonical_path of {name!r} after binding it")
                        if path != f"{r.modpath}.{name}":
                            fails.append(Fail("names", "stale-after-binding", f"{r.pos}: name {name} in {src_text!r} has canonical_path {path!r} after {r.modpath}.{name} was bound, expected '{r.modpath}.{name}'"[:600]))
                            break
        # dotted chains rooted at a name: every element resolves relative to the element before it, segment by segment
        for chain in name_rooted_chains(stored):
            fail = call("names", check_chain, chain, r.pos, src_text, what=f"path/canonical_path along a dotted chain of {src_text!r}")
            if fail is not None:
                fails.append(fail)
                break
    return fails


def check_chain(attribute, pos: str, src_text: str):
    """`a.b.c` (ExprAttribute rooted at an ExprName): path and canonical_path of each name element must be those of
    the previous element + "." + its own name; the chain's own path/canonical_path are its last element's."""
    values = attribute.values
    dotted = ".".join(v.name for v in values)
    if values[0].path != values[0].name:
        return Fail("names", "chain-root-path", f"{pos}: {src_text!r}: root {values[0].name!r} of chain {dotted} has path {values[0].path!r}")
    for prev, cur in zip(values, values[1:]):
        for attr in ("path", "canonical_path"):
            want = f"{getattr(prev, attr)}.{cur.name}"
            have = getattr(cur, attr)
            if have != want:
                return Fail("names", f"chain-{attr}", f"{pos}: {src_text!r}: element {cur.name!r} of chain {dotted} has {attr} {have!r}, expected {want!r} (previous element {prev.name!r}: {getattr(prev, attr)!r})")
    if values[-1].path != dotted:
        return Fail("names", "chain-path", f"{pos}: {src_text!r}: last element of chain {dotted} has path {values[-1].path!r}")
    for attr in ("path", "canonical_path"):
        if getattr(attribute, attr) != getattr(values[-1], attr):
            return Fail("names", f"chain-{attr}", f"{pos}: {src_text!r}: chain {dotted} has {attr} {getattr(attribute, attr)!r}, its last element {getattr(values[-1], attr)!r}")
    return None


def name_rooted_chains(expr) -> list:
    """ExprAttribute nodes of the stored expression whose elements are all names (root included)."""
    import dataclasses

    import griffe

    out: list = []
    seen: set[int] = set()

    def walk(e):
        if isinstance(e, (list, tuple)):
            for x in e:
                walk(x)
            return
        if not isinstance(e, griffe.Expr) or id(e) in seen:
            return
        seen.add(id(e))
        if isinstance(e, griffe.ExprAttribute) and all(isinstance(v, griffe.ExprName) for v in e.values):
            out.append(e)
        for f in dataclasses.fields(e):
            if f.name != "parent":
                walk(getattr(e, f.name))

    walk(expr)
    return out


def attribute_tails(expr) -> set[int]:
    """ids of the ExprName elements that spell attribute names (`b` in `a.b`), which are not names of the tree."""
    import dataclasses

    import griffe

    out: set[int] = set()
    seen: set[int] = set()

    def walk(e):
        if isinstance(e, (list, tuple)):
            for x in e:
                walk(x)
            return
        if not isinstance(e, griffe.Expr) or id(e) in seen:
            return
        seen.add(id(e))
        if isinstance(e, griffe.ExprAttribute):
            out.update(id(v) for v in e.values[1:])
        for f in dataclasses.fields(e):
            if f.name != "parent":
                walk(getattr(e, f.name))

    walk(expr)
    return out


def _parsed_strings(node):
    """Tree with every parsable string constant replaced by its parse (for localisation inside string annotations)."""
    if isinstance(node, list):
        return [_parsed_strings(n) for n in node]
    if not isinstance(node, ast.AST):
        return node
    if isinstance(node, ast.Constant) and isinstance(node.value, str):
        return try_parse(node.value) or node
    new = type(node)()
    for field, value in ast.iter_fields(node):
        if isinstance(node, ast.JoinedStr) and field == "values":
            value = [v if isinstance(v, ast.Constant) else _parsed_strings(v) for v in value]
            setattr(new, field, value)
            continue
        setattr(new, field, _parsed_strings(value))
    return new


def _all_parsed(node, r):
    """Tree with every parsable string constant parsed (one level), whatever its position."""
    if isinstance(node, list):
        return [_all_parsed(n, r) for n in node]
    if not isinstance(node, ast.AST):
        return node
    if isinstance(node, ast.Constant) and isinstance(node.value, str):
        parsed = try_parse(node.value)
        return Either(node, parsed) if parsed is not None else node
    new = type(node)()
    for field, value in ast.iter_fields(node):
        if isinstance(node, ast.JoinedStr) and field == "values":
            value = [v if isinstance(v, ast.Constant) else _all_parsed(v, r) for v in value]
            setattr(new, field, value)
            continue
        setattr(new, field, _all_parsed(value, r))
    return new


# ----------------------------------------------------------------------------- search
# known-finding slug -> generator switches that avoid the shape by construction while the slug is listed
SLUG_SWITCHES: dict = {
    # no operand that needs parentheses because of operator precedence (it is replaced by a plain name)
    "operand-parentheses": ("no-operand-parens",),
    # f-strings restricted to literal text without quotes/braces/backslashes and plain {name} fields
    "fstring-fidelity": ("fstring-plain",),
}
SWITCH_SLUG = {sw: slug for slug, sws in SLUG_SWITCHES.items() for sw in sws}


def _known_operand_parentheses(case, fail: Fail) -> bool:
    """The smallest sub-expression that does not round-trip has an operand that CPython's unparser parenthesises
    because of operator precedence, and Griffe wrote it without (kind computed by root_cause on the case)."""
    return fail.clause == "equivalent" and fail.kind.startswith("parens:")


_FSTRING_CAUSES = {"conversion", "spec", "escape", "brace-value"}


def _known_fstring_fidelity(case, fail: Fail) -> bool:
    """The smallest sub-expression that does not round-trip is an f-string with a conversion (!r), a format spec,
    literal text holding quotes/braces/backslashes/control characters, or a field whose text starts with a brace."""
    if fail.clause != "equivalent" or not fail.kind.startswith("JoinedStr:"):
        return False
    return bool(set(fail.kind.split(":", 1)[1].split("+")) & _FSTRING_CAUSES)


KNOWN = {"operand-parentheses": _known_operand_parentheses, "fstring-fidelity": _known_fstring_fidelity}


def _switches(known) -> dict:
    import os

    sw = {s: True for slug in known for s in SLUG_SWITCHES.get(slug, ())}
    for s in os.environ.get("C03_SWITCHES", "").split(","):  # development aid: extra switches
        if s:
            sw[s] = True
    return sw


def build_case(data, sw: dict, depth: int) -> dict:
    """Deterministic case from a choice sequence (see vp/gen/c03_expr.Builder)."""
    b = G.Builder(data, sw)
    pos = b.of(POSITIONS)
    future = b.flag(50)
    lit = b.of([None, *G.LITERAL_FORMS])
    layout = (0, 0, 1, 2)[b.pick(4)]
    pfuture = bool(layout) and b.flag(50)
    late = b.flag(35)
    if pos in ANNOTATION_POS and b.pick(3) != 0:
        e = b.annotation(depth - 1)
    else:
        e = b.expr(depth, compound=True)
    if pos == "base" and b.flag(15):
        e = {"t": "Starred", "v": e}
    case = {"pos": pos, "future": future, "lit": lit, "layout": layout, "pfuture": pfuture, "late": late, "expr": e}
    steered = G.steer(e, _lit(case)[1], sw)
    if steered:
        case["steered"] = steered
    return case


def _case_strategy(ctx):
    depth = ctx.scale(4, 6)
    sw = _switches(ctx.known)
    idle = {"pos": "value-module", "future": False, "lit": None, "expr": {"t": "Name", "id": "a"}}

    def build(data):
        # once the wall-clock budget is spent the harness no longer evaluates cases: do not build them either
        return idle if ctx.res.budget_exhausted else build_case(data, sw, depth)

    return G.choice_lists(ctx.scale(16, 40), ctx.scale(140, 260)).map(build)


def strategy(ctx):
    return _case_strategy(ctx), "c03"


_INTERESTING = (ast.ListComp, ast.SetComp, ast.DictComp, ast.GeneratorExp, ast.Lambda, ast.JoinedStr, ast.Starred, ast.Slice)


def describe(case):
    r = render(case)
    nodes = list(ast.walk(r.expr))
    classes = {"pos:" + r.pos, "future" if r.future else "no-future", "lit:" + str(case.get("lit"))}
    classes.add("bindings:" + ("late" if case.get("late") else "early"))
    if r.parents:
        classes.add(f"layout:{r.modpath} parent-future={bool(case.get('pfuture'))} own-future={r.future}")
    else:
        classes.add("layout:m")
    for n in nodes:
        classes.add("node:" + type(n).__name__)
        if isinstance(n, (ast.BinOp, ast.UnaryOp, ast.BoolOp)):
            classes.add("op:" + type(n.op).__name__)
        if isinstance(n, ast.Compare):
            classes.update("op:" + type(o).__name__ for o in n.ops)
    sites = G.paren_sites(r.expr)
    if sites:
        classes.add("has-paren-site")
    for n in nodes:
        if isinstance(n, ast.Attribute):
            length, v = 1, n
            while isinstance(v, ast.Attribute):
                length, v = length + 1, v.value
            if isinstance(v, ast.Name) and length >= 3:
                classes.add(f"dotted-chain:{min(length, 5)}{'+' if length > 5 else ''}")
                classes.add("dotted-root:" + ("module" if v.id == "A" else "imported" if v.id in ("B", "pk") else "unknown"))
    depth = G.model_depth(case["expr"])
    classes.add(f"depth:{min(depth, 7)}")
    stats: Counter = Counter()
    annotation = r.pos in ANNOTATION_POS
    expected = expand(r.expr, "must" if annotation and not r.future else "no", r, stats)
    has_str = any(isinstance(n, ast.Constant) and isinstance(n.value, str) for n in nodes)
    for k in stats:
        classes.add(("ann-" if annotation else "val-") + k)
    nontrivial = depth >= 2 and (bool(sites) or any(isinstance(n, _INTERESTING) for n in nodes) or (annotation and has_str))
    key = (r.pos, r.future, r.modpath, bool(case.get("pfuture")), bool(case.get("late")), dump(expected)) if nontrivial else None
    if nontrivial:
        classes.add("nontrivial")
    sample = {"position": r.pos, "future": r.future, "literal": r.lit_text, "source": ast.unparse(r.expr)}
    return key, sorted(classes), sample


def _enumerate_signatures(ctx) -> None:
    """Exhaustive part: every parameter-list shape within the bounds, once as a lambda stored at a rotating storage
    position (rendering of ExprLambda) and once as a `def` / method signature (defaults stored per parameter)."""
    shapes = G.signature_shapes(*ctx.scale((3, 4, 2), (4, 5, 3)))
    if ctx.shard == 0:
        ctx.res.extra["signature_shapes"] = len(shapes)
    for i, shape in enumerate(shapes):
        if i % ctx.nshards != ctx.shard:
            continue
        npo, npk, nd, va, nko, kmask, vk = shape
        label = ["sig:lambda", "sig:defaults-span-slash" if npo and nd > npk else "sig:no-span"]
        if npo and 0 < nd < npk:
            label.append("sig:posonly+partial-regular-defaults")
        cases = [
            {"pos": POSITIONS[i % len(POSITIONS)], "future": bool(i & 1), "lit": None, "expr": G.signature_lambda(shape)},
            {"pos": "def-signature", "sig": list(shape), "method": bool(i & 1)},
        ]
        for case in cases:
            from vp.common.harness import run_check

            fails = run_check(check_case, case)
            lam = case["pos"] != "def-signature"
            nontrivial = (npo + npk + nko + va + vk) > 0
            sample = None
            if i % 397 == 5:
                sample = {"position": case["pos"], "source": ast.unparse(render(case).expr) if lam else "def f(" + ast.unparse(G.to_ast(G.signature_lambda(shape)).args) + ")"}
            ctx.case(1 if nontrivial else None, label if lam else ["sig:def"] + label[1:], sample, enumerated=True)
            for f in fails:
                ctx.fail(f, case)


def run_shard(ctx) -> None:
    strat, salt = strategy(ctx)
    _enumerate_signatures(ctx)
    # the enumerated sub-space is complete unless the budget ran out inside it (it runs first)
    ctx.res.extra["enum_complete"] = not ctx.res.budget_exhausted

    def describe_and_count(case):
        for slug, k in (case.get("steered") or {}).items():
            ctx.excluded(SWITCH_SLUG.get(slug, slug), k)
        return describe(case)

    # quick: one search of 2600 cases per shard. thorough: 10 searches of 6000 (the first with the salt the shrinker
    # replays), so that a spent wall-clock budget ends the run after the current chunk instead of drawing on.
    chunks = ctx.scale(1, 10)
    size = ctx.scale(2600, 6000)
    for k in range(chunks):
        if ctx.out_of_budget():
            break
        ctx.run_hypothesis(strat, check_case, max_examples=size, describe=describe_and_count, salt=salt if k == 0 else f"{salt}#{k}")
